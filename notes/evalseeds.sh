#!/bin/sh
# notes/evalseeds.sh <round> <Cxx> [offset]  — evaluate the two seeded changes an agent left in /tmp/seed<round>/<Cxx>/out
# (demo on clean/patched tree, test suite on the patched copy, ./check against the patched copy); stores seeded/<Cxx>-<offset+k>
r=$1; p=$2; off=${3:-$(( (r-1)*2 ))}
[ "$p" = C11 ] && [ -z "$3" ] && off=$((off+1))
export OPENBLAS_NUM_THREADS=1
for k in 1 2; do
  [ -f /tmp/seed$r/$p/out/patch$k.diff ] || { echo "$p-$k: no patch"; continue; }
  SEED_LABEL_OFFSET=$off /venv/bin/python /verif/harness/seeded_eval.py $p /tmp/seed$r/$p/out $k 2>&1 | tail -1
done
