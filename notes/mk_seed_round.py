#!/venv/bin/python
"""notes/mk_seed_round.py <round> [Cxx ...] — prepare the scratch worktrees and prompts of one round of
seeded changes: /tmp/seed<round>/<Cxx> (a detached git worktree of /repo), out/PROPERTY.txt and out/PROMPT.txt.

The prompt contains the property text, the summaries of the changes other agents already delivered for that
property (so that a new round looks elsewhere) and nothing about /verif's machinery.
"""
import json, os, subprocess, sys, glob

ROUND = sys.argv[1]
ONLY = sys.argv[2:]
ROOT = f"/tmp/seed{ROUND}"
props = [json.loads(l) for l in open("/verif/properties.jsonl")]

WELCOME = """Welcome in this round, because hardly used so far:
  * TWO COOPERATING SITES — two small edits in different functions (or different files) that each look fine, and each alone keeps the property, but together break it (a producer that changes a convention and a consumer that was not told; a helper that now returns a view and a caller that now modifies its result; a default changed in one constructor and relied upon in another module);
  * a fault at a particular point — an exception, a failed search, a refused edit, a failed file read or a NaN that arrives at one specific step of a multi-step operation, after which the SAME object is used again legitimately;
  * a multi-step sequence of public calls (three or more) in an order the example scripts under examples/ use but the tests never do: second and third cycles, restart from dumped files, an analysis between two sampling rounds, removing something and adding it again, the same helper object shared by two networks / two samplers / two datasets;
  * state carried between calls on attributes (a counter, a flag, a list that is appended to, a reference frame) that is reset at the wrong moment or not at all;
  * sizes at exactly the boundary of a branch (exactly as many as / one more than a documented limit, exactly one element, exactly two, an empty selection that is legitimate);
  * an interleaving: the order in which results of parallel workers, or of two alternately used objects, arrive.
NOT welcome any more (used up in earlier rounds): a tolerance (np.isclose / allclose) replacing a comparison; a memoised value gone stale through lru_cache; unpacking a tuple in the wrong order; truthiness of index 0; dtype inherited from an input (zeros_like / float32); np.unique / set dropping multiplicities; `random` vs `np.random` in a forked worker; frozen coordinates (lower == upper); plain operator flips (< vs <=) at a single site; an off-by-one in a single range."""

WELCOME8 = """Welcome in this round, because hardly used so far:
  * NON-DEFAULT OPTIONS — a constructor or call option that tests and most scripts leave at its default (a different optimiser/scheme name, `proportional_distance=True`, `weighted=True`, `allow_inversion=True`, `fixed_batch_size`, `output_level`, `remove_bounds_minima`, `test_valid`, `max_atoms`, non-default image density / force constants / tolerances, `n_processes`), handled wrongly only when it is set;
  * UPSTREAM / DOWNSTREAM modules — a slip in a helper OUTSIDE the anchored files that the anchored mechanisms call or whose output they consume (coordinates helpers, minima_properties, graph_properties, potentials' base class, the similarity base class, the network store), which breaks THIS property although that helper looks unrelated;
  * numerically subtle but legitimate inputs — values spanning many orders of magnitude, energies with a large common offset, nearly (not exactly) degenerate values, long thin boxes, points exactly ON a box face, negative zero, very small step sizes, denormals;
  * shapes — (n,) vs (n,1) vs (1,n), 0-d arrays where a float is expected, a single row/atom/image/point, empty selections, `squeeze`/`keepdims`/`ravel`/`reshape(-1)` on non-contiguous or 2-d input, integer arrays where floats are expected (integer division, in-place add of floats into an int array);
  * the same object used for two different problems in turn (two surfaces, two networks, two molecules, two boxes), or two objects of the same class alive at once (class-level vs instance-level state);
  * exception paths: what is left behind when a legitimate call raises or a component reports failure half-way, and the object is then used again.
NOT welcome any more (used up in earlier rounds): np.isclose/allclose replacing a comparison; lru_cache; tuple unpacked in the wrong order; truthiness of index 0; zeros_like dtype; np.unique/set dropping multiplicities; `random` vs `np.random` in a worker; lower == upper; a plain operator flip or off-by-one at a single site; moving a lookup before an insertion in test_new_ts; a persistent scratch array/neighbour list on a coordinates object; pool reuse across rounds."""
if ROUND == "8":
    WELCOME = WELCOME8

for p in props:
    pid = p["id"]
    if ONLY and pid not in ONLY:
        continue
    wt = f"{ROOT}/{pid}"
    if not os.path.isdir(wt):
        os.makedirs(ROOT, exist_ok=True)
        subprocess.run(["git", "-C", "/repo", "worktree", "add", "--detach", wt], check=True,
                       stdout=subprocess.DEVNULL, stderr=subprocess.DEVNULL)
    os.makedirs(f"{wt}/out", exist_ok=True)
    ptxt = (f"{pid} — {p['title']}\nSTATEMENT: {p['statement']}\nQUANTIFIER: {p['quantifier']['text']}\n"
            f"ANCHORS: files={p['anchors'].get('files')}\n"
            f"MECHANISMS: {[m['name'] + ' @ ' + m['where'] for m in p['anchors'].get('mechanism', [])]}\n"
            f"OBSERVE AT: {p['anchors'].get('observe_at')}\n")
    open(f"{wt}/out/PROPERTY.txt", "w").write(ptxt)
    prior = []
    for m in sorted(glob.glob(f"/verif/seeded/{pid}-*/meta.json")):
        try:
            d = json.load(open(m))
            if d.get("summary"):
                prior.append(f"  - {d['summary'][:420]} (needs: {d.get('needs', '')[:260]})")
        except Exception:
            pass
    prompt = f"""You are testing how robust a Python project's guarantees are. The project is IBM/topography-searcher (TopSearch: energy-landscape exploration — basin-hopping, nudged elastic band, hybrid eigenvector-following, networks of minima and transition states). You have your OWN scratch git worktree of it at {wt} (source in {wt}/src/topsearch, tests in {wt}/tests, example scripts in {wt}/examples). Work ONLY inside {wt} (and /tmp scratch files of your own, with names starting /tmp/s{ROUND}_{pid}_). Do NOT read or touch /repo or /verif or any other directory — your work must be independent.

The property under study (also in {wt}/out/PROPERTY.txt):

{ptxt}

{len(prior)} seeded defects for this property already exist (made by others, in earlier rounds):
{chr(10).join(prior)}
YOUR two changes must be of a DIFFERENT kind from all of these: different functions where at all possible (helpers, constructors, glue between modules, functions the anchored mechanisms call or that prepare their inputs), and a different kind of slip.
{WELCOME}

Your task: produce TWO different, independent seeded defects to the library under {wt}/src/topsearch, each of which BREAKS this property while (a) still importing/compiling, and (b) still passing the project's entire existing test suite. A defect may consist of two cooperating edits — then ALSO confirm that each of the two edits alone does not make your demo fail, and say so in the meta file. Each should be realistic — the kind of slip a maintainer could make in a refactor, a clean-up or an "optimisation" — and SUBTLE: it must need something specific to manifest, NOT something ordinary use would expose at once. The input that exposes it must be LEGITIMATE: something the unmodified library handles correctly and a user could reasonably do. Prefer small changes (1–8 lines). The two defects should touch different mechanisms.

For EACH defect k ∈ {{1, 2}} deliver in {wt}/out/:
  * patch{{k}}.diff — `git -C {wt} diff` of the change against the worktree's HEAD (only files under src/), made with exactly that change applied and nothing else;
  * demo{{k}}.py — a small self-contained program that demonstrates the violation: run as `PYTHONPATH={wt}/src /venv/bin/python demo{{k}}.py` it must exit with status 1 and print what went wrong WITH the change applied, and exit 0 WITHOUT it (on the unmodified worktree). It should work in a temporary directory (the library writes a file called `logfile` into the current directory: `os.chdir(tempfile.mkdtemp())` first). It must check the PROPERTY as stated, judged by criteria written in the demo itself (not by calling the function you changed as its own oracle), not an implementation detail; tolerances, where needed, derived rather than guessed.
  * meta{{k}}.json — {{"property": "{pid}", "summary": "<one or two sentences: what was changed>", "needs": "<what specific input/sequence/condition is needed for the violation to manifest>", "files": [...], "cooperating_sites": <true|false>, "tests_pass": true, "demo_fails_with_change": true, "demo_passes_without_change": true}}.

How to work: read the relevant source first. Python is /venv/bin/python (numpy, scipy, networkx, ase, rdkit, sklearn installed). ALWAYS run things with `PYTHONPATH={wt}/src` so that YOUR worktree's code is imported (check once with `PYTHONPATH={wt}/src /venv/bin/python -c "import topsearch; print(topsearch.__file__)"`). Run the full test suite with: `cd {wt} && PYTHONPATH={wt}/src /venv/bin/python -m pytest -q -p no:cacheprovider --no-cov -n 4 -x 2>&1 | tail -5` (1–3 minutes; all 362 tests must pass). NEVER use `pkill -f`, `killall` or any pattern-based kill: other people run the same commands on this machine; if you must stop a run of your own, kill it by the PID you started. Between the two changes restore the tree with `git -C {wt} checkout -- src` and at the end leave the worktree restored (unmodified), with only the files in {wt}/out/ added. Verify for each change, yourself, all three facts (tests pass with it; demo exits 1 with it; demo exits 0 without it) before you finish — if a candidate change fails a test, pick another one. Do not edit the tests. If after honest effort you can only find one qualifying change, deliver one and say so. Budget your effort: aim to finish within about 45 minutes.

Final message: for each change, one paragraph: what you changed, why the existing tests do not notice, what the demo does.

Note: a few tests of the suite are flaky on the unmodified tree when run in parallel (test_run2, test_optimal_alignment_mol6, test_connection_attempt3, occasionally test_align and test_run_schwefel): if one of those alone fails, re-run it in isolation a few times before concluding anything.
"""
    open(f"{wt}/out/PROMPT.txt", "w").write(prompt)
    print(pid, wt, len(prior), "prior")
