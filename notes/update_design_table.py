#!/venv/bin/python
"""replace the seeded-changes table of DESIGN.md §10.4 by the current output of harness/seeded_table.py"""
import re, subprocess
p = "/verif/DESIGN.md"
s = open(p).read()
r = subprocess.run(["/venv/bin/python", "/verif/harness/seeded_table.py"], capture_output=True, text=True)
table, summary = r.stdout.strip(), r.stderr.strip().splitlines()[-1]
a = s.index("| Seed | Change (independent sub-agent")
b = s.index("### 10.5 Trusted base")
s = s[:a] + table + "\n\n\n" + s[b:]
para_a = s.index("**All ")
para_a = s.index("**All four rounds, with the checks as they are now**") if "**All four rounds, with the checks as they are now**" in s else s.index("**All rounds, with the checks as they are now**")
para_b = s.index("| Seed | Change (independent sub-agent")
new = ("**All rounds, with the checks as they are now** (`harness/seeded_eval.py --recheck` re-runs the current check against a\n"
       "stored patch; the \"first pass\" column is the outcome when the seed was first evaluated — for round 1 that is after the\n"
       "first strengthening; \"now\" is filled in for every seed that has been re-checked since: all of rounds 1–6 at the end of the\n"
       "sixth round, and every first-pass miss of rounds 7 and 8 after its repair).  " + summary + ".\n"
       "First-pass rates by round: 29/40, 27/40, 33/40, 35/40, 29/40, 21/40, then — with the transcription tie — 32/40 and 29/39\n"
       "(eighth round: upstream modules; every miss there was a function no model of the property transcribed, see §10.6).\n\n")
s = s[:para_a] + new + s[para_b:]
open(p, "w").write(s)
print(summary)
