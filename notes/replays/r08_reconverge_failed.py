"""C05 defect: reconverge_landscape aborts with TypeError when a re-search fails."""
import os, tempfile, numpy as np
os.chdir(tempfile.mkdtemp())
from topsearch.data.coordinates import StandardCoordinates
from topsearch.similarity.similarity import StandardSimilarity
from topsearch.data.kinetic_transition_network import KineticTransitionNetwork
from topsearch.sampling.exploration import NetworkSampling
from topsearch.potentials.test_functions import Quadratic
k = KineticTransitionNetwork(); sim = StandardSimilarity(0.1, 0.1)
c = StandardCoordinates(ndim=2, bounds=[(-3., 3.), (-3., 3.)])
k.add_minimum(np.array([0.1, 0.1]), 0.02); k.add_minimum(np.array([1., 1.]), 2.0)
k.add_ts(np.array([.5, .5]), 3.0, 0, 1)
class S:
    failure = 'steps'
    def run(self, coords, tag=-1): return None, None, None, None, None, None, None
ns = NetworkSampling(k, c, None, S(), None, sim)
try:
    ns.reconverge_landscape(Quadratic(), 1e-6); print("PASS", k.n_minima, k.n_ts)
except Exception as e:
    print("FAIL", type(e).__name__, e)
