"""C04 defect: test_convergence / check_valid_eigenvector mask along the wrong axis."""
import os, tempfile, numpy as np
os.chdir(tempfile.mkdtemp())
from topsearch.data.coordinates import StandardCoordinates
from topsearch.transition_states.hybrid_eigenvector_following import HybridEigenvectorFollowing
from topsearch.potentials.potential import Potential
class P(Potential):
    def __init__(s, g): s.g = np.array(g, float); s.atomistic = False
    def function(s, x): return float(s.g @ x)
    def gradient(s, x): return s.g.copy()
def conv(g, lower, upper):
    h = HybridEigenvectorFollowing(P(g), 1e-3, 10, 1.0)
    return h.test_convergence(np.zeros(3), np.array(lower), np.array(upper))
bad = []
if not conv([0, 0, 5], [0, 0, 1], [0, 0, 0]): bad.append("pinned coord 2 large gradient there: should be converged")
if conv([5, 0, 0], [0, 0, 1], [0, 0, 0]): bad.append("free coord 0 has gradient 5: should not be converged")
c = StandardCoordinates(ndim=3, bounds=[(0., 1.)] * 3)
h = HybridEigenvectorFollowing(P([0, 0, 0]), 1e-3, 10, 1.0)
c.position = np.array([0., 0., 0.])
if h.check_valid_eigenvector(np.array([1., 0, 0]), -1.0, c): bad.append("all-lower-pinned point accepted")
c.position = np.array([0., 1., 0.5])
if not h.check_valid_eigenvector(np.array([1., 0, 0]), -1.0, c): bad.append("one-low/one-high/one-free refused")
print("FAIL" if bad else "PASS", bad)
