import os, tempfile; os.chdir(tempfile.mkdtemp())
import numpy as np, ase.io
from topsearch.data.coordinates import MolecularCoordinates
from topsearch.transition_states.nudged_elastic_band import NudgedElasticBand
from topsearch.potentials.test_functions import Quadratic
a = ase.io.read('/repo/tests/test_data/ethanol.xyz')
lab, pos = a.get_chemical_symbols(), a.get_positions().flatten()
c = MolecularCoordinates(lab, pos.copy())
# second end point: same molecule with one bond stretched and a dihedral turned
c2 = MolecularCoordinates(lab, pos.copy())
bonds = c2.get_bond_angle_info()[0]
c2.change_bond_lengths([bonds[0]], [0.3], c2.reference_bonds)
end2 = c2.position.copy()
neb = NudgedElasticBand(Quadratic(), 10.0, 8.0, 20, 1e-2)
before = c.position.copy()
band = neb.initial_interpolation(c, end2, 0, np.arange(len(lab)))
print('band begins at first minimum:', np.abs(band[0]-before).max())
print('first end point displaced by the call:', np.abs(c.position-before).max())
band2 = neb.initial_interpolation(c, end2, 0, np.arange(len(lab)))
print('second identical call gives a different band:', np.abs(band2-band).max())
