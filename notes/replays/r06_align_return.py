"""C11 defect: optimal_alignment early exit returns the coordinates object, not an array."""
import os, tempfile, numpy as np
os.chdir(tempfile.mkdtemp())
from topsearch.data.coordinates import AtomicCoordinates
from topsearch.similarity.molecular_similarity import MolecularSimilarity
from scipy.spatial.transform import Rotation
rng = np.random.default_rng(5)
pos = rng.uniform(-2, 2, size=(7, 3))
c = AtomicCoordinates(['C'] * 7, pos.flatten())
sim = MolecularSimilarity(0.1, 0.1, weighted=False, allow_inversion=False)
perm = rng.permutation(7)
other = (Rotation.random(random_state=2).apply(pos[perm]) + 0.3).flatten()
out = sim.optimal_alignment(c, other)
print("PASS" if isinstance(out[1], np.ndarray) else "FAIL", type(out[1]).__name__, "dist", out[0])
