"""C19 defect: remove_duplicates compares against removed points and stops at the first hit."""
import os, tempfile, numpy as np
os.chdir(tempfile.mkdtemp())
from topsearch.data.model_data import ModelData
bad = []
for pts in ([0., 0.6, -0.6], [0., 0.6, 1.2]):
    np.savetxt('t.txt', np.array(pts).reshape(-1, 1)); np.savetxt('r.txt', np.arange(len(pts), dtype=float))
    m = ModelData('t.txt', 'r.txt'); m.remove_duplicates(1.0)
    kept = m.training.flatten().tolist()
    close = any(abs(a - b) < 1.0 for i, a in enumerate(kept) for b in kept[i + 1:])
    removed = [p for p in pts if p not in kept]
    orphan = [p for p in removed if not any(abs(p - q) < 1.0 for q in kept if pts.index(q) < pts.index(p))]
    if close or orphan: bad.append((pts, kept, "close" if close else "orphan"))
print("FAIL" if bad else "PASS", bad)
