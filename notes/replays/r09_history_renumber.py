"""C13 defect: the attempt history is not renumbered on removal / not mapped on merge."""
import os, tempfile, numpy as np
os.chdir(tempfile.mkdtemp())
from topsearch.data.coordinates import StandardCoordinates
from topsearch.similarity.similarity import StandardSimilarity
from topsearch.data.kinetic_transition_network import KineticTransitionNetwork
k = KineticTransitionNetwork()
for i in range(4): k.add_minimum(np.array([float(i), 0.]), float(i))
k.pairlist = np.array([[0, 1], [2, 3], [1, 3]])
k.remove_minimum(1)
bad = []
if k.pairlist.tolist() != [[1, 2]]: bad.append(("remove", k.pairlist.tolist()))
a = KineticTransitionNetwork(); b = KineticTransitionNetwork()
a.add_minimum(np.array([5., 5.]), 1.0); a.add_minimum(np.array([0., 0.]), 0.0)
b.add_minimum(np.array([0., 0.]), 0.0); b.add_minimum(np.array([2., 2.]), 0.5); b.pairlist = np.array([[0, 1]])
c = StandardCoordinates(ndim=2, bounds=[(-9., 9.)] * 2)
a.add_network(b, StandardSimilarity(0.1, 0.1), c)
if a.pairlist.tolist() != [[1, 2]]: bad.append(("merge", a.pairlist.tolist()))
print("FAIL" if bad else "PASS", bad)
