"""C03 defect: a TS whose two sides reach the same *new* minimum stores that minimum twice."""
import os, tempfile, numpy as np
os.chdir(tempfile.mkdtemp())
from topsearch.data.coordinates import StandardCoordinates
from topsearch.similarity.similarity import StandardSimilarity
from topsearch.data.kinetic_transition_network import KineticTransitionNetwork
k = KineticTransitionNetwork(); sim = StandardSimilarity(0.1, 0.1)
c = StandardCoordinates(ndim=2, bounds=[(-3., 3.), (-3., 3.)]); c.position = np.array([0.5, 0.5])
m = np.array([1.0, 1.0])
sim.test_new_ts(k, c, 2.0, m, 1.0, m.copy(), 1.0)
print("FAIL" if k.n_minima != 1 else "PASS", "n_minima", k.n_minima, "edges", list(k.G.edges()))
