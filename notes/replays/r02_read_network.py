"""C06/C13 defect: read_network fails for 1 minimum / 1 TS / 1-D coords; empty history shape."""
import os, tempfile, numpy as np
os.chdir(tempfile.mkdtemp())
from topsearch.data.kinetic_transition_network import KineticTransitionNetwork as K
def rt(n, edges, dim):
    k = K()
    for i in range(n): k.add_minimum(np.arange(dim) + 0.5 * i, float(i))
    for u, v in edges: k.add_ts(np.arange(dim) + 0.25 + u + v, 5.0 + u, u, v)
    k.dump_network('x'); k2 = K(); k2.read_network(text_string='x')
    assert k2.n_minima == n and k2.n_ts == len(edges), (k2.n_minima, k2.n_ts)
    assert k2.pairlist.shape == (0, 2), k2.pairlist.shape
    for i in range(n): assert np.array_equal(np.atleast_1d(k2.get_minimum_coords(i)), k.get_minimum_coords(i))
bad = []
for case in [(1, [], 2), (2, [(0, 1)], 2), (3, [(0, 1), (1, 2)], 1), (2, [], 3)]:
    try: rt(*case)
    except Exception as e: bad.append((case, type(e).__name__, str(e)[:60]))
print("FAIL" if bad else "PASS", bad)
