"""C19 defect: a dataset with a single point holds a 0-d response array; remove_duplicates raises."""
import os, tempfile, numpy as np
os.chdir(tempfile.mkdtemp())
from topsearch.data.model_data import ModelData
np.savetxt('t.txt', np.array([[1.0, 2.0]])); np.savetxt('r.txt', np.array([3.0]))
m = ModelData('t.txt', 'r.txt')
try:
    m.remove_duplicates(); m.append_data(np.array([[4.0, 5.0]]), np.array([6.0]))
    ok = m.n_points == 2 and m.response.shape == (2,) and m.training.shape == (2, 2)
    print("PASS" if ok else "FAIL", m.response.shape, m.training.shape)
except Exception as e:
    print("FAIL", type(e).__name__, e)
