"""C17 defect: the barrier scan window spans only the spread of the MINIMA below the highest TS,
so a pair whose lowest connecting TS is further down is reported as unconnected and the Barrier
selector omits a minimum that clears every earlier pick."""
import os, tempfile, numpy as np
os.chdir(tempfile.mkdtemp())
from topsearch.data.kinetic_transition_network import KineticTransitionNetwork as K
from topsearch.analysis.batch_selection import select_batch
k = K()
for i, e in enumerate([0.0, 1.0, 0.5]): k.add_minimum(np.array([float(i), 0.]), e)
k.add_ts(np.array([.5, 0.]), 2.0, 0, 1); k.add_ts(np.array([1.5, 0.]), 10.0, 1, 2)
b = select_batch(k, 3, "Barrier", False, 0.5, [])[0]
print("PASS" if sorted(int(x) for x in b) == [0, 1, 2] else "FAIL", [int(x) for x in b])
