"""C07 defect: basin-hopping walker not restored to the last accepted minimum after a rejection."""
import os, tempfile, numpy as np
os.chdir(tempfile.mkdtemp())
from topsearch.data.coordinates import StandardCoordinates
from topsearch.potentials.test_functions import Camelback
from topsearch.similarity.similarity import StandardSimilarity
from topsearch.global_optimisation.perturbations import StandardPerturbation
from topsearch.global_optimisation.basin_hopping import BasinHopping
from topsearch.data.kinetic_transition_network import KineticTransitionNetwork
from topsearch.minimisation import lbfgs
np.random.seed(3)
coords = StandardCoordinates(ndim=2, bounds=[(-3.0, 3.0), (-2.0, 2.0)])
pot = Camelback()
entries = []
class Rec(StandardPerturbation):
    def perturb(self, c):
        entries.append(c.position.copy()); super().perturb(c)
bh = BasinHopping(KineticTransitionNetwork(), pot, StandardSimilarity(0.1, 0.1), Rec(max_displacement=2.5))
bh.run(coords, 40, 1e-6, 1e-6)
worst = max(np.max(np.abs(pot.gradient(p))) for p in entries)
print("FAIL" if worst > 1e-3 else "PASS", "largest gradient at a trial-move start:", worst)
