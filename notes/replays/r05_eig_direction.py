"""C15 defect: check_eigenvector_direction compares only component 0."""
import os, tempfile, numpy as np
os.chdir(tempfile.mkdtemp())
from topsearch.transition_states.hybrid_eigenvector_following import HybridEigenvectorFollowing
from topsearch.potentials.potential import Potential
class P(Potential):
    def __init__(s, g): s.g = np.array(g, float); s.atomistic = False
    def function(s, x): return float(s.g @ x)
    def gradient(s, x): return s.g.copy()
h = HybridEigenvectorFollowing(P([0., -1., 0.]), 1e-3, 10, 1.0)
v = h.check_eigenvector_direction(np.array([0., 1., 0.]), np.zeros(3))
ov = float(np.dot(v, [0., -1., 0.]))
print("FAIL" if ov < 0 else "PASS", "overlap with gradient:", ov)
