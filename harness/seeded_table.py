"""Markdown table of the seeded defects under /verif/seeded (for DESIGN.md §10.4):

    seeded_table.py            -> table on stdout, summary counts on stderr

For each seed: the first-pass outcome (`evaluation.checks`, recorded when the seed was first evaluated) and the
outcome with the checks as they are now (`evaluation.recheck`, written by `seeded_eval.py --recheck`)."""
from __future__ import annotations

import json
import sys
from pathlib import Path

V = Path(__file__).resolve().parent.parent


def short(s: str, n: int) -> str:
    s = " ".join(str(s).split()).replace("|", "/")
    return s if len(s) <= n else s[: n - 1] + "…"


def main() -> None:
    rows = []
    first = {"caught": 0, "quick": 0, "n": 0}
    now = {"caught": 0, "quick": 0, "concrete": 0, "n": 0}
    for d in sorted((V / "seeded").iterdir(), key=lambda p: (p.name.split("-")[0], int(p.name.split("-")[1]))):
        mp = d / "meta.json"
        if not mp.exists():
            continue
        m = json.loads(mp.read_text())
        ev = m.get("evaluation", {})
        pid = d.name.split("-")[0]
        c = ev.get("checks", {}).get(pid, {})
        r = ev.get("recheck")
        first["n"] += 1
        first["caught"] += bool(c.get("caught"))
        first["quick"] += bool(c.get("caught") and c.get("tier") == "quick")
        f1 = ("missed" if not c.get("caught") else c.get("tier", "?"))
        if r:
            now["n"] += 1
            now["caught"] += bool(r["caught"])
            now["quick"] += bool(r["caught"] and r["tier"] == "quick")
            now["concrete"] += bool(r.get("concrete_replay"))
            f2 = ("MISSED" if not r["caught"] else r["tier"])
            by = " + ".join(b.replace("bridge/proof obligation/translator", "proof/translator")
                            .replace("predicate (concrete replay)", "predicate").replace("correspondence", "corresp.")
                            for b in r.get("by", [])) or "—"
            if r["caught"] and not r.get("concrete_replay"):
                by += " (no-failing-input-found)"
        else:
            f2, by = "—", " + ".join(c.get("by", [])) or "—"
        rows.append(f"| {d.name} | {short(m.get('summary', ''), 170)} | {short(m.get('needs', ''), 130)} | {f1} | {f2} | {by} |")
    print("| Seed | Change (independent sub-agent, property text only) | Needs | First pass | Now | Caught by (now) |")
    print("|---|---|---|---|---|---|")
    print("\n".join(rows))
    print(f"first pass: {first['caught']}/{first['n']} caught ({first['quick']} quick); now: {now['caught']}/{now['n']} caught "
          f"({now['quick']} quick, {now['concrete']} with a concrete replay)", file=sys.stderr)


if __name__ == "__main__":
    main()
