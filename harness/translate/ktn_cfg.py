"""Gen/Ktn.lean: which counter rule `add_ts` uses and whether `remove_minimum` maintains the
attempt history, read from the current source."""
from __future__ import annotations

import ast

from .base import Unavailable, find_function, lean_bool, parse, write_if_changed

FILE = "data/kinetic_transition_network.py"


def _is_nts_increment(n: ast.AST) -> bool:
    if isinstance(n, ast.AugAssign) and isinstance(n.op, ast.Add) and ast.unparse(n.target) == "self.n_ts":
        return True
    if isinstance(n, ast.Assign) and ast.unparse(n.targets[0]) == "self.n_ts":
        return True
    return False


def add_ts_counts_only_new(fn: ast.FunctionDef) -> bool:
    """True when every `self.n_ts += 1` sits under an `if` whose test depends on has_edge
    (directly or through a local assigned from a has_edge expression)."""
    tainted: set[str] = set()
    for n in ast.walk(fn):
        if isinstance(n, ast.Assign) and "has_edge" in ast.unparse(n.value) or \
                isinstance(n, ast.Assign) and any(t in ast.unparse(n.value).split() for t in tainted):
            for t in n.targets:
                if isinstance(t, ast.Name):
                    tainted.add(t.id)
    incs = []

    def visit(stmts, guarded):
        for s in stmts:
            if _is_nts_increment(s):
                incs.append(guarded)
            elif isinstance(s, ast.If):
                src = ast.unparse(s.test)
                g = guarded or "has_edge" in src or any(
                    isinstance(x, ast.Name) and x.id in tainted for x in ast.walk(s.test))
                visit(s.body, g)
                visit(s.orelse, g)
            elif isinstance(s, (ast.For, ast.While, ast.With, ast.Try)):
                raise Unavailable("add_ts: unexpected control structure")
    visit(fn.body, False)
    if not incs:
        raise Unavailable("add_ts: no n_ts update found")
    return all(incs)


def remove_renumbers_history(fn: ast.FunctionDef) -> bool:
    return any(isinstance(n, (ast.Assign, ast.AugAssign)) and "self.pairlist" in
               [ast.unparse(t) for t in (n.targets if isinstance(n, ast.Assign) else [n.target])]
               for n in ast.walk(fn))


def regenerate() -> dict:
    status = {}
    tree = parse(FILE)
    try:
        a = add_ts_counts_only_new(find_function(tree, "add_ts", "KineticTransitionNetwork"))
        status["Ktn.addTsCountsOnlyNew"] = a
    except Unavailable as e:
        a = True
        status["Ktn.addTsCountsOnlyNew"] = f"unavailable ({e}); correspondence is the only tie"
    try:
        r = remove_renumbers_history(find_function(tree, "remove_minimum", "KineticTransitionNetwork"))
        status["Ktn.removeRenumbersHistory"] = r
    except Unavailable as e:
        r = True
        status["Ktn.removeRenumbersHistory"] = f"unavailable ({e})"
    text = ("-- REGENERATED on every run by harness/translate/ktn_cfg.py from\n"
            "-- /repo/src/topsearch/data/kinetic_transition_network.py (do not edit)\n"
            "import TopSearch.Model.Ktn\n"
            "namespace TopSearch.Gen.Ktn\n"
            f"def cfg : TopSearch.Ktn.Cfg :=\n"
            f"  {{ addTsCountsOnlyNew := {lean_bool(a)}, removeRenumbersHistory := {lean_bool(r)} }}\n"
            "end TopSearch.Gen.Ktn\n")
    status["Gen/Ktn.lean rewritten"] = write_if_changed("Ktn.lean", text)
    return status
