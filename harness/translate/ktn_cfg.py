"""Gen/Ktn.lean: the mutators of KineticTransitionNetwork, read statement by statement.

Model/Ktn.lean is a literal transcription of seven small functions (`add_minimum`, `add_ts`,
`remove_minimum`, `remove_minima`, `remove_ts`, `remove_tss`, `reset_network`, plus `__init__`).  The
translator accounts for EVERY statement of each of them: a function is accepted only if its body
(docstring, comments, formatting and annotations aside) is, statement for statement, one of the texts the
model was transcribed from.  Two places have variants the model can express, and which variant the source
uses is what is emitted as `Ktn.Cfg`:

  * `add_ts`: the counter is incremented only for a new edge (`if new_edge: self.n_ts += 1`) or always;
  * `remove_minimum`: the attempt history is filtered and renumbered, or left alone.

Anything else — an added early return, a reordered statement, a bulk networkx call in place of the loop — makes
that function's kernel "unavailable": the theorems are then about the transcription, not about what the code
says now, and check.py treats that as a broken tie (deep search, `no-failing-input-found` if nothing is found)."""
from __future__ import annotations

import ast

from .base import Unavailable, find_function, lean_bool, parse, spelling, write_if_changed

FILE = "data/kinetic_transition_network.py"
CLASS = "KineticTransitionNetwork"

RESET = ["self.G = nx.Graph()", "self.n_minima = 0", "self.n_ts = 0", "self.pairlist = np.empty((0, 2), dtype=int)"]
ADD_TS_HEAD = ["new_edge = not self.G.has_edge(min_plus, min_minus)",
               "self.G.add_edge(min_plus, min_minus, coords=np.array(ts_coords, copy=True), energy=energy)"]
REMOVE_MIN_HEAD = ["new_order = np.arange(self.n_minima)",
                   "new_order[minimum] = self.n_minima + 1",
                   "for i in range(minimum, self.n_minima):\n    new_order[i] -= 1",
                   "mapping = dict(zip(np.arange(self.n_minima), new_order))",
                   "self.G = nx.relabel_nodes(self.G, mapping, copy=True)",
                   "self.n_ts -= len(self.G.edges(self.n_minima))",
                   "self.G.remove_node(self.n_minima)",
                   "self.n_minima -= 1"]
HISTORY = ("if self.pairlist.size > 0:\n    pairs = self.pairlist.reshape(-1, 2)\n"
           "    pairs = pairs[~np.any(pairs == minimum, axis=1)]\n    self.pairlist = pairs - (pairs > minimum)")

# function -> (argument names, {variant name: statement texts})
SHAPES = {
    "__init__": (["self"], {"std": RESET + ["with open('logfile', 'w', encoding='utf-8') as outfile:\n    outfile.write(' ')"]}),
    "reset_network": (["self"], {"std": RESET}),
    "add_minimum": (["self", "min_coords", "energy"],
                    {"std": ["self.G.add_node(self.n_minima, coords=np.array(min_coords, copy=True), energy=energy)",
                             "self.n_minima += 1"]}),
    "add_ts": (["self", "ts_coords", "energy", "min_plus", "min_minus"],
               {"counts-only-new": ADD_TS_HEAD + ["if new_edge:\n    self.n_ts += 1"],
                "counts-always": ADD_TS_HEAD + ["self.n_ts += 1"],
                "counts-always-plain": [ADD_TS_HEAD[1], "self.n_ts += 1"]}),
    "remove_minimum": (["self", "minimum"],
                       {"renumbers-history": REMOVE_MIN_HEAD + [HISTORY], "leaves-history": list(REMOVE_MIN_HEAD)}),
    "remove_minima": (["self", "minima"],
                      {"std": ["for c, i in enumerate(np.sort(minima), 0):\n    self.remove_minimum(i - c)"]}),
    "remove_ts": (["self", "minimum1", "minimum2"], {"std": ["self.G.remove_edge(minimum1, minimum2)", "self.n_ts -= 1"]}),
    "remove_tss": (["self", "minima"], {"std": ["for i in minima:\n    self.remove_ts(i[0], i[1])"]}),
}


class _Normalise(ast.NodeTransformer):
    """spelling differences that cannot change what a statement does: the names of local variables (renamed in
    order of first binding), `enumerate(x, 0)` / `enumerate(x, start=0)` for `enumerate(x)`, an annotated
    assignment for a plain one, `t = t + e` / `t = t - e` for `t += e` / `t -= e` on the SAME target text"""

    def __init__(self, args: list[str]):
        self.keep = set(args)
        self.names: dict[str, str] = {}

    def bind(self, node):
        for n in ast.walk(node):
            if isinstance(n, ast.Name) and isinstance(n.ctx, ast.Store) and n.id not in self.keep and n.id not in self.names:
                self.names[n.id] = f"v{len(self.names)}"

    def visit_Name(self, node):
        if node.id in self.names:
            return ast.copy_location(ast.Name(id=self.names[node.id], ctx=node.ctx), node)
        return node

    def visit_Call(self, node):
        self.generic_visit(node)
        if isinstance(node.func, ast.Name) and node.func.id == "enumerate":
            if len(node.args) == 2 and isinstance(node.args[1], ast.Constant) and node.args[1].value == 0 \
                    and type(node.args[1].value) is int and not node.keywords:
                node.args = node.args[:1]
            elif len(node.args) == 1 and len(node.keywords) == 1 and node.keywords[0].arg == "start" and \
                    isinstance(node.keywords[0].value, ast.Constant) and node.keywords[0].value.value == 0 and \
                    type(node.keywords[0].value.value) is int:
                node.keywords = []
        return node

    def visit_AnnAssign(self, node):
        self.generic_visit(node)
        if node.value is not None and node.simple:
            return ast.copy_location(ast.Assign(targets=[node.target], value=node.value), node)
        return node

    def visit_Assign(self, node):
        self.generic_visit(node)
        if len(node.targets) == 1 and isinstance(node.value, ast.BinOp) and isinstance(node.value.op, (ast.Add, ast.Sub)) \
                and isinstance(node.targets[0], (ast.Name, ast.Attribute)) \
                and ast.unparse(node.value.left) == ast.unparse(node.targets[0]):
            return ast.copy_location(ast.AugAssign(target=node.targets[0], op=node.value.op, value=node.value.right), node)
        return node


def normalised(stmts: list[ast.stmt], args: list[str]) -> list[str]:
    nz = _Normalise(args)
    for s in stmts:                       # bind in textual order, then rename everywhere
        nz.bind(s)
    return [ast.unparse(ast.fix_missing_locations(nz.visit(s))) for s in stmts]


def statements(fn: ast.FunctionDef) -> list[str]:
    body = list(fn.body)
    if body and isinstance(body[0], ast.Expr) and isinstance(body[0].value, ast.Constant) and isinstance(body[0].value.value, str):
        body = body[1:]
    return normalised(body, [a.arg for a in fn.args.args])


def shape(texts: list[str], args: list[str]) -> list[str]:
    return normalised(spelling(ast.parse("\n".join(texts))).body, args)


def variant_of(tree, name: str) -> str:
    fn = find_function(tree, name, CLASS)
    args, variants = SHAPES[name]
    got_args = [a.arg for a in fn.args.args]
    if got_args != args or fn.args.vararg or fn.args.kwarg or fn.args.kwonlyargs or \
            any(not (isinstance(d, ast.Constant)) for d in fn.args.defaults) or fn.args.defaults:
        raise Unavailable(f"{name}: signature {got_args} (transcribed from {args})")
    if fn.decorator_list:
        raise Unavailable(f"{name}: decorated")
    got = statements(fn)
    for v, want in variants.items():
        if got == shape(want, args):
            return v
    # say where the first difference is
    want = shape(next(iter(variants.values())), args)
    for k, (a, b) in enumerate(zip(got, want)):
        if a != b:
            raise Unavailable(f"{name}: statement {k + 1} is `{a[:70]}`, the model was transcribed from `{b[:70]}`")
    raise Unavailable(f"{name}: {len(got)} statements, the model was transcribed from {len(want)}")


def regenerate(only: list[str] | None = None) -> dict:
    """`only`: the mutators the calling property's model uses (default: all of them)"""
    status = {}
    tree = parse(FILE)
    found = {}
    for name in SHAPES:
        try:
            found[name] = variant_of(tree, name)
            status[f"Ktn.{name}"] = f"transcription verified statement by statement ({found[name]})"
        except Unavailable as e:
            if only is not None and name not in only:
                status[f"Ktn.{name}"] = f"differs from the transcription ({e}); not used by this property's model"
            else:
                status[f"Ktn.{name}"] = f"unavailable ({e}); correspondence is the only tie"
    a = found.get("add_ts", "counts-only-new") == "counts-only-new"
    r = found.get("remove_minimum", "renumbers-history") == "renumbers-history"
    status["Ktn.addTsCountsOnlyNew"] = a
    status["Ktn.removeRenumbersHistory"] = r
    text = ("-- REGENERATED on every run by harness/translate/ktn_cfg.py from\n"
            "-- /repo/src/topsearch/data/kinetic_transition_network.py (do not edit)\n"
            "import TopSearch.Model.Ktn\n"
            "namespace TopSearch.Gen.Ktn\n"
            f"def cfg : TopSearch.Ktn.Cfg :=\n"
            f"  {{ addTsCountsOnlyNew := {lean_bool(a)}, removeRenumbersHistory := {lean_bool(r)} }}\n"
            "end TopSearch.Gen.Ktn\n")
    status["Gen/Ktn.lean rewritten"] = write_if_changed("Ktn.lean", text)
    return status
