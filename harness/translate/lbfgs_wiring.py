"""Gen/Lbfgs.lean: the call record of `minimise` (src/topsearch/minimisation/lbfgs.py) read from
the current source with `ast`: which wrapper parameter or literal is bound to which keyword of
`scipy.optimize.fmin_l_bfgs_b` (positional arguments are mapped to their keyword through scipy's
signature order; keywords are emitted in signature order so that re-ordering them in the source
changes nothing), the `if args is None: args = []` default, and the return statement."""
from __future__ import annotations

import ast
from fractions import Fraction

from .base import Unavailable, find_function, lean_bool, parse, write_if_changed

FILE = "minimisation/lbfgs.py"

# scipy 1.13: fmin_l_bfgs_b(func, x0, fprime=None, args=(), approx_grad=0, bounds=None, m=10,
#   factr=1e7, pgtol=1e-5, epsilon=1e-8, iprint=-1, maxfun=15000, maxiter=15000, disp=None,
#   callback=None, maxls=20)
SIGNATURE = ["func", "x0", "fprime", "args", "approx_grad", "bounds", "m", "factr", "pgtol", "epsilon",
             "iprint", "maxfun", "maxiter", "disp", "callback", "maxls"]
KW = {"func": "func", "x0": "x0", "fprime": "fprime", "args": "args", "approx_grad": "approxGrad",
      "bounds": "bounds", "m": "m", "factr": "factr", "pgtol": "pgtol", "epsilon": "epsilon",
      "iprint": "iprint", "maxfun": "maxfun", "maxiter": "maxiter", "disp": "disp",
      "callback": "callback", "maxls": "maxls"}
# keywords the wrapper leaves alone: binding one of them to scipy's own default changes nothing
DEFAULTS = {"fprime": [None], "approx_grad": [0, False], "epsilon": [1e-8], "iprint": [-1], "maxfun": [15000],
            "disp": [None], "callback": [None]}


def _is_default(kw: str, n: ast.AST) -> bool:
    if kw not in DEFAULTS:
        return False
    try:
        v = ast.literal_eval(n)
    except Exception:
        return False
    return any(v is d or (d is not None and v is not None and type(v) in (int, float, bool) and v == d)
               for d in DEFAULTS[kw])


PARAM = {"func_grad": "funcGrad", "initial_position": "initialPosition", "bounds": "bounds",
         "conv_crit": "convCrit", "history_size": "historySize", "n_steps": "nSteps", "args": "args"}


EMPTY, ARGSDEF, OTHER, NONE = ("empty",), ("argsdef",), ("other",), ("none",)


def _eval(n: ast.AST, env: dict) -> tuple:
    """symbolic value of an expression: a wrapper parameter, a numeric literal, an empty sequence, `args with None
    replaced by an empty sequence`, or something the model has no word for"""
    if isinstance(n, ast.Name):
        return env.get(n.id, OTHER)
    if ast.unparse(n) in ("[]", "()", "list()", "tuple()"):
        return EMPTY                       # scipy unpacks `*args`: no extra argument reaches the objective either way
    if isinstance(n, ast.Constant) and n.value is None:
        return NONE
    if isinstance(n, ast.IfExp):
        br = _args_none_test(n.test)
        if br is not None:
            vn, vp = (n.body, n.orelse) if br else (n.orelse, n.body)
            return _merge(_eval(vn, {**env, "args": NONE}), _eval(vp, env))
        return OTHER
    neg = False
    m = n
    if isinstance(m, ast.UnaryOp) and isinstance(m.op, ast.USub):
        neg, m = True, m.operand
    if isinstance(m, ast.Constant) and isinstance(m.value, (int, float)) and not isinstance(m.value, bool):
        f = Fraction(repr(m.value))
        return ("lit", -f if neg else f)
    return OTHER


def _merge(v_none: tuple, v_given: tuple) -> tuple:
    if v_none == EMPTY and v_given == ("param", "args"):
        return ARGSDEF
    return v_none if v_none == v_given else OTHER


def _args_none_test(t: ast.AST):
    """True for `args is None`, False for `args is not None`, None for any other test"""
    if isinstance(t, ast.Compare) and len(t.ops) == 1 and isinstance(t.left, ast.Name) and t.left.id == "args" \
            and isinstance(t.comparators[0], ast.Constant) and t.comparators[0].value is None:
        if isinstance(t.ops[0], ast.Is):
            return True
        if isinstance(t.ops[0], ast.IsNot):
            return False
    return None


def _run_branch(stmts: list, env: dict) -> dict:
    env = dict(env)
    for s in stmts:
        if isinstance(s, ast.Pass):
            continue
        if isinstance(s, ast.AnnAssign) and s.value is not None and isinstance(s.target, ast.Name):
            env[s.target.id] = _eval(s.value, env)
        elif isinstance(s, ast.Assign) and len(s.targets) == 1 and isinstance(s.targets[0], ast.Name):
            env[s.targets[0].id] = _eval(s.value, env)
        else:
            raise Unavailable(f"minimise: statement `{ast.unparse(s)[:50]}` in a branch on args")
    return env


def _lean(v: tuple) -> str:
    if v[0] == "param" and v[1] in PARAM:
        return f".param .{PARAM[v[1]]}"
    if v == ARGSDEF:
        return ".param .args"
    if v[0] == "lit":
        return f".lit ({v[1].numerator}) {v[1].denominator}"
    return ".other"


def call_record(fn: ast.FunctionDef) -> dict:
    params = {a.arg for a in fn.args.args}
    body = [s for s in fn.body if not (isinstance(s, ast.Expr) and isinstance(s.value, ast.Constant))]
    env: dict[str, tuple] = {p: ("param", p) for p in params}
    calls = []
    call_env = None
    ret = None
    post_touched: set[str] = set()
    for s in body:
        if isinstance(s, ast.If) and _args_none_test(s.test) is not None:
            if calls:
                raise Unavailable("minimise: args default after the call")
            is_none = _args_none_test(s.test)
            b_none, b_given = (s.body, s.orelse) if is_none else (s.orelse, s.body)
            e_none = _run_branch(b_none, {**env, "args": NONE})
            e_given = _run_branch(b_given, env)
            merged = {}
            for k in set(e_none) | set(e_given):
                vn, vg = e_none.get(k, OTHER), e_given.get(k, OTHER)
                if k == "args" and vn == NONE and vg == ("param", "args"):
                    merged[k] = ("param", "args")          # untouched: still the raw parameter (may be None)
                else:
                    merged[k] = _merge(vn, vg)
            env = merged
            continue
        if isinstance(s, ast.Assign) and isinstance(s.value, ast.Call) \
                and ast.unparse(s.value.func).endswith("fmin_l_bfgs_b"):
            calls.append(s)
            call_env = dict(env)
            continue
        if isinstance(s, ast.Return):
            if s is not body[-1]:
                raise Unavailable("minimise: early return")
            ret = s
            continue
        if calls:
            # after the call only names other than the results may be bound
            touched = {n.id for n in ast.walk(s) if isinstance(n, ast.Name) and isinstance(n.ctx, ast.Store)}
            if not touched:
                raise Unavailable(f"minimise: statement `{ast.unparse(s)[:50]}`")
            for t in touched:
                env[t] = OTHER
            post_touched |= touched
            continue
        if isinstance(s, ast.AnnAssign) and s.value is not None and isinstance(s.target, ast.Name):
            env[s.target.id] = _eval(s.value, env)
            continue
        if isinstance(s, ast.Assign) and len(s.targets) == 1 and isinstance(s.targets[0], ast.Name):
            env[s.targets[0].id] = _eval(s.value, env)
            continue
        # any other statement may change what is forwarded: the names it binds are no longer known
        touched = {n.id for n in ast.walk(s) if isinstance(n, ast.Name) and isinstance(n.ctx, ast.Store)}
        if not touched:
            raise Unavailable(f"minimise: statement `{ast.unparse(s)[:50]}`")
        for t in touched:
            env[t] = OTHER
    if call_env is None:
        call_env = dict(env)
    if len(calls) != 1 and not (len(calls) == 0 and ret is not None and isinstance(ret.value, ast.Call)):
        raise Unavailable(f"minimise: {len(calls)} calls of fmin_l_bfgs_b")
    if calls:
        call = calls[0].value
        tgt = calls[0].targets[0]
        if isinstance(tgt, ast.Tuple) and all(isinstance(e, ast.Name) for e in tgt.elts):
            names = [e.id for e in tgt.elts]
            whole = None
        elif isinstance(tgt, ast.Name):
            names, whole = [], tgt.id
        else:
            raise Unavailable("minimise: call target")
    else:
        call = ret.value
        names, whole = [], "<direct>"
        if not ast.unparse(call.func).endswith("fmin_l_bfgs_b"):
            raise Unavailable("minimise: returned call is not fmin_l_bfgs_b")
    callee_ok = ast.unparse(call.func) in ("scipy.optimize.fmin_l_bfgs_b", "fmin_l_bfgs_b",
                                           "optimize.fmin_l_bfgs_b")
    bound: dict[str, str] = {}
    for i, a in enumerate(call.args):
        if isinstance(a, ast.Starred) or i >= len(SIGNATURE):
            raise Unavailable("minimise: starred / too many positional arguments")
        if _is_default(SIGNATURE[i], a):
            continue
        bound[SIGNATURE[i]] = _eval(a, call_env)
    unknown = False
    for k in call.keywords:
        if k.arg is None:
            raise Unavailable("minimise: **kwargs")
        if k.arg not in KW:
            unknown = True
            continue
        if _is_default(k.arg, k.value):
            continue
        bound[k.arg] = _eval(k.value, call_env)
    args_default = bound.get("args") == ARGSDEF
    kwargs = [(f".{KW[k]}", _lean(bound[k])) for k in SIGNATURE if k in bound]
    if unknown:
        kwargs.append((".unknown", ".other"))
    # return statement
    rets: list[str] = []
    if ret is None or ret.value is None:
        rets = []
    elif whole == "<direct>":
        rets = [".calleeResult 0", ".calleeResult 1", ".calleeResult 2"]
    elif isinstance(ret.value, ast.Tuple):
        for e in ret.value.elts:
            if isinstance(e, ast.Name) and e.id in names and e.id not in post_touched:
                rets.append(f".calleeResult {names.index(e.id)}")
            elif whole is not None and whole not in post_touched and isinstance(e, ast.Subscript) and ast.unparse(e.value) == whole \
                    and isinstance(e.slice, ast.Constant) and isinstance(e.slice.value, int):
                rets.append(f".calleeResult {e.slice.value}")
            else:
                rets.append(".other")
    elif whole is not None and isinstance(ret.value, ast.Name) and ret.value.id == whole and whole not in post_touched:
        rets = [".calleeResult 0", ".calleeResult 1", ".calleeResult 2"]
    else:
        rets = [".other"]
    return {"callee": callee_ok, "kwargs": kwargs, "args_default": args_default, "returns": rets}


def regenerate() -> dict:
    status: dict = {}
    rec = None
    try:
        rec = call_record(find_function(parse(FILE), "minimise"))
        status["Lbfgs.call"] = {"kwargs": [f"{k} := {v}" for k, v in rec["kwargs"]],
                                "args_default": rec["args_default"], "returns": rec["returns"],
                                "callee": rec["callee"]}
    except Unavailable as e:
        status["Lbfgs.call"] = f"unavailable ({e}); the wiring test of the correspondence is the only tie"
    head = ("-- REGENERATED on every run by harness/translate/lbfgs_wiring.py from\n"
            "-- /repo/src/topsearch/minimisation/lbfgs.py (do not edit)\n"
            "import TopSearch.Model.Lbfgs\n"
            "namespace TopSearch.Gen.Lbfgs\n"
            "open TopSearch.Lbfgs\n")
    if rec is None:
        body = "def call : CallRecord := expectedCall  -- kernel unavailable\n"
    else:
        kws = ",\n               ".join(f"({k}, {v})" for k, v in rec["kwargs"])
        body = ("def call : CallRecord :=\n"
                f"  {{ calleeIsFminLbfgsb := {lean_bool(rec['callee'])}\n"
                f"    kwargs := [{kws}]\n"
                f"    argsNoneBecomesEmpty := {lean_bool(rec['args_default'])}\n"
                f"    singleCall := true\n"
                f"    returns := [{', '.join(rec['returns'])}] }}\n")
    status["Gen/Lbfgs.lean rewritten"] = write_if_changed("Lbfgs.lean", head + body + "end TopSearch.Gen.Lbfgs\n")
    return status
