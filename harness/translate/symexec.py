"""A small symbolic interpreter for the loop-bounded numeric subset of Python that the
anchored kernels are written in.  It *reads the source* (ast) — the code is never imported or
run — and executes a function body on symbolic inputs, producing expression trees of the
embedded language `TopSearch.Py.Expr` (E / B / K).

Supported: assignments (names, tuple unpacking, subscripts and slices of 1-d / 2-d arrays),
augmented assignments, `for … in range(<concrete>)` and over concrete sequences, `if` on concrete
tests (executed) and on symbolic tests (forked into a decision tree), `return`, calls to other
methods of the same class (inlined), and a whitelist of numpy functions.  Anything else raises
`Unavailable` — the kernel is then reported as unavailable and the correspondence is the only tie.
Decimal literals are read as exact rationals (`2.1` ↦ 21/10).
"""
from __future__ import annotations

import ast
from fractions import Fraction

from .base import Unavailable

# ----------------------------------------------------------------------------- expression trees


class E:
    """numeric expression"""
    __slots__ = ("op", "args")

    def __init__(self, op, *args):
        self.op, self.args = op, args

    # construction with light constant folding (keeps generated terms small; semantics unchanged)
    @staticmethod
    def const(q) -> "E":
        return E("c", Fraction(q))

    @staticmethod
    def var(i: int) -> "E":
        return E("v", i)

    def is_const(self):
        return self.op == "c"

    def lean(self) -> str:
        o, a = self.op, self.args
        if o == "c":
            q = a[0]
            n = f"({q.numerator})" if q.numerator < 0 else str(q.numerator)
            return f"(.c {n} {q.denominator})"
        if o == "v":
            return f"(.v {a[0]})"
        if o in ("add", "sub", "mul", "div"):
            return f"(.{o} {a[0].lean()} {a[1].lean()})"
        if o == "neg":
            return f"(.neg {a[0].lean()})"
        if o == "pow":
            return f"(.pow {a[0].lean()} {a[1]})"
        if o == "fn":
            return f"(.fn .{a[0]} {a[1].lean()})"
        raise ValueError(o)

    def eval(self, env, fns=None):
        """exact evaluation (Fractions) — used by the harness to cross-check the translator"""
        o, a = self.op, self.args
        if o == "c":
            return a[0]
        if o == "v":
            return env[a[0]]
        if o == "add":
            return a[0].eval(env, fns) + a[1].eval(env, fns)
        if o == "sub":
            return a[0].eval(env, fns) - a[1].eval(env, fns)
        if o == "mul":
            return a[0].eval(env, fns) * a[1].eval(env, fns)
        if o == "div":
            return a[0].eval(env, fns) / a[1].eval(env, fns)
        if o == "neg":
            return -a[0].eval(env, fns)
        if o == "pow":
            return a[0].eval(env, fns) ** a[1]
        if o == "fn":
            return fns[a[0]](a[1].eval(env, fns))
        raise ValueError(o)

    def size(self) -> int:
        return 1 + sum(x.size() for x in self.args if isinstance(x, E))


def _lift(x) -> E:
    if isinstance(x, E):
        return x
    if isinstance(x, bool):
        raise Unavailable("bool used as number")
    if isinstance(x, (int, Fraction)):
        return E.const(x)
    raise Unavailable(f"cannot lift {type(x).__name__} to a numeric expression")


def add(a, b):
    if not isinstance(a, E) and not isinstance(b, E):
        return a + b
    a, b = _lift(a), _lift(b)
    if a.is_const() and b.is_const():
        return E.const(a.args[0] + b.args[0])
    if a.is_const() and a.args[0] == 0:
        return b
    if b.is_const() and b.args[0] == 0:
        return a
    return E("add", a, b)


def sub(a, b):
    if not isinstance(a, E) and not isinstance(b, E):
        return a - b
    a, b = _lift(a), _lift(b)
    if a.is_const() and b.is_const():
        return E.const(a.args[0] - b.args[0])
    if b.is_const() and b.args[0] == 0:
        return a
    return E("sub", a, b)


def mul(a, b):
    if not isinstance(a, E) and not isinstance(b, E):
        return a * b
    a, b = _lift(a), _lift(b)
    if a.is_const() and b.is_const():
        return E.const(a.args[0] * b.args[0])
    return E("mul", a, b)


def div(a, b):
    if not isinstance(a, E) and not isinstance(b, E):
        return Fraction(a) / Fraction(b)
    a, b = _lift(a), _lift(b)
    if a.is_const() and b.is_const():
        return E.const(a.args[0] / b.args[0])
    return E("div", a, b)


def neg(a):
    if not isinstance(a, E):
        return -a
    if a.is_const():
        return E.const(-a.args[0])
    return E("neg", a)


def power(a, n):
    if isinstance(n, Fraction) and n.denominator == 1:
        n = int(n)
    if not isinstance(n, int) or n < 0:
        raise Unavailable(f"power with exponent {n!r}")
    if not isinstance(a, E):
        return Fraction(a) ** n
    if a.is_const():
        return E.const(a.args[0] ** n)
    return E("pow", a, n)


def fn(name, a):
    return E("fn", name, _lift(a))


class B:
    """boolean expression"""
    __slots__ = ("op", "args")

    def __init__(self, op, *args):
        self.op, self.args = op, args

    def lean(self) -> str:
        o, a = self.op, self.args
        if o in ("tt", "ff"):
            return f".{o}"
        if o == "bv":
            return f"(.bv {a[0]})"
        if o in ("lt", "le", "eq"):
            return f"(.{o} {a[0].lean()} {a[1].lean()})"
        if o == "not":
            return f"(.not {a[0].lean()})"
        if o in ("and", "or"):
            return f"(.{o} {a[0].lean()} {a[1].lean()})"
        raise ValueError(o)

    def eval(self, env, benv, fns=None):
        o, a = self.op, self.args
        if o == "tt":
            return True
        if o == "ff":
            return False
        if o == "bv":
            return benv[a[0]]
        if o == "lt":
            return a[0].eval(env, fns) < a[1].eval(env, fns)
        if o == "le":
            return a[0].eval(env, fns) <= a[1].eval(env, fns)
        if o == "eq":
            return a[0].eval(env, fns) == a[1].eval(env, fns)
        if o == "not":
            return not a[0].eval(env, benv, fns)
        if o == "and":
            return a[0].eval(env, benv, fns) and a[1].eval(env, benv, fns)
        if o == "or":
            return a[0].eval(env, benv, fns) or a[1].eval(env, benv, fns)
        raise ValueError(o)


def b_not(x):
    if isinstance(x, bool):
        return not x
    return B("not", x)


def compare(op, a, b):
    sym = isinstance(a, E) or isinstance(b, E)
    if not sym:
        return {"Lt": a < b, "LtE": a <= b, "Gt": a > b, "GtE": a >= b, "Eq": a == b, "NotEq": a != b}[op]
    a, b = _lift(a), _lift(b)
    if op == "Lt":
        return B("lt", a, b)
    if op == "LtE":
        return B("le", a, b)
    if op == "Gt":
        return B("lt", b, a)
    if op == "GtE":
        return B("le", b, a)
    if op == "Eq":
        return B("eq", a, b)
    if op == "NotEq":
        return B("not", B("eq", a, b))
    raise Unavailable(op)


class K:
    """decision tree of returned tuples"""

    def __init__(self, kind, *args):
        self.kind, self.args = kind, args

    def lean(self) -> str:
        if self.kind == "ret":
            items = []
            for r in self.args[0]:
                if r is None:
                    items.append(".none")
                elif isinstance(r, (B, bool)):
                    items.append(f"(.bool {(r if isinstance(r, B) else B('tt' if r else 'ff')).lean()})")
                else:
                    items.append(f"(.num {_lift(r).lean()})")
            return "(.ret [" + ", ".join(items) + "])"
        c, t, e = self.args
        return f"(.ite {c.lean()} {t.lean()} {e.lean()})"


# ----------------------------------------------------------------------------- arrays


class Arr:
    """numpy-like 1-d / 2-d array of values (row-major nested lists), mutable like numpy"""

    def __init__(self, data):
        self.data = data

    @property
    def ndim(self):
        return 2 if self.data and isinstance(self.data[0], list) else 1

    @property
    def size(self):
        return sum(len(r) for r in self.data) if self.ndim == 2 else len(self.data)

    def copy(self):
        return Arr([r[:] if isinstance(r, list) else r for r in self.data])

    def flat(self):
        return [x for r in self.data for x in r] if self.ndim == 2 else list(self.data)


def _map2(f, a, b):
    if isinstance(a, Arr) and isinstance(b, Arr):
        if a.ndim != 1 or b.ndim != 1 or len(a.data) != len(b.data):
            raise Unavailable("array shapes")
        return Arr([f(x, y) for x, y in zip(a.data, b.data)])
    if isinstance(a, Arr):
        return Arr([_map2(f, Arr(r), b).data if isinstance(r, list) else f(r, b) for r in a.data])
    if isinstance(b, Arr):
        return Arr([_map2(f, a, Arr(r)).data if isinstance(r, list) else f(a, r) for r in b.data])
    return f(a, b)


class _Return(Exception):
    def __init__(self, value):
        self.value = value


class SymObject:
    """stands for `self`: attributes are looked up in a dict of symbolic/concrete values"""

    def __init__(self, attrs: dict):
        self.attrs = attrs


class Interp:
    def __init__(self, cls_node, module: ast.Module, self_attrs: dict | None = None,
                 max_steps: int = 200000):
        # `cls_node` may be one class or a list of classes in method-resolution order
        self.mro = cls_node if isinstance(cls_node, list) else ([cls_node] if cls_node else [])
        self.cls = self.mro[0] if self.mro else None
        self.module = module
        self.self_obj = SymObject(self_attrs or {})
        self.steps = 0
        self.max_steps = max_steps

    # ---- public
    def call_method(self, name: str, args: list):
        fn_node = None
        for scope in ([c.body for c in self.mro] if self.mro else [self.module.body]):
            for n in scope:
                if isinstance(n, ast.FunctionDef) and n.name == name:
                    fn_node = n
            if fn_node is not None:
                break
        if fn_node is None:
            raise Unavailable(f"method {name} not found")
        params = [a.arg for a in fn_node.args.args]
        env = {}
        if params and params[0] == "self":
            env["self"] = self.self_obj
            params = params[1:]
        defaults = fn_node.args.defaults
        nd = len(defaults)
        for i, p in enumerate(params):
            if i < len(args):
                env[p] = args[i]
            else:
                j = i - (len(params) - nd)
                if j < 0:
                    raise Unavailable(f"missing argument {p} of {name}")
                env[p] = self.expr(defaults[j], {})
        try:
            self.block(fn_node.body, env)
        except _Return as r:
            return r.value
        return None

    # ---- statements
    def block(self, stmts, env):
        for i, s in enumerate(stmts):
            self.steps += 1
            if self.steps > self.max_steps:
                raise Unavailable("symbolic execution too long")
            if isinstance(s, ast.If):
                test = self.expr(s.test, env)
                if isinstance(test, B):
                    # fork: the rest of this block is executed under both outcomes
                    rest = stmts[i + 1:]
                    outs = []
                    for branch in (s.body, s.orelse):
                        env2 = _clone_env(env)
                        try:
                            self.block(list(branch) + list(rest), env2)
                            outs.append(None)
                        except _Return as r:
                            outs.append(r.value)
                    if outs[0] is None or outs[1] is None:
                        raise Unavailable("symbolic branch without return")
                    raise _Return(K("ite", test, _as_k(outs[0]), _as_k(outs[1])))
                self.block(s.body if test else s.orelse, env)
            else:
                self.stmt(s, env)

    def stmt(self, s, env):
        if isinstance(s, ast.Expr):
            if isinstance(s.value, ast.Constant):
                return                       # docstring
            self.expr(s.value, env)
            return
        if isinstance(s, ast.Return):
            raise _Return(self.expr(s.value, env) if s.value is not None else None)
        if isinstance(s, ast.Assign):
            v = self.expr(s.value, env)
            for t in s.targets:
                self.assign(t, v, env)
            return
        if isinstance(s, ast.AugAssign):
            cur = self.expr(_load(s.target), env)
            v = self.binop(type(s.op).__name__, cur, self.expr(s.value, env))
            self.assign(s.target, v, env)
            return
        if isinstance(s, ast.For):
            it = self.expr(s.iter, env)
            if isinstance(it, Arr):
                it = it.data if it.ndim == 1 else [Arr(r) for r in it.data]
            if not isinstance(it, (list, tuple, range)):
                raise Unavailable("for over non-concrete iterable")
            for x in it:
                self.assign(s.target, x, env)
                self.block(s.body, env)
            return
        if isinstance(s, ast.With):
            if "open(" in ast.unparse(s.items[0].context_expr):
                return                       # log-file output is not modelled
            raise Unavailable("with-statement")
        if isinstance(s, ast.Pass):
            return
        raise Unavailable(f"statement {type(s).__name__}")

    def assign(self, target, value, env):
        if isinstance(target, ast.Name):
            env[target.id] = value
            return
        if isinstance(target, (ast.Tuple, ast.List)):
            vals = value.data if isinstance(value, Arr) else list(value)
            if len(vals) != len(target.elts):
                raise Unavailable("unpack length")
            for t, v in zip(target.elts, vals):
                self.assign(t, v, env)
            return
        if isinstance(target, ast.Subscript):
            arr = self.expr(target.value, env)
            if not isinstance(arr, Arr):
                raise Unavailable("subscript assignment to non-array")
            idx = self.index(target.slice, env)
            _arr_set(arr, idx, value)
            return
        if isinstance(target, ast.Attribute) and isinstance(target.value, ast.Name) and target.value.id == "self":
            self.self_obj.attrs[target.attr] = value
            return
        raise Unavailable(f"assignment target {type(target).__name__}")

    # ---- expressions
    def index(self, node, env):
        if isinstance(node, ast.Tuple):
            return tuple(self.index(e, env) for e in node.elts)
        if isinstance(node, ast.Slice):
            lo = self.expr(node.lower, env) if node.lower is not None else None
            hi = self.expr(node.upper, env) if node.upper is not None else None
            if node.step is not None:
                raise Unavailable("slice step")
            return slice(_as_int(lo), _as_int(hi))
        return _as_int(self.expr(node, env))

    def binop(self, op, a, b):
        f = {"Add": add, "Sub": sub, "Mult": mul, "Div": div}.get(op)
        if f is not None:
            return _map2(f, a, b)
        if op == "Pow":
            if isinstance(a, Arr):
                return Arr([power(x, b) for x in a.data])
            return power(a, b)
        raise Unavailable(f"operator {op}")

    def expr(self, node, env):
        if isinstance(node, ast.Constant):
            v = node.value
            if isinstance(v, bool) or v is None or isinstance(v, str):
                return v
            if isinstance(v, int):
                return v
            if isinstance(v, float):
                return Fraction(repr(v))
            raise Unavailable("constant")
        if isinstance(node, ast.Name):
            if node.id in env:
                return env[node.id]
            if node.id in ("inf",):
                raise Unavailable("inf")
            raise Unavailable(f"unknown name {node.id}")
        if isinstance(node, ast.BinOp):
            return self.binop(type(node.op).__name__, self.expr(node.left, env), self.expr(node.right, env))
        if isinstance(node, ast.UnaryOp):
            v = self.expr(node.operand, env)
            if isinstance(node.op, ast.USub):
                return Arr([neg(x) for x in v.data]) if isinstance(v, Arr) else neg(v)
            if isinstance(node.op, ast.UAdd):
                return v
            if isinstance(node.op, ast.Not):
                return b_not(v)
            raise Unavailable("unary")
        if isinstance(node, ast.Compare):
            left = self.expr(node.left, env)
            res = None
            for op, comp in zip(node.ops, node.comparators):
                right = self.expr(comp, env)
                if isinstance(op, (ast.Is, ast.IsNot)):
                    r = (left is right) if isinstance(op, ast.Is) else (left is not right)
                elif isinstance(op, (ast.In, ast.NotIn)):
                    r = (left in right) if isinstance(op, ast.In) else (left not in right)
                else:
                    r = compare(type(op).__name__, left, right)
                res = r if res is None else _b_and(res, r)
                left = right
            return res
        if isinstance(node, ast.BoolOp):
            vals = [self.expr(v, env) for v in node.values]
            out = vals[0]
            for v in vals[1:]:
                out = _b_and(out, v) if isinstance(node.op, ast.And) else _b_or(out, v)
            return out
        if isinstance(node, (ast.Tuple, ast.List)):
            return [self.expr(e, env) for e in node.elts]
        if isinstance(node, ast.Subscript):
            base = self.expr(node.value, env)
            idx = self.index(node.slice, env)
            if isinstance(base, Arr):
                return _arr_get(base, idx)
            if isinstance(base, (list, tuple)):
                return base[idx]
            raise Unavailable("subscript of non-array")
        if isinstance(node, ast.Attribute):
            base = self.expr(node.value, env) if not (isinstance(node.value, ast.Name) and node.value.id == "np") else None
            if isinstance(base, SymObject):
                if node.attr in base.attrs:
                    return base.attrs[node.attr]
                raise Unavailable(f"self.{node.attr} unknown")
            if isinstance(base, Arr):
                if node.attr == "size":
                    return base.size
                if node.attr == "shape":
                    return (len(base.data), len(base.data[0])) if base.ndim == 2 else (len(base.data),)
            raise Unavailable(f"attribute {ast.unparse(node)}")
        if isinstance(node, ast.Call):
            return self.call(node, env)
        if isinstance(node, ast.ListComp):
            if len(node.generators) != 1 or node.generators[0].ifs:
                raise Unavailable("list comprehension shape")
            g = node.generators[0]
            it = self.expr(g.iter, env)
            if isinstance(it, Arr):
                it = it.data
            out = []
            for x in it:
                env2 = dict(env)
                self.assign(g.target, x, env2)
                out.append(self.expr(node.elt, env2))
            return out
        if isinstance(node, ast.IfExp):
            t = self.expr(node.test, env)
            if isinstance(t, B):
                raise Unavailable("symbolic conditional expression")
            return self.expr(node.body if t else node.orelse, env)
        raise Unavailable(f"expression {type(node).__name__}")

    def call(self, node, env):
        fname = ast.unparse(node.func)
        args = [self.expr(a, env) for a in node.args]
        kw = {k.arg: k.value for k in node.keywords}
        if fname.startswith("self."):
            return self.call_method(fname[5:], args)
        if fname == "range":
            return range(*[_as_int(a) for a in args])
        if fname == "int":
            a = args[0]
            if isinstance(a, (int, Fraction)):
                return int(a)
            raise Unavailable("int() of symbolic value")
        if fname == "float":
            return args[0]
        if fname == "len":
            return len(args[0].data) if isinstance(args[0], Arr) else len(args[0])
        if fname in ("np.zeros", "np.empty"):
            shp = args[0]
            if isinstance(shp, (list, tuple)):
                shp = [_as_int(x) for x in shp]
                if len(shp) == 1:
                    return Arr([0] * shp[0])
                return Arr([[0] * shp[1] for _ in range(shp[0])])
            return Arr([0] * _as_int(shp))
        if fname in ("np.array", "np.asarray"):
            a = args[0]
            if isinstance(a, Arr):
                return a.copy()
            if a and isinstance(a[0], list):
                return Arr([list(r) for r in a])
            return Arr(list(a))
        if fname in ("np.sqrt", "np.exp", "np.abs", "np.sin", "np.cos"):
            nm = fname[3:]
            a = args[0]
            return Arr([fn(nm, x) for x in a.data]) if isinstance(a, Arr) else fn(nm, a)
        if fname == "np.sum":
            a = args[0]
            out = 0
            for x in (a.flat() if isinstance(a, Arr) else a):
                out = add(out, x)
            return out
        if fname == "np.dot":
            a, b = args
            out = 0
            for x, y in zip(a.data, b.data):
                out = add(out, mul(x, y))
            return out
        if fname == "np.linalg.norm":
            a = args[0]
            out = 0
            for x in a.flat():
                out = add(out, power(x, 2))
            return fn("sqrt", out)
        if fname.endswith(".copy") and isinstance(node.func, ast.Attribute):
            base = self.expr(node.func.value, env)
            if isinstance(base, Arr):
                return base.copy()
        if fname.endswith(".fill") and isinstance(node.func, ast.Attribute):
            base = self.expr(node.func.value, env)
            if isinstance(base, Arr) and base.ndim == 1:
                for i in range(len(base.data)):
                    base.data[i] = args[0]
                return None
        if fname.endswith(".flatten") and isinstance(node.func, ast.Attribute):
            base = self.expr(node.func.value, env)
            if isinstance(base, Arr):
                return Arr(base.flat())
        raise Unavailable(f"call {fname}")


def _b_and(a, b):
    if isinstance(a, bool) and isinstance(b, bool):
        return a and b
    if isinstance(a, bool):
        return b if a else False
    if isinstance(b, bool):
        return a if b else False
    return B("and", a, b)


def _b_or(a, b):
    if isinstance(a, bool) and isinstance(b, bool):
        return a or b
    if isinstance(a, bool):
        return True if a else b
    if isinstance(b, bool):
        return True if b else a
    return B("or", a, b)


def _as_int(x):
    if x is None:
        return None
    if isinstance(x, bool):
        raise Unavailable("bool index")
    if isinstance(x, int):
        return x
    if isinstance(x, Fraction) and x.denominator == 1:
        return int(x)
    raise Unavailable(f"non-concrete index {x!r}")


def _arr_get(a: Arr, idx):
    if isinstance(idx, tuple):
        i, j = idx
        if isinstance(i, int) and isinstance(j, int):
            return a.data[i][j]
        if isinstance(i, int) and isinstance(j, slice):
            return Arr(a.data[i][j])
        if isinstance(i, slice) and isinstance(j, int):
            return Arr([r[j] for r in a.data[i]])
        raise Unavailable("2-d slice")
    if isinstance(idx, slice):
        return _View(a, idx) if a.ndim == 1 else Arr([r[:] for r in a.data[idx]])
    v = a.data[idx]
    return Arr(v) if isinstance(v, list) else v


class _View(Arr):
    """a 1-d slice view: reads copy the values (numpy would alias, but the kernels only read
    slices or assign through an explicit subscript target, which goes through _arr_set)"""

    def __init__(self, base: Arr, sl: slice):
        super().__init__(base.data[sl])


def _arr_set(a: Arr, idx, value):
    if isinstance(idx, tuple):
        i, j = idx
        if isinstance(i, int) and isinstance(j, int):
            a.data[i][j] = value
            return
        if isinstance(i, int) and isinstance(j, slice):
            vals = value.data if isinstance(value, Arr) else [value] * len(a.data[i][j])
            a.data[i][j] = list(vals)
            return
        raise Unavailable("2-d slice assignment")
    if isinstance(idx, slice):
        n = len(a.data[idx])
        vals = value.data if isinstance(value, Arr) else [value] * n
        if len(vals) != n:
            raise Unavailable("slice assignment length")
        a.data[idx] = list(vals)
        return
    a.data[idx] = value.data if isinstance(value, Arr) and a.ndim == 2 else value


def _load(target):
    import copy
    t = copy.deepcopy(target)
    for n in ast.walk(t):
        if hasattr(n, "ctx"):
            n.ctx = ast.Load()
    return t


def _clone_env(env):
    out = {}
    for k, v in env.items():
        out[k] = v.copy() if isinstance(v, Arr) else (list(v) if isinstance(v, list) else v)
    return out


def _as_k(v) -> K:
    if isinstance(v, K):
        return v
    if isinstance(v, Arr):
        v = v.flat()
    if not isinstance(v, (list, tuple)):
        v = [v]
    flat = []
    for x in v:
        if isinstance(x, Arr):
            flat.extend(x.flat())
        else:
            flat.append(x)
    return K("ret", flat)


def flatten_result(v) -> list:
    """returned value as a flat list of numeric expressions (scalar, array, tuple of both)"""
    if isinstance(v, Arr):
        return [_lift(x) for x in v.flat()]
    if isinstance(v, (list, tuple)):
        out = []
        for x in v:
            out.extend(flatten_result(x))
        return out
    return [_lift(v)]
