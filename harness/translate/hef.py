"""Gen/Hef.lean: the decision kernels of HybridEigenvectorFollowing read from the current source
(Python ast only; the code is never imported here).

Extracted: the `axis=` arguments and the np.any/np.all/np.where nesting of test_convergence and
check_valid_eigenvector, the comparison operators (`< self.ts_conv_crit`, `eigenvalue == 0.0`,
`ts_energy > current_energy`, `np.max(current_grad) > 5.0*...`), the order of the refusal reasons,
the flip condition of check_eigenvector_direction classified as overlap rule / first-component rule
/ other, the sign tests of project_onto_bounds, the literal constants (10 increments, fallback 20,
`/10.0`, 0.02, 50 loops, `eig_steps < 5`) and whether take_uphill_step ends with move_to_bounds().

A kernel that cannot be located or is outside this small grammar is recorded as unavailable and the
value of the repaired code is written (the correspondence is then the only tie for that kernel);
a located-but-different kernel is written as found, so that the bridge lemma breaks.
"""
from __future__ import annotations

import ast
from fractions import Fraction

from .base import Unavailable, find_function, lean_bool, parse, write_if_changed

FILE = "transition_states/hybrid_eigenvector_following.py"
CLS = "HybridEigenvectorFollowing"

CMP = {ast.Lt: "lt", ast.LtE: "le", ast.Gt: "gt", ast.GtE: "ge", ast.Eq: "eq", ast.NotEq: "ne"}
MIRROR = {"lt": "gt", "le": "ge", "gt": "lt", "ge": "le", "eq": "eq", "ne": "ne"}

DEFAULTS = dict(convAxis=1, convCmp="lt", validAxis=1, eigenvalueCmp="eq", flipRule=".overlap .lt",
                projLowerCmp="lt", projUpperCmp="gt", pushEnergyCmp="gt", pushGradCmp="gt",
                pushGradFactor=5, pushIncrements=10, pushFallback=20, pushDivisor=10,
                localFracNum=1, localFracDen=50, sdLoops=50, subspaceMaxEigSteps=5, stepClips=True)
DEFAULT_REASONS = ["eigenvector", "eigenvalue", "bounds"]


def u(n: ast.AST) -> str:
    return ast.unparse(n)


def is_zero(n: ast.AST) -> bool:
    return isinstance(n, ast.Constant) and isinstance(n.value, (int, float)) and n.value == 0 \
        and not isinstance(n.value, bool)


def cmp_of(n: ast.AST, left_src: str | None = None, right_src: str | None = None,
           right_zero: bool = False) -> str:
    """operator of a single comparison, oriented so that `left_src` is on the left /
    `right_src` (or the literal 0) on the right"""
    if not (isinstance(n, ast.Compare) and len(n.ops) == 1 and type(n.ops[0]) in CMP):
        raise Unavailable(f"not a single comparison: {u(n)}")
    op = CMP[type(n.ops[0])]
    a, b = n.left, n.comparators[0]

    def ok(l, r):
        if left_src is not None and u(l) != left_src:
            return False
        if right_src is not None and u(r) != right_src:
            return False
        if right_zero and not is_zero(r):
            return False
        return True
    if ok(a, b):
        return op
    if ok(b, a):
        return MIRROR[op]
    raise Unavailable(f"comparison has unexpected operands: {u(n)}")


def calls(fn: ast.AST, name: str) -> list[ast.Call]:
    return [n for n in ast.walk(fn) if isinstance(n, ast.Call) and u(n.func) == name]


def axis_kw(call: ast.Call) -> int:
    for k in call.keywords:
        if k.arg == "axis":
            if isinstance(k.value, ast.Constant) and isinstance(k.value.value, int):
                return int(k.value.value)
            if isinstance(k.value, ast.UnaryOp) and isinstance(k.value.op, ast.USub) and \
                    isinstance(k.value.operand, ast.Constant):
                # a negative axis of a 2-d array: -1 = 1, -2 = 0
                return 2 - int(k.value.operand.value)
            raise Unavailable(f"axis is not a literal: {u(call)}")
    if len(call.args) >= 2 and isinstance(call.args[1], ast.Constant):
        return int(call.args[1].value)
    raise Unavailable(f"no axis argument: {u(call)}")


def column_stack_ok(fn: ast.FunctionDef) -> None:
    cs = calls(fn, "np.column_stack")
    if len(cs) != 1 or u(cs[0].args[0]).replace(" ", "") != "(lower_bounds,upper_bounds)":
        raise Unavailable("all_bounds is not np.column_stack((lower_bounds, upper_bounds))")
    for n in ast.walk(fn):
        if isinstance(n, ast.Assign) and n.value is cs[0] and u(n.targets[0]) == "all_bounds":
            return
    raise Unavailable("column_stack not assigned to all_bounds")


def k_test_convergence(fn: ast.FunctionDef) -> dict:
    column_stack_ok(fn)
    wh = calls(fn, "np.where")
    if len(wh) != 1 or not (isinstance(wh[0].args[0], ast.Call) and u(wh[0].args[0].func) == "np.any"
                            and u(wh[0].args[0].args[0]) == "all_bounds"):
        raise Unavailable("test_convergence: np.where(np.any(all_bounds, axis=…)) not found")
    axis = axis_kw(wh[0].args[0])
    # grad[idx] = 0.0 under `if idx.size > 0`
    zeroed = [n for n in ast.walk(fn) if isinstance(n, ast.Assign) and isinstance(n.targets[0], ast.Subscript)
              and u(n.targets[0].value) == "grad" and is_zero(n.value)]
    if len(zeroed) != 1:
        raise Unavailable("test_convergence: masking assignment not found")
    tests = [n.test for n in ast.walk(fn) if isinstance(n, ast.If) and "ts_conv_crit" in u(n.test)]
    if len(tests) != 1:
        raise Unavailable("test_convergence: tolerance test not found")
    iff = [n for n in ast.walk(fn) if isinstance(n, ast.If) and n.test is tests[0]][0]
    if not (len(iff.body) == 1 and isinstance(iff.body[0], ast.Return) and u(iff.body[0].value) == "True"):
        raise Unavailable("test_convergence: tolerance test does not return True")
    c = cmp_of(tests[0], left_src="np.max(np.abs(grad))", right_src="self.ts_conv_crit")
    return {"convAxis": axis, "convCmp": c}


def k_check_valid(fn: ast.FunctionDef) -> tuple[dict, list[str]]:
    column_stack_ok(fn)
    al = [c for c in calls(fn, "np.all") if c.args and isinstance(c.args[0], ast.Call)
          and u(c.args[0].func) == "np.any" and u(c.args[0].args[0]) == "all_bounds"]
    if len(al) != 1:
        raise Unavailable("check_valid_eigenvector: np.all(np.any(all_bounds, axis=…)) not found")
    axis = axis_kw(al[0].args[0])
    ifs = [s for s in fn.body if isinstance(s, ast.If)]
    reasons = []
    for s in ifs:
        r = [n.value.value for n in s.body if isinstance(n, ast.Assign) and u(n.targets[0]) == "self.failure"
             and isinstance(n.value, ast.Constant)]
        ret = [n for n in s.body if isinstance(n, ast.Return) and u(n.value) == "False"]
        if len(r) != 1 or len(ret) != 1:
            raise Unavailable("check_valid_eigenvector: a refusal branch without reason/return False")
        reasons.append(r[0])
    if len(ifs) != 3:
        raise Unavailable("check_valid_eigenvector: expected three refusal tests")
    if u(ifs[0].test).replace(" ", "") != "notnp.any(eigenvector)ornp.any(np.isnan(eigenvector))":
        raise Unavailable(f"check_valid_eigenvector: first test is {u(ifs[0].test)}")
    evc = cmp_of(ifs[1].test, left_src="eigenvalue", right_zero=True)
    if ifs[2].test is not al[0]:
        raise Unavailable("check_valid_eigenvector: third test is not the np.all(np.any(..))")
    if not (isinstance(fn.body[-1], ast.Return) and u(fn.body[-1].value) == "True"):
        raise Unavailable("check_valid_eigenvector: does not end with return True")
    return {"validAxis": axis, "eigenvalueCmp": evc}, reasons


def k_direction(fn: ast.FunctionDef) -> dict:
    ifs = [n for n in ast.walk(fn) if isinstance(n, ast.If)]
    if len(ifs) != 1:
        raise Unavailable("check_eigenvector_direction: expected one if")
    body = ifs[0].body
    if not (len(body) == 1 and u(body[0]).replace(" ", "") in
            ("eigenvector*=-1.0", "eigenvector=-eigenvector", "eigenvector=-1.0*eigenvector",
             "eigenvector*=-1")) or ifs[0].orelse:
        raise Unavailable("check_eigenvector_direction: the if body is not the flip")
    grad_ok = any(isinstance(n, ast.Assign) and u(n.targets[0]) == "grad"
                  and u(n.value) == "self.potential.gradient(position)" for n in fn.body)
    if not grad_ok:
        raise Unavailable("check_eigenvector_direction: grad is not potential.gradient(position)")
    t = ifs[0].test
    src = u(t).replace(" ", "")
    if src == "np.sign(proj)[0]!=np.sign(eigenvector)[0]":
        return {"flipRule": ".firstComponent"}
    try:
        for left in ("np.dot(grad, eigenvector)", "np.dot(eigenvector, grad)", "grad @ eigenvector",
                     "eigenvector @ grad"):
            try:
                return {"flipRule": f".overlap .{cmp_of(t, left_src=left, right_zero=True)}"}
            except Unavailable:
                continue
    except Unavailable:
        pass
    return {"flipRule": ".other"}


def k_project(fn: ast.FunctionDef) -> dict:
    loops = [n for n in fn.body if isinstance(n, ast.For)]
    if len(loops) != 1 or u(loops[0].iter) != "range(vector.size)":
        raise Unavailable("project_onto_bounds: loop not found")
    ifs = [s for s in loops[0].body if isinstance(s, ast.If)]
    if len(ifs) != 2 or len(loops[0].body) != 2:
        raise Unavailable("project_onto_bounds: expected two tests in the loop")
    out = {}
    for s, (mask, key) in zip(ifs, (("lower_bounds[i]", "projLowerCmp"), ("upper_bounds[i]", "projUpperCmp"))):
        t = s.test
        if not (isinstance(t, ast.BoolOp) and isinstance(t.op, ast.And) and len(t.values) == 2
                and u(t.values[0]) == mask):
            raise Unavailable(f"project_onto_bounds: test is {u(t)}")
        if not (len(s.body) == 1 and u(s.body[0]).replace(" ", "") == "vector[i]=0.0") or s.orelse:
            raise Unavailable("project_onto_bounds: branch does not zero the component")
        out[key] = cmp_of(t.values[1], left_src="vector[i]", right_zero=True)
    if u(fn.body[-1]).replace(" ", "") != "returnvector/np.linalg.norm(vector)":
        raise Unavailable("project_onto_bounds: does not return vector / norm(vector)")
    return out


def int_const(n: ast.AST) -> int:
    if isinstance(n, ast.Constant) and isinstance(n.value, (int, float)) and float(n.value).is_integer():
        return int(n.value)
    raise Unavailable(f"not an integer literal: {u(n)}")


def k_pushoff(fn: ast.FunctionDef) -> dict:
    loops = [n for n in fn.body if isinstance(n, ast.For)]
    if len(loops) != 2:
        raise Unavailable("find_pushoff: expected two loops")
    res = []
    for lp in loops:
        if not (isinstance(lp.iter, ast.Call) and u(lp.iter.func) == "range" and len(lp.iter.args) == 1):
            raise Unavailable("find_pushoff: loop is not range(n)")
        n_inc = int_const(lp.iter.args[0])
        ifs = [s for s in lp.body if isinstance(s, ast.If)]
        if len(ifs) != 1:
            raise Unavailable("find_pushoff: acceptance test not found")
        t = ifs[0].test
        if not (isinstance(t, ast.BoolOp) and isinstance(t.op, ast.And) and len(t.values) == 2):
            raise Unavailable(f"find_pushoff: acceptance test is {u(t)}")
        ec = cmp_of(t.values[0], left_src="ts_energy", right_src="current_energy")
        g = t.values[1]
        if not (isinstance(g, ast.Compare) and len(g.ops) == 1 and u(g.left) == "np.max(current_grad)"):
            raise Unavailable(f"find_pushoff: gradient test is {u(g)}")
        r = g.comparators[0]
        if not (isinstance(r, ast.BinOp) and isinstance(r.op, ast.Mult)
                and u(r.right) == "self.steepest_descent_conv_crit"):
            raise Unavailable(f"find_pushoff: gradient threshold is {u(r)}")
        res.append((n_inc, ec, CMP[type(g.ops[0])], int_const(r.left)))
        # every probe is clipped into the box before it is evaluated
        if not any(u(s).replace(" ", "") == "transition_state.move_to_bounds()" for s in lp.body):
            raise Unavailable("find_pushoff: probe not moved to bounds")
    if res[0] != res[1]:
        raise Unavailable("find_pushoff: forward and backward loops differ")
    fb = []
    for s in fn.body:
        if isinstance(s, ast.If) and u(s.test).replace(" ", "") == "notfound_pushoff":
            c = [c for c in calls(s, "self.do_pushoff")]
            flag = [n for n in s.body if isinstance(n, ast.Assign) and u(n.targets[0]) == "self.failure"
                    and isinstance(n.value, ast.Constant) and n.value.value == "pushoff"]
            if len(c) != 1 or len(flag) != 1:
                raise Unavailable("find_pushoff: fallback branch not recognised")
            fb.append(int_const(c[0].args[3]))
    if len(fb) != 2 or fb[0] != fb[1]:
        raise Unavailable("find_pushoff: fallback iterations not found")
    inc = [n for n in fn.body if isinstance(n, ast.Assign) and u(n.targets[0]) == "increment"]
    if len(inc) != 1 or not (isinstance(inc[0].value, ast.BinOp) and isinstance(inc[0].value.op, ast.Div)
                             and u(inc[0].value.left) == "self.pushoff"):
        raise Unavailable("find_pushoff: increment not self.pushoff/const")
    return {"pushIncrements": res[0][0], "pushEnergyCmp": res[0][1], "pushGradCmp": res[0][2],
            "pushGradFactor": res[0][3], "pushFallback": fb[0], "pushDivisor": int_const(inc[0].value.right)}


def k_local_bounds(fn: ast.FunctionDef) -> dict:
    for n in ast.walk(fn):
        if isinstance(n, ast.BinOp) and isinstance(n.op, ast.Mult) and u(n.left).replace(" ", "") == "i[1]-i[0]" \
                and isinstance(n.right, ast.Constant):
            f = Fraction(repr(n.right.value))
            if not any(u(c.args[0]) == "limits" and u(c.args[1]) == "coords.lower_bounds"
                       and u(c.args[2]) == "coords.upper_bounds" for c in calls(fn, "np.clip")):
                raise Unavailable("get_local_bounds: limits are not clipped to the box")
            return {"localFracNum": f.numerator, "localFracDen": f.denominator}
    raise Unavailable("get_local_bounds: (i[1]-i[0])*c not found")


def k_sd_loops(fn: ast.FunctionDef) -> dict:
    loops = [n for n in fn.body if isinstance(n, ast.For)]
    if len(loops) != 1 or not (isinstance(loops[0].iter, ast.Call) and u(loops[0].iter.func) == "range"):
        raise Unavailable("steepest_descent_paths: loop not found")
    return {"sdLoops": int_const(loops[0].iter.args[0])}


def k_run(fn: ast.FunctionDef) -> dict:
    for n in ast.walk(fn):
        if isinstance(n, ast.If) and "eig_steps" in u(n.test):
            t = n.test
            if isinstance(t, ast.BoolOp) and isinstance(t.op, ast.And) and len(t.values) == 2 and \
                    cmp_of(t.values[0], left_src="eigenvalue", right_zero=True) == "lt" and \
                    cmp_of(t.values[1], left_src="eig_steps") == "lt":
                return {"subspaceMaxEigSteps": int_const(t.values[1].comparators[0])}
            raise Unavailable(f"run: subspace condition is {u(t)}")
    raise Unavailable("run: subspace condition not found")


def k_step(fn: ast.FunctionDef) -> dict:
    last = fn.body[-1]
    return {"stepClips": u(last).replace(" ", "") == "coords.move_to_bounds()"}


# rayleigh_ritz_function_gradient, statement by statement (Model/Hef.lean `rayleighCoded` is the transcription of the
# six arithmetic statements; the guards and the removal of rigid motions return / act before and after them).
# `{disp}` is the displacement literal, which is read and emitted.
RAYLEIGH = ["displacement = {disp}",
            "central_point = np.array(args)",
            "if np.any(np.isnan(vec)):\n    return (0.0, np.zeros(np.size(vec), dtype=float))",
            "if np.linalg.norm(vec) == 0.0:\n    return (0.0, np.zeros(np.size(vec), dtype=float))",
            "if self.remove_trans_rot:\n    vec /= np.linalg.norm(vec)\n    vec = self.remove_zero_eigenvectors(vec, central_point)",
            "vec /= np.linalg.norm(vec)",
            "grad_plus = self.potential.gradient(central_point + displacement * vec)",
            "grad_minus = self.potential.gradient(central_point - displacement * vec)",
            "delta_grad = grad_plus - grad_minus",
            "f_val = np.dot(delta_grad, vec) / (2.0 * displacement)",
            "grad = delta_grad / displacement - 2.0 * f_val * vec",
            "if self.remove_trans_rot:\n    grad = self.remove_zero_eigenvectors(grad, central_point)",
            "return (f_val, grad)"]


def k_rayleigh(fn: ast.FunctionDef) -> Fraction:
    """the displacement literal, provided every statement of the function is the one the model was transcribed from
    (modulo the names of locals)"""
    from .ktn_cfg import normalised, statements
    args = [a.arg for a in fn.args.args]
    if args != ["self", "vec"] or fn.args.vararg is None or fn.args.vararg.arg != "args" or fn.args.kwonlyargs or fn.args.kwarg:
        raise Unavailable(f"rayleigh_ritz_function_gradient: signature {args}")
    body = [s_ for s_ in fn.body if not (isinstance(s_, ast.Expr) and isinstance(s_.value, ast.Constant)
                                         and isinstance(s_.value.value, str))]
    if not body or not (isinstance(body[0], ast.Assign) and isinstance(body[0].value, ast.Constant)
                        and type(body[0].value.value) in (int, float)):
        raise Unavailable("rayleigh_ritz_function_gradient: the displacement is not a literal: "
                          + (ast.unparse(body[0])[:60] if body else "empty body"))
    disp = body[0].value.value
    got = statements(fn)
    keep = args + ["args"]
    from .base import spelling
    want = normalised(spelling(ast.parse("\n".join(x.replace("{disp}", repr(disp)) for x in RAYLEIGH))).body, keep)
    got = normalised(body, keep)
    if got != want:
        for k, (a, b) in enumerate(zip(got, want)):
            if a != b:
                raise Unavailable(f"rayleigh_ritz_function_gradient: statement {k + 1} is `{a[:60]}`, transcribed from `{b[:60]}`")
        raise Unavailable(f"rayleigh_ritz_function_gradient: {len(got)} statements, transcribed from {len(want)}")
    return Fraction(repr(disp))


def regenerate() -> dict:
    status: dict = {}
    vals = dict(DEFAULTS)
    reasons = list(DEFAULT_REASONS)
    try:
        tree = parse(FILE)
    except Unavailable as e:
        tree = None
        status["Hef"] = f"unavailable ({e})"
    kernels = [("test_convergence", k_test_convergence), ("check_valid_eigenvector", k_check_valid),
               ("check_eigenvector_direction", k_direction), ("project_onto_bounds", k_project),
               ("find_pushoff", k_pushoff), ("get_local_bounds", k_local_bounds),
               ("steepest_descent_paths", k_sd_loops), ("run", k_run), ("take_uphill_step", k_step)]
    for name, fnk in kernels:
        if tree is None:
            break
        try:
            r = fnk(find_function(tree, name, CLS))
            if name == "check_valid_eigenvector":
                r, reasons = r
                status["Hef.validReasons"] = reasons
            vals.update(r)
            status[f"Hef.{name}"] = r
        except Unavailable as e:
            status[f"Hef.{name}"] = f"unavailable ({e}); correspondence is the only tie"
        except Exception as e:  # malformed source for this grammar: unavailable, never a crash
            status[f"Hef.{name}"] = f"unavailable ({type(e).__name__}: {e})"
    disp = None
    if tree is not None:
        try:
            disp = k_rayleigh(find_function(tree, "rayleigh_ritz_function_gradient", CLS))
            status["Hef.rayleigh_ritz_function_gradient"] = f"transcription verified statement by statement, displacement {disp}"
        except Unavailable as e:
            status["Hef.rayleigh_ritz_function_gradient"] = f"unavailable ({e}); correspondence is the only tie"
    fields = []
    for k, v in vals.items():
        if isinstance(v, bool):
            fields.append(f"{k} := {lean_bool(v)}")
        elif isinstance(v, int):
            fields.append(f"{k} := {v}")
        elif k == "flipRule":
            fields.append(f"{k} := {v}")
        else:
            fields.append(f"{k} := .{v}")
    body = ",\n    ".join(fields)
    rs = ", ".join('"' + r.replace('"', "") + '"' for r in reasons)
    text = ("-- REGENERATED on every run by harness/translate/hef.py from\n"
            "-- /repo/src/topsearch/transition_states/hybrid_eigenvector_following.py (do not edit)\n"
            "import TopSearch.Model.Hef\n"
            "namespace TopSearch.Gen.Hef\n"
            "open TopSearch.Hef\n"
            "def cfg : Cfg :=\n"
            f"  {{ {body} }}\n"
            "/-- the values `check_valid_eigenvector` stores in `self.failure`, in the order of its tests -/\n"
            f"def validReasons : List String := [{rs}]\n"
            "/-- the finite-difference displacement of `rayleigh_ritz_function_gradient` (numerator, denominator); the rest\n"
            "    of that function is checked statement by statement against the transcription `rayleighCoded` -/\n"
            f"def rayleighDisp : Nat × Nat := ({(disp or Fraction(1, 1000)).numerator}, {(disp or Fraction(1, 1000)).denominator})"
            f"{'' if disp is not None else '  -- kernel unavailable'}\n"
            "end TopSearch.Gen.Hef\n")
    status["Gen/Hef.lean rewritten"] = write_if_changed("Hef.lean", text)
    return status
