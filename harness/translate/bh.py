"""Gen/BasinHopping.lean: the decision kernels of basin-hopping read from the current source
(global_optimisation/basin_hopping.py), AST only:

* `metropolis`: symbolic execution of its body into a decision tree over
  (energy1, energy2, boltzmann_factor, uniform_random) — comparison operators and their
  orientation — plus the argument of `np.exp` as an arithmetic expression over
  (energy1, energy2, temperature);
* the failure test of the loop of `run` (`warnflag != 0 or task == '…REL_REDUCTION…'`) and the
  storing test of `prepare_initial_coordinates` (`warnflag == 0`);
* for each of the five save/restore sites of `run` whether it copies
  (`x.copy()`, `np.copy(x)`, `np.array(x[, copy=True])`, `copy.deepcopy(x)` count as copying;
  a bare reference does not).

Anything outside this small grammar is reported as unavailable: the kernel then falls back to
the hand-written model kernel and the behavioural correspondence is its only tie.
"""
from __future__ import annotations

import ast

from .base import Unavailable, find_function, lean_bool, parse, write_if_changed

FILE = "global_optimisation/basin_hopping.py"
REL_REDUCTION = "CONVERGENCE: REL_REDUCTION_OF_F_<=_FACTR*EPSMCH"

_UNIFORM = {"np.random.random", "np.random.rand", "np.random.random_sample", "np.random.uniform",
            "numpy.random.random", "numpy.random.rand", "random.random", "np.random.ranf",
            "np.random.sample"}
_EXP = {"np.exp", "numpy.exp", "math.exp"}
_CMP = {ast.Lt: "<", ast.Gt: ">", ast.LtE: "≤", ast.GtE: "≥", ast.Eq: "=", ast.NotEq: "≠"}
_BIN = {ast.Add: "+", ast.Sub: "-", ast.Mult: "*", ast.Div: "/"}


# ----------------------------------------------------------------------------- metropolis


class _Metro:
    """symbolic execution of the (loop-free) body of `metropolis`"""

    def __init__(self, fn: ast.FunctionDef):
        args = [a.arg for a in fn.args.args if a.arg != "self"]
        if len(args) != 3:
            raise Unavailable("metropolis: expected (energy1, energy2, temperature)")
        # canonical names, in the positional order of the signature
        self.env: dict[str, str] = dict(zip(args, ["energy1", "energy2", "temperature"]))
        self.exp_args: list[str] = []
        self.uses_u = False
        self.tree = self.block(fn.body, dict(self.env))
        if self.tree is None:
            raise Unavailable("metropolis: a path does not return")

    # numeric expressions --------------------------------------------------------------
    def num(self, e: ast.AST, env: dict, inside_exp: bool = False) -> str:
        if isinstance(e, ast.Name):
            if e.id not in env:
                raise Unavailable(f"metropolis: unknown name {e.id}")
            return env[e.id]
        if isinstance(e, ast.BinOp) and type(e.op) in _BIN:
            return f"({self.num(e.left, env, inside_exp)} {_BIN[type(e.op)]} {self.num(e.right, env, inside_exp)})"
        if isinstance(e, ast.UnaryOp) and isinstance(e.op, ast.USub):
            return f"(-{self.num(e.operand, env, inside_exp)})"
        if isinstance(e, ast.UnaryOp) and isinstance(e.op, ast.UAdd):
            return self.num(e.operand, env, inside_exp)
        if isinstance(e, ast.Constant) and isinstance(e.value, (int, float)) and not isinstance(e.value, bool) \
                and float(e.value) == int(e.value) and int(e.value) >= 0:
            return f"(({int(e.value)} : Nat) : α)"
        if isinstance(e, ast.Call):
            f = ast.unparse(e.func)
            if f in _EXP and len(e.args) == 1 and not e.keywords:
                if inside_exp:
                    raise Unavailable("metropolis: nested exp")
                arg = self.num(e.args[0], env, True)
                if "uniform_random" in arg or "boltzmann_factor" in arg:
                    raise Unavailable("metropolis: exp of a draw")
                if arg not in self.exp_args:
                    self.exp_args.append(arg)
                if len(self.exp_args) > 1:
                    raise Unavailable("metropolis: more than one exp")
                return "boltzmann_factor"
            if f in _UNIFORM and not e.args and not e.keywords:
                if inside_exp:
                    raise Unavailable("metropolis: draw inside exp")
                self.uses_u = True
                return "uniform_random"
            if f == "float" and len(e.args) == 1:
                return self.num(e.args[0], env, inside_exp)
        raise Unavailable(f"metropolis: expression outside the grammar: {ast.unparse(e)}")

    # boolean expressions (as Lean `Bool`) -------------------------------------------------
    def boolean(self, e: ast.AST, env: dict) -> str:
        if isinstance(e, ast.Constant) and isinstance(e.value, bool):
            return lean_bool(e.value)
        if isinstance(e, ast.Call) and ast.unparse(e.func) in ("bool", "np.bool_") and len(e.args) == 1:
            return self.boolean(e.args[0], env)
        if isinstance(e, ast.Compare) and len(e.ops) == 1 and type(e.ops[0]) in _CMP:
            a = self.num(e.left, env)
            b = self.num(e.comparators[0], env)
            return f"decide ({a} {_CMP[type(e.ops[0])]} {b})"
        if isinstance(e, ast.BoolOp):
            op = " && " if isinstance(e.op, ast.And) else " || "
            return "(" + op.join(self.boolean(v, env) for v in e.values) + ")"
        if isinstance(e, ast.UnaryOp) and isinstance(e.op, ast.Not):
            return f"(!{self.boolean(e.operand, env)})"
        if isinstance(e, ast.IfExp):
            return f"(if {self.boolean(e.test, env)} then {self.boolean(e.body, env)} else {self.boolean(e.orelse, env)})"
        raise Unavailable(f"metropolis: condition outside the grammar: {ast.unparse(e)}")

    # statements -----------------------------------------------------------------------
    def block(self, stmts: list[ast.stmt], env: dict):
        """returns a Lean Bool term, or None when the block falls through"""
        for n, s in enumerate(stmts):
            if isinstance(s, ast.Expr) and isinstance(s.value, ast.Constant):
                continue                                     # docstring
            if isinstance(s, ast.Pass):
                continue
            if isinstance(s, ast.Return):
                if s.value is None:
                    raise Unavailable("metropolis: bare return")
                return self.boolean(s.value, env)
            if isinstance(s, ast.Assign) and len(s.targets) == 1 and isinstance(s.targets[0], ast.Name):
                env = dict(env)
                env[s.targets[0].id] = self.num(s.value, env)
                continue
            if isinstance(s, ast.If):
                c = self.boolean(s.test, env)
                rest = stmts[n + 1:]
                t = self.block(s.body + rest, dict(env))
                e = self.block(s.orelse + rest, dict(env))
                if t is None or e is None:
                    return None
                return f"(if {c} then {t} else {e})"
            raise Unavailable(f"metropolis: statement outside the grammar: {ast.unparse(s)[:60]}")
        return None


# ----------------------------------------------------------------------------- failure tests


def _flag_test(e: ast.AST) -> str:
    """boolean expression over `results_dict['warnflag']` (Int) and the REL_REDUCTION task test"""
    if isinstance(e, ast.BoolOp):
        op = " && " if isinstance(e.op, ast.And) else " || "
        return "(" + op.join(_flag_test(v) for v in e.values) + ")"
    if isinstance(e, ast.UnaryOp) and isinstance(e.op, ast.Not):
        return f"(!{_flag_test(e.operand)})"
    if isinstance(e, ast.Compare) and len(e.ops) == 1:
        l, r, op = e.left, e.comparators[0], type(e.ops[0])
        ls, rs = ast.unparse(l), ast.unparse(r)
        key = lambda s: s.replace('"', "'").replace(" ", "")
        if key(ls).endswith("['task']") or key(rs).endswith("['task']"):
            other = r if key(ls).endswith("['task']") else l
            if not (isinstance(other, ast.Constant) and isinstance(other.value, str)):
                raise Unavailable("task compared with a non-literal")
            if other.value != REL_REDUCTION:
                raise Unavailable(f"task compared with another message: {other.value!r}")
            if op is ast.Eq:
                return "relRed"
            if op is ast.NotEq:
                return "(!relRed)"
            raise Unavailable("task comparison operator")
        def side(x):
            if key(ast.unparse(x)).endswith("['warnflag']"):
                return "warnflag"
            if isinstance(x, ast.Constant) and isinstance(x.value, int) and not isinstance(x.value, bool):
                return f"({x.value} : Int)"
            raise Unavailable(f"flag test operand {ast.unparse(x)}")
        if op in _CMP:
            return f"decide ({side(l)} {_CMP[op]} {side(r)})"
    raise Unavailable(f"flag test outside the grammar: {ast.unparse(e)}")


def _find_loop(fn: ast.FunctionDef) -> ast.For:
    loops = [s for s in fn.body if isinstance(s, ast.For)]
    if len(loops) != 1:
        raise Unavailable("run: expected exactly one top-level for loop")
    return loops[0]


def loop_fail_test(run: ast.FunctionDef) -> str:
    loop = _find_loop(run)
    for s in loop.body:
        if isinstance(s, ast.If) and "warnflag" in ast.unparse(s.test):
            return _flag_test(s.test)
    raise Unavailable("run: no failure test on results_dict in the loop")


def init_store_test(prep: ast.FunctionDef) -> str:
    # the walker ADOPTS the minimiser's output array (the model's initial state is that output, exactly): one plain
    # rebinding of coords.position; writing into the caller's start array would cast to that array's dtype
    adopt = [n for n in ast.walk(prep) if isinstance(n, (ast.Assign, ast.AugAssign)) and
             any("coords.position" in ast.unparse(t) for t in (n.targets if isinstance(n, ast.Assign) else [n.target]))]
    ok = ("min_position", "min_position.copy()", "np.array(min_position)", "np.array(min_position, copy=True)")
    if len(adopt) != 1 or not isinstance(adopt[0], ast.Assign) or ast.unparse(adopt[0].targets[0]) != "coords.position" \
            or ast.unparse(adopt[0].value) not in ok or adopt[0] not in prep.body:
        raise Unavailable("prepare_initial_coordinates: the walker does not adopt the minimiser's output by "
                          "`coords.position = min_position`")
    for s in prep.body:
        if isinstance(s, ast.If) and "warnflag" in ast.unparse(s.test):
            if not any("test_new_minimum" in ast.unparse(b) for b in s.body):
                raise Unavailable("prepare_initial_coordinates: guarded block does not store")
            if s.orelse:
                raise Unavailable("prepare_initial_coordinates: else branch")
            return _flag_test(s.test)
    if any("test_new_minimum" in ast.unparse(b) for b in prep.body):
        return "true"                 # unguarded call: always stores
    raise Unavailable("prepare_initial_coordinates: no test_new_minimum call")


# ----------------------------------------------------------------------------- copy sites


def _copies(value: ast.AST, source: str) -> bool:
    """does `value` produce a fresh array holding the data of `source`?"""
    src = ast.unparse(value).replace(" ", "")
    if src == source:
        return False
    if isinstance(value, ast.Call):
        f = ast.unparse(value.func)
        if f == f"{source}.copy" and not value.args:
            return True
        if f in ("np.copy", "numpy.copy", "copy.deepcopy", "deepcopy", "copy.copy") and \
                len(value.args) == 1 and ast.unparse(value.args[0]) == source:
            return True
        if f in ("np.array", "numpy.array") and value.args and ast.unparse(value.args[0]) == source:
            for kw in value.keywords:
                if kw.arg == "copy":
                    if isinstance(kw.value, ast.Constant) and isinstance(kw.value.value, bool):
                        return kw.value.value
                    raise Unavailable("np.array(copy=<non literal>)")
            return True
    raise Unavailable(f"save/restore expression outside the grammar: {ast.unparse(value)}")


def copy_sites(run: ast.FunctionDef) -> dict[str, bool]:
    sites: dict[str, list[bool]] = {k: [] for k in
                                    ("initSave", "failRestore", "bondRestore", "acceptSave", "rejectRestore")}
    loop = _find_loop(run)

    def is_save(s):   # markov_coords = <something of coords.position>
        return isinstance(s, ast.Assign) and len(s.targets) == 1 and \
            ast.unparse(s.targets[0]) == "markov_coords"

    def is_restore(s):  # coords.position = <something of markov_coords>
        return isinstance(s, ast.Assign) and len(s.targets) == 1 and \
            ast.unparse(s.targets[0]) == "coords.position" and "markov_coords" in ast.unparse(s.value)

    for s in run.body:
        if s is loop:
            break
        if is_save(s):
            sites["initSave"].append(_copies(s.value, "coords.position"))
    tainted: set[str] = set()
    for n in ast.walk(loop):
        if isinstance(n, ast.Assign) and "metropolis" in ast.unparse(n.value):
            tainted |= {t.id for t in n.targets if isinstance(t, ast.Name)}

    def kind_of(test: ast.AST) -> str | None:
        src = ast.unparse(test)
        if "metropolis" in src or any(isinstance(x, ast.Name) and x.id in tainted for x in ast.walk(test)):
            return "metropolis"
        if "warnflag" in src:
            return "fail"
        if "same_bonds" in src:
            return "bonds"
        return None

    def visit(stmts, ctx):
        for s in stmts:
            if is_save(s):
                if ctx == ("metropolis", True):
                    sites["acceptSave"].append(_copies(s.value, "coords.position"))
                else:
                    raise Unavailable("markov_coords assigned outside the accepted branch")
            elif is_restore(s):
                if ctx == ("fail", True):
                    sites["failRestore"].append(_copies(s.value, "markov_coords"))
                elif ctx == ("bonds", True):
                    sites["bondRestore"].append(_copies(s.value, "markov_coords"))
                elif ctx == ("metropolis", False):
                    sites["rejectRestore"].append(_copies(s.value, "markov_coords"))
                else:
                    raise Unavailable("coords.position restored at an unexpected place")
            elif isinstance(s, ast.If):
                k = kind_of(s.test)
                visit(s.body, (k, True) if k else ctx)
                visit(s.orelse, (k, False) if k else ctx)
            elif isinstance(s, (ast.With, ast.Try)):
                visit(s.body, ctx)
            elif isinstance(s, (ast.For, ast.While)):
                raise Unavailable("nested loop in run")
    visit(loop.body, (None, True))
    out = {}
    for k, v in sites.items():
        if len(v) != 1:
            raise Unavailable(f"run: {len(v)} `{k}` sites found (expected 1)")
        out[k] = v[0]
    return out


# ----------------------------------------------------------------------------- emit


def regenerate() -> dict:
    status: dict = {}
    tree = parse(FILE)

    try:
        m = _Metro(find_function(tree, "metropolis", "BasinHopping"))
        if len(m.exp_args) != 1 or not m.uses_u:
            # a kernel without exp / without a draw is a different algorithm; still translate it
            pass
        decide_term = m.tree
        exponent = m.exp_args[0] if m.exp_args else "temperature"
        status["BasinHopping.metropolis"] = {"decision": decide_term, "exponent": exponent}
    except Unavailable as e:
        decide_term = None
        status["BasinHopping.metropolis"] = f"unavailable ({e}); hand-written kernel used, correspondence is the only tie"

    try:
        lf = loop_fail_test(find_function(tree, "run", "BasinHopping"))
        status["BasinHopping.loopFails"] = lf
    except Unavailable as e:
        lf = None
        status["BasinHopping.loopFails"] = f"unavailable ({e})"
    try:
        ist = init_store_test(find_function(tree, "prepare_initial_coordinates", "BasinHopping"))
        status["BasinHopping.initStores"] = ist
    except Unavailable as e:
        ist = None
        status["BasinHopping.initStores"] = f"unavailable ({e})"
    try:
        cs = copy_sites(find_function(tree, "run", "BasinHopping"))
        status["BasinHopping.copySites"] = cs
    except Unavailable as e:
        cs = None
        status["BasinHopping.copySites"] = f"unavailable ({e})"

    L = ["-- REGENERATED on every run by harness/translate/bh.py from",
         "-- /repo/src/topsearch/global_optimisation/basin_hopping.py (do not edit)",
         "import TopSearch.Model.BasinHopping",
         "namespace TopSearch.Gen.BasinHopping",
         "open TopSearch.BH",
         ""]
    if cs is not None:
        L += ["/-- which save/restore sites of `run` copy the array -/",
              "def copyCfg : CopyCfg :=",
              "  { " + ", ".join(f"{k} := {lean_bool(v)}" for k, v in cs.items()) + " }"]
    else:
        L += ["-- copy sites unavailable: hand-written configuration", "def copyCfg : CopyCfg := CopyCfg.byValue"]
    L += ["def copies : Bool := copyCfg.all", ""]
    if lf is not None:
        L += ["/-- the failure test of the loop of `run` -/",
              "def loopFails (warnflag : Int) (relRed : Bool) : Bool :=", f"  {lf}"]
    else:
        L += ["def loopFails (warnflag : Int) (relRed : Bool) : Bool := TopSearch.BH.loopFails warnflag relRed"]
    if ist is not None:
        L += ["/-- the storing test of `prepare_initial_coordinates` -/",
              "def initStores (warnflag : Int) : Bool :=", f"  {ist}"]
    else:
        L += ["def initStores (warnflag : Int) : Bool := TopSearch.BH.initStores warnflag"]
    L += ["", "section",
          "variable {α : Type} [LT α] [LE α] [DecidableLT α] [DecidableLE α] [DecidableEq α]",
          "  [Add α] [Sub α] [Mul α] [Div α] [Neg α] [NatCast α]", ""]
    if decide_term is not None:
        L += ["/-- `metropolis` after symbolic execution; `boltzmann_factor` stands for the value of",
              "    the `np.exp` call and `uniform_random` for the draw -/",
              "def metropolisDecide (energy1 energy2 boltzmann_factor uniform_random : α) : Bool :=",
              f"  {decide_term}",
              "/-- the argument of `np.exp` -/",
              "def exponent (energy1 energy2 temperature : α) : α :=",
              f"  {exponent}"]
    else:
        L += ["def metropolisDecide (energy1 energy2 boltzmann_factor uniform_random : α) : Bool :=",
              "  TopSearch.BH.metropolisDecide energy1 energy2 boltzmann_factor uniform_random",
              "def exponent (energy1 energy2 temperature : α) : α :=",
              "  TopSearch.BH.exponent energy1 energy2 temperature"]
    L += ["def metropolis (expf : α → α) (energy1 energy2 temperature uniform_random : α) : Bool :=",
          "  metropolisDecide energy1 energy2 (expf (exponent energy1 energy2 temperature)) uniform_random",
          "",
          "/-- the kernels the model is run with -/",
          "def kern : Kern α := ⟨copyCfg, loopFails, initStores, metropolisDecide⟩",
          "end",
          "end TopSearch.Gen.BasinHopping", ""]
    status["Gen/BasinHopping.lean rewritten"] = write_if_changed("BasinHopping.lean", "\n".join(L))
    return status
