"""Gen/Similarity.lean: the decision kernels of `StandardSimilarity.test_same` (both modes), the
statement order of `test_new_ts`, and the failure filters / argument wiring of
`connection_attempt`, `run_connection_attempts` and `reconverge_landscape`, read from the
current source with `ast` (the code is never imported here).

What is emitted (see Props/C03.lean and Props/C05.lean for the bridge lemmas):

* `absKernel`, `propKernel : Py.B` — the returned boolean of the absolute / proportional branch,
  with every local inlined down to the atoms
      v0 = self.distance(coords1.position, coords2)   (abs)   |  the ellipsoid sum  (prop)
      v1 = self.distance_criterion, v2 = energy1, v3 = energy2, v4 = self.energy_criterion;
* `propTermE : Py.E` — the element-wise expression under `np.sum` in the proportional branch
      v0 = coords1.position[i], v1 = coords2[i], v2 = upper_bounds[i], v3 = lower_bounds[i],
      v4 = self.distance_criterion;
* `distanceIsNorm` — `distance` returns `np.linalg.norm(coords1 - coords2)`;
* `cfg.testNewTsSteps` — the network-touching statements of `test_new_ts` in source order;
* `cfg.reconvergeSkipsFailed`, `cfg.attemptKeepsOnlySuccessful` — the None filters;
* `attemptWiring`, `serialWiring`, `parallelWiring`, `reconvergeWiring` — which element of the
  single-ended search's result tuple reaches which parameter of `test_new_ts`.
"""
from __future__ import annotations

import ast

from .base import Unavailable, find_function, lean_bool, parse, write_if_changed

SIM = "similarity/similarity.py"
EXP = "sampling/exploration.py"


# ----------------------------------------------------------------------------- expressions

class Sym:
    """symbolic evaluation of the straight-line numeric code of test_same"""

    def __init__(self, atoms: dict[str, str]):
        self.atoms = atoms          # source text -> Lean E term
        self.env: dict[str, ast.AST] = {}

    def expr(self, n: ast.AST) -> str:
        src = ast.unparse(n)
        if src in self.atoms:
            return self.atoms[src]
        if isinstance(n, ast.Name) and n.id in self.env:
            return self.expr(self.env[n.id])
        if isinstance(n, ast.Constant) and isinstance(n.value, (int, float)) and not isinstance(n.value, bool):
            from fractions import Fraction
            f = Fraction(n.value)
            return f"(.c {f.numerator} {f.denominator})" if f.numerator >= 0 else f"(.c ({f.numerator}) {f.denominator})"
        if isinstance(n, ast.BinOp):
            if isinstance(n.op, ast.Pow):
                if isinstance(n.right, ast.Constant) and isinstance(n.right.value, int) and n.right.value >= 0:
                    return f"(.pow {self.expr(n.left)} {n.right.value})"
                raise Unavailable(f"power {src}")
            op = {ast.Add: "add", ast.Sub: "sub", ast.Mult: "mul", ast.Div: "div"}.get(type(n.op))
            if op is None:
                raise Unavailable(f"operator in {src}")
            return f"(.{op} {self.expr(n.left)} {self.expr(n.right)})"
        if isinstance(n, ast.UnaryOp) and isinstance(n.op, ast.USub):
            return f"(.neg {self.expr(n.operand)})"
        if isinstance(n, ast.Call):
            f = ast.unparse(n.func)
            if f in ("np.abs", "abs", "np.absolute", "np.fabs") and len(n.args) == 1:
                return f"(.fn .abs {self.expr(n.args[0])})"
            if f in ("np.sqrt", "math.sqrt") and len(n.args) == 1:
                return f"(.fn .sqrt {self.expr(n.args[0])})"
            two = {"np.subtract": "sub", "np.divide": "div", "np.add": "add", "np.multiply": "mul"}
            if f in two and len(n.args) == 2 and not n.keywords:
                return f"(.{two[f]} {self.expr(n.args[0])} {self.expr(n.args[1])})"
            if f in ("np.square",) and len(n.args) == 1:
                return f"(.pow {self.expr(n.args[0])} 2)"
            if f in ("float", "np.float64") and len(n.args) == 1:
                return self.expr(n.args[0])
        raise Unavailable(f"expression outside the grammar: {src}")

    def boolean(self, n: ast.AST) -> str:
        if isinstance(n, ast.Call) and ast.unparse(n.func) in ("bool", "np.bool_") and len(n.args) == 1:
            return self.boolean(n.args[0])
        if isinstance(n, ast.Name) and n.id in self.env:
            return self.boolean(self.env[n.id])
        if isinstance(n, ast.BoolOp):
            op = "and" if isinstance(n.op, ast.And) else "or"
            out = self.boolean(n.values[0])
            for v in n.values[1:]:
                out = f"(.{op} {out} {self.boolean(v)})"
            return out
        if isinstance(n, ast.UnaryOp) and isinstance(n.op, ast.Not):
            return f"(.not {self.boolean(n.operand)})"
        if isinstance(n, ast.Compare) and len(n.ops) == 1:
            a, b = self.expr(n.left), self.expr(n.comparators[0])
            o = n.ops[0]
            if isinstance(o, ast.Lt):
                return f"(.lt {a} {b})"
            if isinstance(o, ast.LtE):
                return f"(.le {a} {b})"
            if isinstance(o, ast.Gt):
                return f"(.lt {b} {a})"
            if isinstance(o, ast.GtE):
                return f"(.le {b} {a})"
        if isinstance(n, ast.Constant) and isinstance(n.value, bool):
            return ".tt" if n.value else ".ff"
        raise Unavailable(f"boolean outside the grammar: {ast.unparse(n)}")


def _straight(stmts: list[ast.stmt], sym: Sym) -> ast.AST:
    """bind the assignments of a straight-line block, return the returned expression"""
    for s in stmts:
        if isinstance(s, ast.Assign) and len(s.targets) == 1 and isinstance(s.targets[0], ast.Name):
            sym.env[s.targets[0].id] = s.value
        elif isinstance(s, ast.Return) and s.value is not None:
            return s.value
        elif isinstance(s, ast.Expr) and isinstance(s.value, ast.Constant):
            continue                      # docstring
        elif isinstance(s, ast.If):
            return None                   # handled by the caller
        else:
            raise Unavailable(f"test_same: unexpected statement `{ast.unparse(s)[:60]}`")
    return None


def test_same_kernels(fn: ast.FunctionDef) -> dict[str, str]:
    body = [s for s in fn.body if not (isinstance(s, ast.Expr) and isinstance(s.value, ast.Constant))]
    # locate `if self.proportional_distance:`
    idx = None
    for i, s in enumerate(body):
        if isinstance(s, ast.If):
            idx = i
            break
    if idx is None:
        raise Unavailable("test_same: no proportional branch")
    branch = body[idx]
    test = ast.unparse(branch.test)
    negated = False
    if test == "not self.proportional_distance":
        negated = True
    elif test not in ("self.proportional_distance", "self.proportional_distance is True",
                      "self.proportional_distance == True"):
        raise Unavailable(f"test_same: branch condition `{test}`")
    prefix = body[:idx]
    rest = body[idx + 1:] if not branch.orelse else branch.orelse
    prop_block, abs_block = (rest, branch.body) if negated else (branch.body, rest)

    atoms_common = {"self.distance_criterion": "(.v 1)", "energy1": "(.v 2)", "energy2": "(.v 3)",
                    "self.energy_criterion": "(.v 4)"}
    # ---- absolute branch
    sym = Sym({**atoms_common,
               "self.distance(coords1.position, coords2)": "(.v 0)",
               "self.closest_distance(coords1, coords2)": "(.v 0)",
               "np.linalg.norm(coords1.position - coords2)": "(.v 0)"})
    _straight(prefix, sym)
    ret = _straight(abs_block, sym)
    if ret is None:
        raise Unavailable("test_same: absolute branch has no return")
    abs_k = sym.boolean(ret)
    # ---- proportional branch: the np.sum(...) call is the atom v0
    sym = Sym(dict(atoms_common))
    _straight(prefix, sym)
    ret = _straight(prop_block, sym)
    if ret is None:
        raise Unavailable("test_same: proportional branch has no return")
    sums = []

    def find_sum(n):
        n0 = n
        while isinstance(n0, ast.Name) and n0.id in sym.env:
            n0 = sym.env[n0.id]
        for x in ast.walk(n0):
            if isinstance(x, ast.Call) and ast.unparse(x.func) == "np.sum" and len(x.args) == 1:
                sums.append(x)
            if isinstance(x, ast.Name) and x is not n0 and x.id in sym.env:
                find_sum(x)
    find_sum(ret)
    if len({ast.unparse(s) for s in sums}) != 1:
        raise Unavailable("test_same: cannot locate the ellipsoid sum")
    the_sum = sums[0]
    sym.atoms[ast.unparse(the_sum)] = "(.v 0)"
    prop_k = sym.boolean(ret)
    # element-wise term under the sum
    el = Sym({"coords1.position": "(.v 0)", "coords2": "(.v 1)", "coords1.upper_bounds": "(.v 2)",
              "coords1.lower_bounds": "(.v 3)", "self.distance_criterion": "(.v 4)"})
    el.env = dict(sym.env)
    term = el.expr(the_sum.args[0])
    return {"absKernel": abs_k, "propKernel": prop_k, "propTermE": term}


def distance_is_norm(fn: ast.FunctionDef) -> bool:
    rets = [s for s in ast.walk(fn) if isinstance(s, ast.Return)]
    if len(rets) != 1 or rets[0].value is None:
        raise Unavailable("distance: not a single return")
    args = [a.arg for a in fn.args.args[1:]]
    if len(args) != 2:
        raise Unavailable("distance: signature")
    src = ast.unparse(rets[0].value).replace(" ", "")
    a, b = args
    return src in (f"np.linalg.norm({a}-{b})", f"np.linalg.norm({b}-{a})",
                   f"np.sqrt(np.sum(({a}-{b})**2))", f"np.sqrt(np.sum(({b}-{a})**2))")


# ----------------------------------------------------------------------------- test_new_ts order

def test_new_ts_steps(fn: ast.FunctionDef) -> list[str]:
    """the statements that touch the network, in source order, as `Merge.Step` terms"""
    params = [a.arg for a in fn.args.args]
    if len(params) != 8:
        raise Unavailable("test_new_ts: signature")
    _, ktn, ts, e_ts, cplus, eplus, cminus, eminus = params
    holder: dict[str, str] = {}          # local coords object -> the coordinate parameter it holds
    index_side: dict[str, str] = {}      # local index variable -> side
    steps: list[str] = []

    def side_of(cobj: str, en: str) -> str | None:
        c = holder.get(cobj, cobj)
        if c == cplus and en == eplus:
            return "plus"
        if c == cminus and en == eminus:
            return "minus"
        return None

    def touches_network(s: ast.stmt) -> bool:
        src = ast.unparse(s)
        return any(k in src for k in (f"{ktn}.add_", "is_new_minimum", "is_new_ts", f"{ktn}.remove",
                                      "test_new_minimum", f"{ktn}.reset"))

    for s in fn.body:
        src = ast.unparse(s)
        if isinstance(s, ast.Expr) and isinstance(s.value, ast.Constant):
            continue
        if isinstance(s, ast.With) and not touches_network(s):
            continue                                        # log file output
        # X = deepcopy(ts_coords)
        if isinstance(s, ast.Assign) and isinstance(s.targets[0], ast.Name) and \
                isinstance(s.value, ast.Call) and ast.unparse(s.value.func) in ("deepcopy", "copy.deepcopy") \
                and ast.unparse(s.value.args[0]) == ts:
            holder[s.targets[0].id] = "?"
            continue
        # X.position = P
        if isinstance(s, ast.Assign) and isinstance(s.targets[0], ast.Attribute) and \
                s.targets[0].attr == "position" and isinstance(s.targets[0].value, ast.Name) and \
                s.targets[0].value.id in holder and isinstance(s.value, ast.Name):
            holder[s.targets[0].value.id] = s.value.id
            continue
        # if not self.is_new_ts(ktn, ts, e_ts)[0]: ... return
        if isinstance(s, ast.If) and "is_new_ts" in ast.unparse(s.test):
            t = ast.unparse(s.test).replace(" ", "")
            want = f"notself.is_new_ts({ktn},{ts},{e_ts})[0]"
            has_return = any(isinstance(x, ast.Return) for x in s.body) and not s.orelse
            others = [x for x in s.body if not isinstance(x, (ast.Return, ast.With, ast.Expr))]
            if t == want and has_return and not others:
                steps.append(".repeatCheck")
            else:
                steps.append(".other")
            continue
        # index_x = self.is_new_minimum(ktn, X, e)[1]
        if isinstance(s, ast.Assign) and isinstance(s.targets[0], ast.Name) and "is_new_minimum" in src:
            v = s.value
            ok = (isinstance(v, ast.Subscript) and ast.unparse(v.slice) == "1"
                  and isinstance(v.value, ast.Call) and ast.unparse(v.value.func) == "self.is_new_minimum"
                  and len(v.value.args) == 3 and ast.unparse(v.value.args[0]) == ktn)
            sd = side_of(ast.unparse(v.value.args[1]), ast.unparse(v.value.args[2])) if ok else None
            if sd:
                index_side[s.targets[0].id] = sd
                steps.append(f".lookup .{sd}")
            else:
                steps.append(".other")
            continue
        # if index_x is None: ktn.add_minimum(X.position, e); index_x = ktn.n_minima-1
        if isinstance(s, ast.If) and f"{ktn}.add_minimum" in src:
            t = s.test
            ok = (isinstance(t, ast.Compare) and isinstance(t.left, ast.Name) and len(t.ops) == 1
                  and isinstance(t.ops[0], ast.Is) and ast.unparse(t.comparators[0]) == "None"
                  and not s.orelse and len(s.body) == 2)
            sd = None
            if ok:
                iv = t.left.id
                sd = index_side.get(iv)
                call, assign = s.body
                okc = (isinstance(call, ast.Expr) and isinstance(call.value, ast.Call)
                       and ast.unparse(call.value.func) == f"{ktn}.add_minimum" and len(call.value.args) == 2)
                if okc:
                    a0 = ast.unparse(call.value.args[0])
                    cobj = a0[:-len(".position")] if a0.endswith(".position") else a0
                    okc = side_of(cobj, ast.unparse(call.value.args[1])) == sd
                oka = (isinstance(assign, ast.Assign) and ast.unparse(assign.targets[0]) == iv
                       and ast.unparse(assign.value).replace(" ", "") == f"{ktn}.n_minima-1")
                if not (okc and oka):
                    sd = None
            steps.append(f".insertIfNone .{sd}" if sd else ".other")
            continue
        # ktn.add_ts(ts.position, e_ts, index_a, index_b)
        if isinstance(s, ast.Expr) and isinstance(s.value, ast.Call) and \
                ast.unparse(s.value.func) == f"{ktn}.add_ts":
            a = [ast.unparse(x) for x in s.value.args]
            if len(a) == 4 and a[0] == f"{ts}.position" and a[1] == e_ts and \
                    a[2] in index_side and a[3] in index_side and not s.value.keywords:
                steps.append(f".addTs .{index_side[a[2]]} .{index_side[a[3]]}")
            else:
                steps.append(".other")
            continue
        if touches_network(s):
            steps.append(".other")
            continue
        if isinstance(s, (ast.For, ast.While, ast.Try, ast.Return)):
            raise Unavailable(f"test_new_ts: unexpected control structure `{src[:50]}`")
    if not steps:
        raise Unavailable("test_new_ts: no network statements recognised")
    return steps


# ----------------------------------------------------------------------------- exploration.py

def _is_none_test(t: ast.AST, positive: bool) -> str | None:
    """`X is None` (positive) / `X is not None` -> source of X"""
    if isinstance(t, ast.Compare) and len(t.ops) == 1 and ast.unparse(t.comparators[0]) == "None":
        if positive and isinstance(t.ops[0], ast.Is):
            return ast.unparse(t.left)
        if not positive and isinstance(t.ops[0], ast.IsNot):
            return ast.unparse(t.left)
    return None


def attempt_filter(fn: ast.FunctionDef) -> tuple[bool, list[int]]:
    """connection_attempt: is the append guarded by `ts_coords is not None`, and which elements of
    the search's result tuple are appended, in which order"""
    unpack = None
    for n in ast.walk(fn):
        if isinstance(n, ast.Assign) and isinstance(n.targets[0], ast.Tuple) and \
                "single_ended_search.run" in ast.unparse(n.value):
            unpack = [ast.unparse(e) for e in n.targets[0].elts]
    if unpack is None:
        raise Unavailable("connection_attempt: result unpacking not found")
    guarded: list[bool] = []
    wiring: list[int] | None = None

    def visit(stmts, guard):
        nonlocal wiring
        for s in stmts:
            if isinstance(s, ast.If):
                pos = _is_none_test(s.test, False)
                neg = _is_none_test(s.test, True)
                visit(s.body, guard or (pos == unpack[0]))
                visit(s.orelse, guard or (neg == unpack[0]))
            elif isinstance(s, (ast.For, ast.While, ast.With)):
                visit(s.body, guard)
            elif isinstance(s, ast.Expr) and isinstance(s.value, ast.Call) and \
                    ast.unparse(s.value.func).endswith(".append") and s.value.args and \
                    isinstance(s.value.args[0], (ast.List, ast.Tuple)):
                names = [ast.unparse(e) for e in s.value.args[0].elts]
                if all(nm in unpack for nm in names):
                    guarded.append(guard)
                    wiring = [unpack.index(nm) for nm in names]
    visit(fn.body, False)
    if not guarded or wiring is None:
        raise Unavailable("connection_attempt: append of the search result not found")
    return all(guarded), wiring


def _ts_calls(stmts: list[ast.stmt], var_hint: str | None = None):
    """yield (call node, position-assignment source or None, enclosing guards) for each
    `self.similarity.test_new_ts(...)` call"""
    out = []

    def visit(stmts, guards, last_pos):
        for s in stmts:
            if isinstance(s, ast.Assign) and ast.unparse(s.targets[0]) == "self.coords.position":
                last_pos = ast.unparse(s.value)
            elif isinstance(s, ast.Expr) and isinstance(s.value, ast.Call) and \
                    ast.unparse(s.value.func) == "self.similarity.test_new_ts":
                out.append((s.value, last_pos, list(guards)))
            elif isinstance(s, ast.If):
                visit(s.body, guards + [("if", s.test)], last_pos)
                visit(s.orelse, guards + [("else", s.test)], last_pos)
            elif isinstance(s, (ast.For, ast.While)):
                # `if x is None: continue` earlier in the loop body guards the later statements
                g = list(guards)
                for k, b in enumerate(s.body):
                    if isinstance(b, ast.If) and not b.orelse and any(isinstance(x, ast.Continue) for x in b.body):
                        visit(s.body[k + 1:], g + [("else", b.test)], last_pos)
                        break
                else:
                    visit(s.body, g, last_pos)
                    continue
                visit(s.body[:k], g, last_pos)
            elif isinstance(s, ast.With):
                visit(s.body, guards, last_pos)
    visit(stmts, [], None)
    return out


def _wiring_of(call: ast.Call, pos_src: str | None) -> list[int]:
    """[index used for coords.position, then indices of args 2..6] when all are `v[k]`"""
    import re
    srcs = [pos_src] + [ast.unparse(a) for a in call.args[2:]]
    if ast.unparse(call.args[0]) != "self.ktn" or ast.unparse(call.args[1]) != "self.coords" or len(call.args) != 7:
        raise Unavailable("test_new_ts call: unexpected arguments")
    out = []
    var = None
    for s in srcs:
        m = re.fullmatch(r"(\w+)\[(\d+)\]", s or "")
        if not m:
            raise Unavailable(f"test_new_ts call: argument `{s}`")
        if var is None:
            var = m.group(1)
        if m.group(1) != var:
            raise Unavailable("test_new_ts call: arguments from different records")
        out.append(int(m.group(2)))
    return out


def round_wiring(fn: ast.FunctionDef) -> tuple[list[int], list[int]]:
    top = None
    for s in fn.body:
        if isinstance(s, ast.If) and ast.unparse(s.test) == "self.multiprocessing_on":
            top = s
    if top is None:
        raise Unavailable("run_connection_attempts: no multiprocessing branch")
    par = _ts_calls(top.body)
    ser = _ts_calls(top.orelse)
    if len(par) != 1 or len(ser) != 1:
        raise Unavailable("run_connection_attempts: expected one merge call per branch")
    return _wiring_of(ser[0][0], ser[0][1]), _wiring_of(par[0][0], par[0][1])


def reconverge_filter(fn: ast.FunctionDef) -> tuple[bool, list[int]]:
    calls = _ts_calls(fn.body)
    if len(calls) != 1:
        raise Unavailable("reconverge_landscape: expected one test_new_ts call")
    call, pos, guards = calls[0]
    w = _wiring_of(call, pos)
    import re
    var = re.fullmatch(r"(\w+)\[(\d+)\]", pos).group(1)
    first = f"{var}[{w[0]}]"
    skip = False
    for kind, t in guards:
        if kind == "if" and _is_none_test(t, False) == first:
            skip = True
        if kind == "else" and _is_none_test(t, True) == first:
            skip = True
    return skip, w


# ----------------------------------------------------------------------------- output

def _nat_list(l: list[int]) -> str:
    return "[" + ", ".join(map(str, l)) + "]"


def regenerate() -> dict:
    status: dict = {}
    # defaults = the values the bridge lemmas expect; used only when a kernel is unavailable
    k = {"absKernel": "(.and (.lt (.v 0) (.v 1)) (.lt (.fn .abs (.sub (.v 2) (.v 3))) (.v 4)))",
         "propKernel": "(.and (.le (.v 0) (.c 1 1)) (.lt (.fn .abs (.sub (.v 2) (.v 3))) (.v 4)))",
         "propTermE": "(.pow (.div (.sub (.v 0) (.v 1)) (.mul (.sub (.v 2) (.v 3)) (.v 4))) 2)"}
    norm = True
    steps = [".repeatCheck", ".lookup .plus", ".insertIfNone .plus", ".lookup .minus",
             ".insertIfNone .minus", ".addTs .plus .minus"]
    keep, attempt_w = True, [0, 1, 2, 3, 4, 5, 6]
    ser_w = par_w = rec_w = [0, 1, 2, 3, 4, 5]
    skip = True

    def attempt(name, f):
        try:
            v = f()
            status[name] = v if isinstance(v, (bool, str)) else str(v)
            return v
        except Unavailable as e:
            status[name] = f"unavailable ({e}); correspondence is the only tie"
        except (SyntaxError, AttributeError, IndexError, TypeError, KeyError, ValueError) as e:
            status[name] = f"unavailable ({type(e).__name__}: {e}); correspondence is the only tie"
        return None

    sim = attempt("Similarity.parse", lambda: parse(SIM) and "ok")
    if sim is not None:
        tree = parse(SIM)
        v = attempt("Similarity.test_same", lambda: test_same_kernels(
            find_function(tree, "test_same", "StandardSimilarity")))
        if v is not None:
            k = v
        v = attempt("Similarity.distanceIsNorm", lambda: distance_is_norm(
            find_function(tree, "distance", "StandardSimilarity")))
        if v is not None:
            norm = v
        v = attempt("Similarity.testNewTsSteps", lambda: test_new_ts_steps(
            find_function(tree, "test_new_ts", "StandardSimilarity")))
        if v is not None:
            steps = v
    exp = attempt("Exploration.parse", lambda: parse(EXP) and "ok")
    if exp is not None:
        tree = parse(EXP)
        v = attempt("Exploration.attemptFilter", lambda: attempt_filter(
            find_function(tree, "connection_attempt", "NetworkSampling")))
        if v is not None:
            keep, attempt_w = v
        v = attempt("Exploration.roundWiring", lambda: round_wiring(
            find_function(tree, "run_connection_attempts", "NetworkSampling")))
        if v is not None:
            ser_w, par_w = v
        v = attempt("Exploration.reconvergeFilter", lambda: reconverge_filter(
            find_function(tree, "reconverge_landscape", "NetworkSampling")))
        if v is not None:
            skip, rec_w = v
    text = (
        "-- REGENERATED on every run by harness/translate/similarity.py from\n"
        "-- /repo/src/topsearch/similarity/similarity.py and sampling/exploration.py (do not edit)\n"
        "import TopSearch.Model.Merge\n"
        "import TopSearch.Py.Expr\n"
        "namespace TopSearch.Gen.Similarity\n"
        "open TopSearch.Py TopSearch.Merge\n"
        "/-- absolute branch of test_same; v0 = self.distance(coords1.position, coords2),\n"
        "    v1 = distance_criterion, v2 = energy1, v3 = energy2, v4 = energy_criterion -/\n"
        f"def absKernel : B := {k['absKernel']}\n"
        "/-- proportional branch; v0 = the ellipsoid sum, v1..v4 as above -/\n"
        f"def propKernel : B := {k['propKernel']}\n"
        "/-- element-wise term under np.sum; v0 = position[i], v1 = coords2[i], v2 = upper[i],\n"
        "    v3 = lower[i], v4 = distance_criterion -/\n"
        f"def propTermE : E := {k['propTermE']}\n"
        f"def distanceIsNorm : Bool := {lean_bool(norm)}\n"
        "def cfg : TopSearch.Merge.Cfg :=\n"
        f"  {{ testNewTsSteps := [{', '.join(steps)}],\n"
        f"    reconvergeSkipsFailed := {lean_bool(skip)},\n"
        f"    attemptKeepsOnlySuccessful := {lean_bool(keep)} }}\n"
        "/-- which element of the search's result tuple is appended at each position of a record -/\n"
        f"def attemptWiring : List Nat := {_nat_list(attempt_w)}\n"
        "/-- record positions passed as (coords.position, e_ts, min_plus, e_plus, min_minus, e_minus) -/\n"
        f"def serialWiring : List Nat := {_nat_list(ser_w)}\n"
        f"def parallelWiring : List Nat := {_nat_list(par_w)}\n"
        f"def reconvergeWiring : List Nat := {_nat_list(rec_w)}\n"
        "end TopSearch.Gen.Similarity\n")
    status["Gen/Similarity.lean rewritten"] = write_if_changed("Similarity.lean", text)
    return status
