"""Gen/Pairs.lean: the decision kernels of pair selection read from the current source
(analysis/pair_selection.py, sampling/exploration.py) with `ast` only:

* the slice bounds `[1:neighbours+1]` (closest_enumeration), `[1:]` and `[:cycles]`
  (connect_to_set) as Lean expressions in the function's own parameter,
* the literal pair dropped by unique_pairs (`i != [0, 0]`), whether each pair goes through
  `sorted`, whether the result goes through `set`,
* which set the comprehension of connect_to_set tests membership in (`f_set` / `s_set`) and that
  `f_set` is still `range(n) - s_set`,
* the scheme strings of NetworkSampling.select_minima and the selector each one calls.

A kernel that cannot be located/parsed is recorded as unavailable and replaced by the reference
kernel (the correspondence is then its only tie)."""
from __future__ import annotations

import ast

from .base import Unavailable, find_function, lean_bool, parse, write_if_changed

FILE = "analysis/pair_selection.py"
FILE2 = "sampling/exploration.py"


def nat_expr(e: ast.AST, params: set[str]) -> str:
    """a Python int expression over `params` as a Lean `Nat` expression"""
    if isinstance(e, ast.Constant) and isinstance(e.value, int) and not isinstance(e.value, bool) \
            and e.value >= 0:
        return str(e.value)
    if isinstance(e, ast.Name) and e.id in params:
        return e.id
    if isinstance(e, ast.BinOp) and isinstance(e.op, (ast.Add, ast.Sub, ast.Mult)):
        op = {ast.Add: "+", ast.Sub: "-", ast.Mult: "*"}[type(e.op)]
        return f"({nat_expr(e.left, params)} {op} {nat_expr(e.right, params)})"
    raise Unavailable(f"slice bound outside the grammar: {ast.unparse(e)}")


def slice_fn(sl: ast.AST, params: set[str]) -> str:
    """Lean term `List Nat → List Nat` for a Python slice with non-negative bounds"""
    if not isinstance(sl, ast.Slice) or sl.step is not None:
        raise Unavailable("not a plain slice")
    lo = nat_expr(sl.lower, params) if sl.lower is not None else None
    hi = nat_expr(sl.upper, params) if sl.upper is not None else None
    if hi is None:
        return f"fun l => l.drop {lo or '0'}"
    return f"fun l => pySlice {lo or '0'} {hi} l"


def _subscripts(fn: ast.FunctionDef):
    return [n for n in ast.walk(fn) if isinstance(n, ast.Subscript) and isinstance(n.slice, ast.Slice)]


def closest_slice(fn: ast.FunctionDef) -> str:
    subs = [s for s in _subscripts(fn) if "argsort" in ast.unparse(s.value)]
    if len(subs) != 1:
        raise Unavailable("closest_enumeration: argsort slice not found")
    return "fun neighbours => " + slice_fn(subs[0].slice, {"neighbours"})


def set_slices(fn: ast.FunctionDef) -> tuple[str, str]:
    subs = _subscripts(fn)
    near = [s for s in subs if "argsort" in ast.unparse(s.value)]
    cyc = [s for s in subs if "argsort" not in ast.unparse(s.value)]
    if len(near) != 1 or len(cyc) != 1:
        raise Unavailable("connect_to_set: slices not found")
    if not (isinstance(cyc[0].value, ast.Name) and cyc[0].value.id == "pairs"):
        raise Unavailable("connect_to_set: the cycles slice is not on `pairs`")
    return slice_fn(near[0].slice, set()), "fun cycles => " + slice_fn(cyc[0].slice, {"cycles"})


def filter_in_f(fn: ast.FunctionDef) -> bool:
    """the membership test of `pairs = [i for i in nearest if i in <set>]`"""
    fdef = [n for n in ast.walk(fn) if isinstance(n, ast.Assign) and
            any(isinstance(t, ast.Name) and t.id == "f_set" for t in n.targets)]
    if len(fdef) != 1 or not (isinstance(fdef[0].value, ast.BinOp) and isinstance(fdef[0].value.op, ast.Sub)
                              and "range" in ast.unparse(fdef[0].value.left)
                              and "s_set" in ast.unparse(fdef[0].value.right)):
        raise Unavailable("connect_to_set: f_set is not `range(n) - s_set`")
    for n in ast.walk(fn):
        if isinstance(n, ast.Assign) and any(isinstance(t, ast.Name) and t.id == "pairs" for t in n.targets) \
                and isinstance(n.value, ast.ListComp):
            gen = n.value.generators[0]
            if len(gen.ifs) == 1 and isinstance(gen.ifs[0], ast.Compare) and \
                    len(gen.ifs[0].ops) == 1 and isinstance(gen.ifs[0].comparators[0], ast.Name):
                op, name = gen.ifs[0].ops[0], gen.ifs[0].comparators[0].id
                if name in ("f_set", "s_set") and isinstance(op, (ast.In, ast.NotIn)):
                    return (name == "f_set") == isinstance(op, ast.In)
    raise Unavailable("connect_to_set: membership filter not found")


def unique_kernels(fn: ast.FunctionDef) -> tuple[str, bool, bool]:
    comps = [n for n in ast.walk(fn) if isinstance(n, ast.ListComp)]
    first = [c for c in comps if any(isinstance(t, ast.Name) and t.id == "initial_pairs"
                                     for t in ast.walk(c.generators[0].iter))]
    if len(first) != 1:
        raise Unavailable("unique_pairs: comprehension over initial_pairs not found")
    c = first[0]
    var = c.generators[0].target.id if isinstance(c.generators[0].target, ast.Name) else None
    sort_tuple = any(isinstance(n, ast.Call) and isinstance(n.func, ast.Name) and n.func.id == "sorted"
                     for n in ast.walk(c.elt))
    ifs = c.generators[0].ifs
    if not ifs:
        keep = "fun _ => true"
    elif len(ifs) == 1:
        t = ifs[0]
        neg = False
        if isinstance(t, ast.UnaryOp) and isinstance(t.op, ast.Not):
            t, neg = t.operand, True
        if not (isinstance(t, ast.Compare) and len(t.ops) == 1 and isinstance(t.left, ast.Name)
                and t.left.id == var and isinstance(t.comparators[0], ast.List)
                and len(t.comparators[0].elts) == 2):
            raise Unavailable("unique_pairs: filter outside the grammar")
        a, b = (nat_expr(e, set()) for e in t.comparators[0].elts)
        if isinstance(t.ops[0], ast.NotEq):
            ne = True
        elif isinstance(t.ops[0], ast.Eq):
            ne = False
        else:
            raise Unavailable("unique_pairs: filter operator")
        keep = f"fun p => p {'!=' if ne != neg else '=='} ({a}, {b})"
    else:
        raise Unavailable("unique_pairs: several filters")
    via_set = any(isinstance(n, ast.Call) and isinstance(n.func, ast.Name) and n.func.id in ("set", "frozenset")
                  for n in ast.walk(fn))
    return keep, sort_tuple, via_set


SELECTORS = {"closest_enumeration": ".closest", "connect_unconnected": ".unconnected", "read_pairs": ".read"}


def dispatch(fn: ast.FunctionDef) -> str:
    """the if/elif chain of select_minima whose bodies assign `pairs`"""
    chains = [s for s in fn.body if isinstance(s, ast.If) and
              any(isinstance(x, ast.Assign) and ast.unparse(x.targets[0]) == "pairs" for x in s.body)]
    if len(chains) != 1:
        raise Unavailable("select_minima: dispatch chain not found")
    out, node = [], chains[0]
    while True:
        t = node.test
        if not (isinstance(t, ast.Compare) and len(t.ops) == 1 and isinstance(t.ops[0], ast.Eq)
                and isinstance(t.left, ast.Name) and t.left.id == "option"
                and isinstance(t.comparators[0], ast.Constant) and isinstance(t.comparators[0].value, str)):
            raise Unavailable("select_minima: test outside the grammar")
        s = t.comparators[0].value
        if '"' in s or "\\" in s or len(node.body) != 1 or not isinstance(node.body[0], ast.Assign) \
                or not isinstance(node.body[0].value, ast.Call):
            raise Unavailable("select_minima: branch body outside the grammar")
        call = node.body[0].value
        name = call.func.id if isinstance(call.func, ast.Name) else None
        if name not in SELECTORS:
            raise Unavailable(f"select_minima: unknown selector {name}")
        if name != "read_pairs":
            args = [ast.unparse(a) for a in call.args]
            if args != ["self.ktn", "self.similarity", "coords", "neighbours"]:
                raise Unavailable("select_minima: selector arguments changed")
        out.append((s, SELECTORS[name]))
        if len(node.orelse) == 1 and isinstance(node.orelse[0], ast.If):
            node = node.orelse[0]
        elif not node.orelse:
            break
        else:
            raise Unavailable("select_minima: else branch")
    txt = "  "
    for s, sch in out:
        txt += f'if option == "{s}" then some {sch}\n  else '
    return txt + "none"


def regenerate() -> dict:
    status: dict = {}
    R = "TopSearch.Pairs.ref"
    fields = {"closestSlice": f"{R}.closestSlice", "nearestSlice": f"{R}.nearestSlice",
              "cyclesSlice": f"{R}.cyclesSlice", "keepPair": f"{R}.keepPair",
              "sortTuple": f"{R}.sortTuple", "filterInF": f"{R}.filterInF"}
    via_set = True
    disp = "  TopSearch.Pairs.dispatchRef option"

    def attempt(label, f):
        try:
            f()
        except Unavailable as e:
            status[label] = f"unavailable ({e}); correspondence is the only tie"
        except Exception as e:       # malformed source etc.
            status[label] = f"unavailable ({type(e).__name__}: {e})"

    tree = None
    try:
        tree = parse(FILE)
    except (Unavailable, SyntaxError) as e:
        status["Pairs"] = f"unavailable ({e})"
    if tree is not None:
        def k1():
            fields["closestSlice"] = closest_slice(find_function(tree, "closest_enumeration"))
            status["Pairs.closestSlice"] = fields["closestSlice"]

        def k2():
            a, b = set_slices(find_function(tree, "connect_to_set"))
            fields["nearestSlice"], fields["cyclesSlice"] = a, b
            status["Pairs.nearestSlice"], status["Pairs.cyclesSlice"] = a, b

        def k3():
            fields["filterInF"] = lean_bool(filter_in_f(find_function(tree, "connect_to_set")))
            status["Pairs.filterInF"] = fields["filterInF"]

        def k4():
            nonlocal via_set
            keep, st, via_set = unique_kernels(find_function(tree, "unique_pairs"))
            fields["keepPair"], fields["sortTuple"] = keep, lean_bool(st)
            status["Pairs.keepPair"], status["Pairs.sortTuple"], status["Pairs.viaSet"] = keep, st, via_set

        attempt("Pairs.closestSlice", k1)
        attempt("Pairs.nearestSlice", k2)
        attempt("Pairs.filterInF", k3)
        attempt("Pairs.keepPair", k4)

    def k5():
        nonlocal disp
        disp = dispatch(find_function(parse(FILE2), "select_minima", "NetworkSampling"))
        status["Pairs.dispatch"] = " ".join(disp.split())

    attempt("Pairs.dispatch", k5)
    text = ("-- REGENERATED on every run by harness/translate/pairs.py from\n"
            "-- src/topsearch/analysis/pair_selection.py and sampling/exploration.py (do not edit)\n"
            "import TopSearch.Model.Pairs\n"
            "namespace TopSearch.Gen.Pairs\n"
            "open TopSearch.Pairs\n"
            "def kernels : Kernels where\n"
            + "".join(f"  {k} := {v}\n" for k, v in fields.items()) +
            "/-- `unique_pairs` passes its result through `set(...)` -/\n"
            f"def viaSet : Bool := {lean_bool(via_set)}\n"
            "def dispatch (option : String) : Option Scheme :=\n"
            f"{disp}\n"
            "end TopSearch.Gen.Pairs\n")
    status["Gen/Pairs.lean rewritten"] = write_if_changed("Pairs.lean", text)
    return status
