"""Gen/Surfaces.lean: the coded surfaces and their coded derivatives as expression trees,
obtained by symbolic execution of the *current source* of
potentials/test_functions.py (Camelback, Quadratic + the inherited finite-difference
gradient/Hessian of potentials/potential.py) and potentials/atomic.py (LennardJones for
2, 3 and 4 atoms), plus the eigenvalue thresholds of the minimum / transition-state classifiers."""
from __future__ import annotations

import ast
from fractions import Fraction

from . import symexec as S
from .base import Unavailable, parse, write_if_changed


def _cls(tree, name):
    for n in tree.body:
        if isinstance(n, ast.ClassDef) and n.name == name:
            return n
    raise Unavailable(f"class {name} not found")


def _list(es) -> str:
    return "[" + ",\n    ".join(e.lean() for e in es) + "]"


def camelback(defs: dict, status: dict):
    tree = parse("potentials/test_functions.py")
    cls = _cls(tree, "Camelback")
    pos = lambda: S.Arr([S.E.var(0), S.E.var(1)])
    I = S.Interp(cls, tree)
    f = S.flatten_result(I.call_method("function", [pos()]))
    g = S.flatten_result(I.call_method("gradient", [pos()]))
    h = S.flatten_result(I.call_method("hessian", [pos()]))
    if len(f) != 1 or len(g) != 2 or len(h) != 4:
        raise Unavailable("Camelback: unexpected result shapes")
    defs["camelF"] = ("E", f[0].lean())
    defs["camelGrad"] = ("List E", _list(g))
    defs["camelHess"] = ("List E", _list(h))
    status["Surfaces.camel"] = f"function {f[0].size()} nodes, gradient {[x.size() for x in g]}, hessian {[x.size() for x in h]}"
    return {"camelF": f[0], "camelGrad": g, "camelHess": h}


def lennard_jones(defs: dict, status: dict, sizes=(2, 3, 4)):
    tree = parse("potentials/atomic.py")
    cls = _cls(tree, "LennardJones")
    out = {}
    for n in sizes:
        attrs = {"epsilon": S.E.var(3 * n), "sigma": S.E.var(3 * n + 1)}
        pos = lambda: S.Arr([S.E.var(i) for i in range(3 * n)])
        f = S.flatten_result(S.Interp(cls, tree, dict(attrs)).call_method("function", [pos()]))
        g = S.flatten_result(S.Interp(cls, tree, dict(attrs)).call_method("gradient", [pos()]))
        fg = S.flatten_result(S.Interp(cls, tree, dict(attrs)).call_method("function_gradient", [pos()]))
        if len(f) != 1 or len(g) != 3 * n or len(fg) != 3 * n + 1:
            raise Unavailable("LennardJones: unexpected result shapes")
        defs[f"ljF{n}"] = ("E", f[0].lean())
        defs[f"ljGrad{n}"] = ("List E", _list(g))
        defs[f"ljFG{n}"] = ("List E", _list(fg))
        out[n] = (f[0], g, fg)
        status[f"Surfaces.lj{n}"] = f"function {f[0].size()} nodes, gradient {sum(x.size() for x in g)} nodes"
    return out


def gupta(defs: dict, status: dict, species=("Au", "Ag", "Au")):
    """BinaryGupta energy for a fixed 3-atom species assignment (exp / sqrt stay named functions)"""
    tree = parse("potentials/atomic.py")
    cls = _cls(tree, "BinaryGupta")
    I = S.Interp(cls, tree, {})
    I.call_method("__init__", [list(species)])
    n = len(species)
    f = S.flatten_result(I.call_method("function", [S.Arr([S.E.var(i) for i in range(3 * n)])]))
    if len(f) != 1:
        raise Unavailable("Gupta: unexpected result shape")
    defs["guptaF3"] = ("E", f[0].lean())
    status["Surfaces.gupta"] = f"function {f[0].size()} nodes for species {list(species)}"
    return {"guptaF3": f[0], "species": list(species)}


def finite_differences(defs: dict, status: dict):
    """the inherited central-difference gradient/Hessian executed on the Quadratic surface
    (3 variables for the gradient, 2 for the Hessian); the displacement is variable 9."""
    t1 = parse("potentials/test_functions.py")
    t2 = parse("potentials/potential.py")
    mro = [_cls(t1, "Quadratic"), _cls(t2, "Potential")]
    h = S.E.var(9)
    pos3 = S.Arr([S.E.var(i) for i in range(3)])
    f = S.flatten_result(S.Interp(mro, t1).call_method("function", [pos3.copy()]))[0]
    g = S.flatten_result(S.Interp(mro, t1).call_method("gradient", [pos3.copy(), h]))
    before = [x.lean() for x in pos3.data]
    pos2 = S.Arr([S.E.var(0), S.E.var(1)])
    I = S.Interp(mro, t1)
    hs = S.flatten_result(I.call_method("hessian", [pos2, h]))
    untouched = [x.lean() for x in pos2.data] == ["(.v 0)", "(.v 1)"]
    defs["quadF3"] = ("E", f.lean())
    defs["quadFDGrad3"] = ("List E", _list(g))
    defs["quadFDHess2"] = ("List E", _list(hs))
    # the same inherited stencils on a surface that is NOT separable (the Camelback function has an x*y term): a
    # stencil that evaluates f at a point displaced in another coordinate as well is exposed only there
    cam = _cls(t1, "Camelback")
    only_f = ast.ClassDef(name="CamelbackFunctionOnly", bases=[], keywords=[], decorator_list=[],
                          body=[n for n in cam.body if isinstance(n, ast.FunctionDef) and n.name in ("__init__", "function")])
    mro_c = [only_f, _cls(t2, "Potential")]
    cg = S.flatten_result(S.Interp(mro_c, t1).call_method("gradient", [S.Arr([S.E.var(0), S.E.var(1)]), h]))
    ch = S.flatten_result(S.Interp(mro_c, t1).call_method("hessian", [S.Arr([S.E.var(0), S.E.var(1)]), h]))
    if len(cg) != 2 or len(ch) != 4:
        raise Unavailable("finite differences on Camelback: unexpected result shapes")
    defs["camelFDGrad2"] = ("List E", _list(cg))
    defs["camelFDHess2"] = ("List E", _list(ch))
    # does the routine leave the caller's array object syntactically untouched?
    defs["fdLeavesCallerArray"] = ("Bool", "true" if untouched else "false")
    status["Surfaces.fd"] = f"FD gradient {[x.size() for x in g]}, FD hessian {[x.size() for x in hs]}, caller array untouched: {untouched}"
    return {"quadF3": f, "quadFDGrad3": g, "quadFDHess2": hs, "camelFDGrad2": cg, "camelFDHess2": ch}


CMP = {ast.Gt: "gt", ast.Lt: "lt", ast.GtE: "ge", ast.LtE: "le"}


def classifiers(defs: dict, status: dict):
    """thresholds of check_valid_minimum / check_valid_ts: for the atomistic and the standard branch
    a list of (start index, quantifier over the slice?, operator, threshold)."""
    tree = parse("potentials/potential.py")
    cls = _cls(tree, "Potential")
    out = {}
    for fname in ("check_valid_minimum", "check_valid_ts"):
        fn = [n for n in cls.body if isinstance(n, ast.FunctionDef) and n.name == fname]
        if not fn:
            raise Unavailable(fname)
        branches = {}
        for node in ast.walk(fn[0]):
            if isinstance(node, ast.If) and ast.unparse(node.test) == "self.atomistic":
                for key, body in (("Atom", node.body), ("Std", node.orelse)):
                    tests = [n for n in body if isinstance(n, ast.If)]
                    if len(tests) != 1:
                        raise Unavailable(f"{fname}: unexpected branch structure")
                    branches[key] = _conds(tests[0].test)
                    r = [ast.unparse(x) for x in tests[0].body]
                    if r != ["return True"]:
                        raise Unavailable(f"{fname}: unexpected branch result")
        if set(branches) != {"Atom", "Std"}:
            raise Unavailable(f"{fname}: branches not found")
        for key, conds in branches.items():
            nm = ("validMin" if fname == "check_valid_minimum" else "validTs") + key
            defs[nm] = ("List EigCond", "[" + ", ".join(
                f"⟨{s}, {'true' if a else 'false'}, .{op}, ({q.numerator} : Rat) / {q.denominator}⟩" for s, a, op, q in conds) + "]")
            out[nm] = conds
    status["Surfaces.classifiers"] = {k: [(s, a, op, str(q)) for s, a, op, q in v] for k, v in out.items()}
    return out


def _conds(test) -> list:
    try:
        return _conds_unchecked(test)
    except (ValueError, SyntaxError, TypeError) as e:      # literal_eval on something that is not a literal
        raise Unavailable(f"classifier condition outside the grammar ({type(e).__name__})") from None


def _conds_unchecked(test) -> list:
    parts = test.values if isinstance(test, ast.BoolOp) and isinstance(test.op, ast.And) else [test]
    conds = []
    for p in parts:
        allq = False
        if isinstance(p, ast.Call) and ast.unparse(p.func) == "np.all":
            p = p.args[0]
            allq = True
        if not (isinstance(p, ast.Compare) and len(p.ops) == 1 and type(p.ops[0]) in CMP):
            raise Unavailable("classifier condition shape")
        left, right = p.left, p.comparators[0]
        if not (isinstance(left, ast.Subscript) and ast.unparse(left.value) == "eigs"):
            if ast.unparse(left) == "eigs" and allq:
                start, is_slice = 0, True
            else:
                raise Unavailable("classifier left-hand side")
        elif isinstance(left.slice, ast.Slice):
            if left.slice.upper is not None or left.slice.step is not None:
                raise Unavailable("classifier slice")
            start, is_slice = (ast.literal_eval(left.slice.lower) if left.slice.lower else 0), True
        else:
            start, is_slice = ast.literal_eval(left.slice), False
        if is_slice != allq:
            raise Unavailable("classifier quantifier")
        thr = Fraction(repr(ast.literal_eval(right))) if not isinstance(ast.literal_eval(right), int) else Fraction(ast.literal_eval(right))
        conds.append((start, allq, CMP[type(p.ops[0])], thr))
    return conds


# which derivatives each built-in surface CODES (everything else is inherited from Potential's finite differences): a newly
# coded gradient / Hessian is a new claim of exactness that no theorem covers yet
CODED = {"potentials/test_functions.py": {"Camelback": ["function", "gradient", "hessian"], "Schwefel": ["function"],
                                          "Quadratic": ["function"]},
         "potentials/atomic.py": {"LennardJones": ["function", "function_gradient", "gradient"]}}
DERIVATIVE_METHODS = {"function", "gradient", "hessian", "function_gradient"}


def coded_methods(status: dict) -> None:
    bad = []
    for rel, classes in CODED.items():
        tree = parse(rel)
        for cname, want in classes.items():
            got = sorted(n.name for n in _cls(tree, cname).body if isinstance(n, ast.FunctionDef) and n.name in DERIVATIVE_METHODS)
            if got != sorted(want):
                bad.append(f"{cname} codes {got}, the model knows {sorted(want)}")
    if bad:
        raise Unavailable("; ".join(bad))
    status["Surfaces.coded_methods"] = "as modelled: " + "; ".join(f"{c}: {', '.join(m)}" for cl in CODED.values() for c, m in cl.items())


GROUPS = (("camel", lambda d, s: camelback(d, s)), ("lj", lambda d, s: lennard_jones(d, s)),
          ("gupta", lambda d, s: gupta(d, s)), ("fd", lambda d, s: finite_differences(d, s)),
          ("classifiers", lambda d, s: classifiers(d, s)))
FALLBACK = __import__("pathlib").Path(__file__).with_name("surfaces_fallback.json")


def snapshot() -> dict:
    """the definitions read from the tree the fingerprints were taken from (written by `python -m translate.surfaces
    --update-fallback`).  When a group of kernels leaves the grammar its definitions are taken from here, so that the
    Lean files and the driver still compile and the correspondence still compares the implementation with the LAST
    VERIFIED transcription; the group's status says `unavailable`, which check.py treats as a broken tie."""
    defs: dict = {}
    for _, f in GROUPS:
        f(defs, {})
    return {k: list(v) for k, v in defs.items()}


def regenerate() -> tuple[dict, dict]:
    import json
    defs: dict = {}
    status: dict = {}
    exprs: dict = {}
    fallback = json.loads(FALLBACK.read_text()) if FALLBACK.exists() else {}
    for name, f in GROUPS:
        part: dict = {}
        try:
            exprs[name] = f(part, status)
            defs.update(part)
        except Unavailable as e:
            status[f"Surfaces.{name}"] = f"unavailable ({e}); correspondence is the only tie"
            exprs[name] = None
    try:
        coded_methods(status)
    except Unavailable as e:
        status["Surfaces.coded_methods"] = f"unavailable ({e}); the predicates are the only tie"
    missing = [k for k in fallback if k not in defs]
    for k in missing:
        defs[k] = (fallback[k][0], "-- kernel unavailable: last verified transcription\n  " + fallback[k][1])
    if missing:
        status["Surfaces.fallback_definitions"] = missing
    lines = ["-- REGENERATED on every run by harness/translate/surfaces.py from the current source of",
             "-- potentials/test_functions.py, potentials/atomic.py, potentials/potential.py (do not edit)",
             "import TopSearch.Py.Expr", "import TopSearch.Model.Surfaces",
             "namespace TopSearch.Gen.Surfaces", "open TopSearch.Py TopSearch.Surfaces", ""]
    for k, (ty, body) in defs.items():
        lines.append(f"def {k} : {ty} :=\n  {body}\n")
    lines.append("end TopSearch.Gen.Surfaces")
    status["Gen/Surfaces.lean rewritten"] = write_if_changed("Surfaces.lean", "\n".join(lines) + "\n")
    return status, exprs


if __name__ == "__main__":
    import json
    import sys
    if "--update-fallback" in sys.argv:
        FALLBACK.write_text(json.dumps(snapshot(), indent=0))
        print(f"{FALLBACK.name}: {len(json.loads(FALLBACK.read_text()))} definitions")
