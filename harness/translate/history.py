"""Gen/History.lean: the decision kernel of `NetworkSampling.check_pair` (everything after the
counting loop, as a decision structure over repeats / has_edge / node1 / node2), what
`run_connection_attempts` appends to the attempt history, how `remove_minimum` rewrites the
history and how `add_network` maps the other network's entries — read from the current source
with `ast` (the code is never imported here).

Each kernel that cannot be located or is outside the small grammar is reported as
"unavailable" and replaced by the hand model's definition, so only a located-but-different
kernel can break a bridge lemma of Props/C13.lean."""
from __future__ import annotations

import ast

from .base import Unavailable, find_function, lean_bool, parse, write_if_changed

EXPL = "sampling/exploration.py"
KTN = "data/kinetic_transition_network.py"

_CMP = {ast.Gt: ">", ast.GtE: "≥", ast.Lt: "<", ast.LtE: "≤", ast.Eq: "=", ast.NotEq: "≠"}
_NAMES = {"repeats", "node1", "node2"}


# ----------------------------------------------------------------------------- check_pair


def _atom(n: ast.AST) -> str:
    if isinstance(n, ast.Name) and n.id in _NAMES:
        return n.id
    if isinstance(n, ast.Constant) and isinstance(n.value, int) and not isinstance(n.value, bool) \
            and n.value >= 0:
        return str(n.value)
    raise Unavailable(f"check_pair: operand `{ast.unparse(n)}` outside the grammar")


def _test(n: ast.AST) -> str:
    """a Python condition of check_pair as a decidable Lean proposition"""
    if isinstance(n, ast.BoolOp):
        op = " ∧ " if isinstance(n.op, ast.And) else " ∨ "
        return "(" + op.join(_test(v) for v in n.values) + ")"
    if isinstance(n, ast.UnaryOp) and isinstance(n.op, ast.Not):
        return f"(¬ {_test(n.operand)})"
    if isinstance(n, ast.Call):
        f = ast.unparse(n.func)
        if f.endswith("G.has_edge") and len(n.args) == 2 and not n.keywords:
            a = sorted(ast.unparse(x) for x in n.args)
            if a == ["node1", "node2"]:
                return "(hasEdge = true)"
        raise Unavailable(f"check_pair: call `{ast.unparse(n)}` outside the grammar")
    if isinstance(n, ast.Compare) and len(n.ops) == 1:
        op, lhs, rhs = n.ops[0], n.left, n.comparators[0]
        if isinstance(op, (ast.In, ast.NotIn)) and isinstance(rhs, (ast.Tuple, ast.List, ast.Set)):
            alts = " ∨ ".join(f"{_atom(lhs)} = {_atom(e)}" for e in rhs.elts) or "False"
            return f"({alts})" if isinstance(op, ast.In) else f"(¬ ({alts}))"
        if type(op) in _CMP:
            return f"({_atom(lhs)} {_CMP[type(op)]} {_atom(rhs)})"
    raise Unavailable(f"check_pair: condition `{ast.unparse(n)}` outside the grammar")


def _has_return(stmts) -> bool:
    return any(isinstance(x, ast.Return) for s in stmts for x in ast.walk(s))


def _chain(stmts: list[ast.stmt]) -> str:
    """statements after the counting loop -> nested if-then-else returning the `allowed` flag"""
    if not stmts:
        raise Unavailable("check_pair: a path ends without `return`")
    s, rest = stmts[0], stmts[1:]
    if isinstance(s, ast.Return):
        v = s.value
        if isinstance(v, ast.Tuple) and len(v.elts) == 2 and isinstance(v.elts[0], ast.Constant) \
                and isinstance(v.elts[0].value, bool) and ast.unparse(v.elts[1]) == "repeats":
            return lean_bool(v.elts[0].value)
        raise Unavailable(f"check_pair: `{ast.unparse(s)}` is not `return <bool>, repeats`")
    if isinstance(s, ast.If):
        if not _has_return(s.body) and not _has_return(s.orelse):
            _only_logging(s.body + s.orelse)
            return _chain(rest)
        return f"(if {_test(s.test)} then {_chain(s.body + rest)} else {_chain(s.orelse + rest)})"
    if isinstance(s, ast.With):
        if _has_return(s.body):
            return _chain(s.body + rest)
        _only_logging(s.body)
        return _chain(rest)
    if isinstance(s, (ast.Expr, ast.Pass)):
        return _chain(rest)
    raise Unavailable(f"check_pair: statement `{ast.unparse(s)[:40]}` outside the grammar")


def _only_logging(stmts) -> None:
    """branches without `return` may only write the log file (no assignment to repeats etc.)"""
    for s in stmts:
        for x in ast.walk(s):
            if isinstance(x, (ast.Assign, ast.AugAssign, ast.AnnAssign, ast.Delete, ast.Raise)):
                raise Unavailable("check_pair: a non-returning branch changes state")


def _counting_loop_ok(loop: ast.For) -> bool:
    """`for i in self.ktn.pairlist: if np.array_equal(i, np.sort([node1, node2])): repeats += 1`"""
    if ast.unparse(loop.iter) != "self.ktn.pairlist" or len(loop.body) != 1 or loop.orelse:
        return False
    s = loop.body[0]
    if not (isinstance(s, ast.If) and not s.orelse and len(s.body) == 1):
        return False
    t = s.test
    var = ast.unparse(loop.target)
    if not (isinstance(t, ast.Call) and ast.unparse(t.func) == "np.array_equal" and len(t.args) == 2):
        return False
    args = {ast.unparse(a) for a in t.args}
    if args not in ({var, "np.sort([node1, node2])"}, {var, "np.sort([node2, node1])"}):
        return False
    inc = s.body[0]
    return isinstance(inc, ast.AugAssign) and isinstance(inc.op, ast.Add) and \
        ast.unparse(inc.target) == "repeats" and ast.unparse(inc.value) == "1"


def check_kernel() -> str:
    fn = find_function(parse(EXPL), "check_pair", "NetworkSampling")
    if [a.arg for a in fn.args.args] != ["self", "node1", "node2"]:
        raise Unavailable("check_pair: unexpected signature")
    body = [s for s in fn.body if not (isinstance(s, ast.Expr) and isinstance(s.value, ast.Constant))]
    loops = [i for i, s in enumerate(body) if isinstance(s, ast.For)]
    if len(loops) != 1:
        raise Unavailable("check_pair: counting loop not found")
    li = loops[0]
    pre = body[:li]
    if not (len(pre) == 1 and isinstance(pre[0], ast.Assign) and ast.unparse(pre[0]) == "repeats = 0"):
        raise Unavailable("check_pair: `repeats = 0` not found before the loop")
    if not _counting_loop_ok(body[li]):
        raise Unavailable("check_pair: counting loop has an unexpected shape")
    return _chain(body[li + 1:])


# ----------------------------------------------------------------------------- run_connection_attempts


def round_sorts() -> bool:
    """the tail of run_connection_attempts: a top-level `for i in total_pairs:` whose only
    statement appends `np.array([np.sort(i)])` (sorted) or `np.array([i])` (unsorted)"""
    fn = find_function(parse(EXPL), "run_connection_attempts", "NetworkSampling")
    loops = [s for s in fn.body if isinstance(s, ast.For) and ast.unparse(s.iter) == "total_pairs"]
    if len(loops) != 1:
        raise Unavailable("run_connection_attempts: recording loop not found at top level")
    loop = loops[0]
    if fn.body[-1] is not loop or len(loop.body) != 1 or not isinstance(loop.body[0], ast.Assign):
        raise Unavailable("run_connection_attempts: recording loop has an unexpected shape")
    # the loop is reached on every path: nothing before it returns (a batch in which no search finds anything is
    # still a batch that was attempted)
    for st in fn.body[:-1]:
        for n in ast.walk(st):
            if isinstance(n, ast.Return):
                raise Unavailable("run_connection_attempts: a `return` before the recording loop — the attempted pairs "
                                  "are not recorded on every path")
    a = loop.body[0]
    var = ast.unparse(loop.target)
    if ast.unparse(a.targets[0]) != "self.ktn.pairlist" or not isinstance(a.value, ast.Call) or \
            ast.unparse(a.value.func) != "np.append" or len(a.value.args) != 2:
        raise Unavailable("run_connection_attempts: recording statement is not an np.append")
    kw = {k.arg: ast.unparse(k.value) for k in a.value.keywords}
    if ast.unparse(a.value.args[0]) != "self.ktn.pairlist" or kw != {"axis": "0"}:
        raise Unavailable("run_connection_attempts: unexpected np.append arguments")
    x = ast.unparse(a.value.args[1])
    if x == f"np.array([np.sort({var})])":
        return True
    if x == f"np.array([{var}])":
        return False
    raise Unavailable(f"run_connection_attempts: appended value `{x}` outside the grammar")


# ----------------------------------------------------------------------------- remove_minimum


_SIZE_GUARDS = {"self.pairlist.size > 0", "self.pairlist.size != 0", "len(self.pairlist) > 0",
                "self.pairlist.size >= 1"}


def history_after_remove() -> str:
    """Lean expression (in `k`, `h`) for what remove_minimum(k) makes of the history `h`"""
    fn = find_function(parse(KTN), "remove_minimum", "KineticTransitionNetwork")
    arg = fn.args.args[1].arg
    env: dict[str, str] = {}
    result: list[str] = []

    def val(n: ast.AST) -> str:
        src = ast.unparse(n)
        if src in ("self.pairlist", "self.pairlist.reshape(-1, 2)"):
            return result[-1] if result else "h"
        if isinstance(n, ast.Name) and n.id in env:
            return env[n.id]
        if isinstance(n, ast.Call) and isinstance(n.func, ast.Attribute) and n.func.attr == "reshape" \
                and [ast.unparse(a) for a in n.args] == ["-1", "2"]:
            return val(n.func.value)
        # X[~np.any(X == minimum, axis=1)]
        if isinstance(n, ast.Subscript) and isinstance(n.slice, ast.UnaryOp) and \
                isinstance(n.slice.op, ast.Invert) and isinstance(n.slice.operand, ast.Call):
            c = n.slice.operand
            f = ast.unparse(c.func)
            kw = {k.arg: ast.unparse(k.value) for k in c.keywords}
            if f in ("np.any", "np.all") and kw == {"axis": "1"} and len(c.args) == 1 and \
                    isinstance(c.args[0], ast.Compare) and len(c.args[0].ops) == 1 and \
                    isinstance(c.args[0].ops[0], ast.Eq) and \
                    ast.unparse(c.args[0].comparators[0]) == arg:
                x, y = val(n.value), val(c.args[0].left)
                if x != y:
                    raise Unavailable("remove_minimum: mask built from another array")
                op = "||" if f == "np.any" else "&&"
                return f"(({x}).filter (fun p => !(p.1 == k {op} p.2 == k)))"
        # X - (X > minimum)
        if isinstance(n, ast.BinOp) and isinstance(n.op, ast.Sub) and isinstance(n.right, ast.Compare) \
                and len(n.right.ops) == 1 and type(n.right.ops[0]) in (ast.Gt, ast.GtE) and \
                ast.unparse(n.right.comparators[0]) == arg:
            x, y = val(n.left), val(n.right.left)
            if x != y:
                raise Unavailable("remove_minimum: shift built from another array")
            op = _CMP[type(n.right.ops[0])]
            return (f"(({x}).map (fun p => (p.1 - (if p.1 {op} k then 1 else 0), "
                    f"p.2 - (if p.2 {op} k then 1 else 0))))")
        raise Unavailable(f"remove_minimum: `{src[:50]}` outside the grammar")

    def visit(stmts) -> None:
        for s in stmts:
            if isinstance(s, ast.If):
                touches = any("pairlist" in ast.unparse(x) for x in ast.walk(s))
                if not touches:
                    continue
                if ast.unparse(s.test) not in _SIZE_GUARDS or s.orelse:
                    raise Unavailable("remove_minimum: history update under an unexpected condition")
                visit(s.body)
            elif isinstance(s, ast.Assign) and len(s.targets) == 1:
                t = ast.unparse(s.targets[0])
                if t == "self.pairlist":
                    result.append(val(s.value))
                elif isinstance(s.targets[0], ast.Name) and "pair" in ast.unparse(s.value):
                    env[t] = val(s.value)
            elif "pairlist" in ast.unparse(s):
                raise Unavailable("remove_minimum: unexpected statement touching the history")

    visit(fn.body)
    return result[-1] if result else "h"


# ----------------------------------------------------------------------------- add_network


def merge_flags() -> tuple[bool, bool, bool]:
    """(maps through index_map, skips unmatched, sorts) for the history loop of add_network"""
    fn = find_function(parse(KTN), "add_network", "KineticTransitionNetwork")
    other = fn.args.args[1].arg
    loops = [s for s in fn.body if isinstance(s, ast.For) and ast.unparse(s.iter) == f"{other}.pairlist"]
    if len(loops) != 1:
        raise Unavailable("add_network: history loop not found")
    loop = loops[0]
    var = ast.unparse(loop.target)
    mapped_var = None
    skips = False
    appended = None
    for s in loop.body:
        src = ast.unparse(s)
        if isinstance(s, ast.Assign) and isinstance(s.targets[0], ast.Name) and \
                ast.unparse(s.value) == f"[index_map[{var}[0]], index_map[{var}[1]]]":
            mapped_var = s.targets[0].id
        elif isinstance(s, ast.If) and mapped_var and ast.unparse(s.test) == f"None in {mapped_var}" \
                and len(s.body) == 1 and isinstance(s.body[0], ast.Continue) and not s.orelse:
            skips = True
        elif isinstance(s, ast.Assign) and ast.unparse(s.targets[0]) == "self.pairlist" and \
                isinstance(s.value, ast.Call) and ast.unparse(s.value.func) == "np.append" and \
                len(s.value.args) == 2 and \
                ast.unparse(s.value.args[0]) in ("self.pairlist", "self.pairlist.reshape(-1, 2)") and \
                {k.arg: ast.unparse(k.value) for k in s.value.keywords} == {"axis": "0"}:
            appended = ast.unparse(s.value.args[1])
        else:
            raise Unavailable(f"add_network: statement `{src[:40]}` outside the grammar")
    if appended is None:
        raise Unavailable("add_network: no append to the history")
    # index_map must be filled with the index each minimum of the other network received
    fills = [ast.unparse(s) for s in ast.walk(fn) if isinstance(s, ast.Expr) and
             ast.unparse(s).startswith("index_map.append(")]
    if mapped_var and not (len(fills) == 1 and fills[0].replace(" ", "").endswith(
            ".is_new_minimum(self,coords,energy)[1])")):
        raise Unavailable("add_network: index_map is filled in an unexpected way")
    for src, maps in ((mapped_var, True), (var, False)):
        if src is None:
            continue
        if appended == f"np.array([np.sort({src})])":
            return maps, skips, True
        if appended == f"np.array([{src}])":
            return maps, skips, False
    raise Unavailable(f"add_network: appended value `{appended}` outside the grammar")


# ----------------------------------------------------------------------------- emit


def regenerate() -> dict:
    status: dict = {}
    try:
        kern = check_kernel()
        status["History.checkKernel"] = kern
    except Unavailable as e:
        kern = "TopSearch.History.checkKernel repeats hasEdge node1 node2"
        status["History.checkKernel"] = f"unavailable ({e}); correspondence is the only tie"
    try:
        rs = round_sorts()
        status["History.roundSorts"] = rs
    except Unavailable as e:
        rs = True
        status["History.roundSorts"] = f"unavailable ({e})"
    try:
        har = history_after_remove()
        status["History.historyAfterRemove"] = har
    except Unavailable as e:
        har = "TopSearch.Ktn.historyAfterRemove true k h"
        status["History.historyAfterRemove"] = f"unavailable ({e})"
    try:
        mm, ms, mo = merge_flags()
        status["History.merge(maps,skipsUnmatched,sorts)"] = [mm, ms, mo]
    except Unavailable as e:
        mm, ms, mo = True, True, True
        status["History.merge(maps,skipsUnmatched,sorts)"] = f"unavailable ({e})"
    text = (
        "-- REGENERATED on every run by harness/translate/history.py from\n"
        "-- src/topsearch/sampling/exploration.py (check_pair, run_connection_attempts) and\n"
        "-- src/topsearch/data/kinetic_transition_network.py (remove_minimum, add_network) (do not edit)\n"
        "import TopSearch.Model.History\n"
        "namespace TopSearch.Gen.History\n"
        "/-- `check_pair` after the counting loop: the returned `allowed` flag -/\n"
        "def checkKernel (repeats : Nat) (hasEdge : Bool) (node1 node2 : Nat) : Bool :=\n"
        f"  {kern}\n"
        "/-- what `remove_minimum(k)` makes of the history `h` -/\n"
        "def historyAfterRemove (k : Nat) (h : List (Nat × Nat)) : List (Nat × Nat) :=\n"
        f"  {har}\n"
        "def cfg : TopSearch.History.Cfg :=\n"
        f"  {{ roundSorts := {lean_bool(rs)}, mergeMaps := {lean_bool(mm)}, "
        f"mergeSkipsUnmatched := {lean_bool(ms)}, mergeSorts := {lean_bool(mo)} }}\n"
        "end TopSearch.Gen.History\n")
    status["Gen/History.lean rewritten"] = write_if_changed("History.lean", text)
    return status
