"""Gen/HashSites.lean: every place in src/topsearch where a `set` is built (set(...) call,
set literal, set comprehension) — the only containers whose iteration order can depend on the
interpreter's hash seed.  Each site is recorded as (file, function, normalised source of the
expression, with the function's own local names replaced by v0, v1, … in order of first binding so that renaming a
local does not move a site off the list).  The justified list lives in the Lean file next to the theorem that checks
inclusion."""
from __future__ import annotations

import ast

from common import SRC
from .base import write_if_changed

# sites known to be safe, with the reason (kept in Python only to *print* the reason in the evidence;
# the list that counts is `justified` in the generated Lean file, compared by the theorem)
JUSTIFIED = [
    ("analysis/graph_properties.py", "unconnected_component", "set(range(ktn.n_minima))", "ints"),
    ("analysis/graph_properties.py", "unconnected_component", "set(v2)", "ints (connected_set)"),
    ("analysis/pair_selection.py", "connect_to_set", "set(range(ktn.n_minima))", "ints"),
    ("analysis/pair_selection.py", "connect_to_set", "set(v0)", "ints (s_set)"),
    ("analysis/pair_selection.py", "connect_to_set", "set()", "empty"),
    ("analysis/pair_selection.py", "unique_pairs", "set(v0)", "tuples of ints (final_pairs)"),
    ("analysis/batch_selection.py", "get_excluded_minima", "set(v2)", "ints (excluded_minima)"),
    ("data/coordinates.py", "get_rotatable_dihedrals", "set((tuple(v11) for v11 in self.rotatable_dihedrals))",
     "tuples of ints (atom indices)"),
    ("data/coordinates.py", "get_rotatable_dihedrals", "set((tuple(v11) for v11 in v8))",
     "tuples of ints (atom indices)"),
    ("data/coordinates.py", "remove_repeat_angles", "set([v1[1] for v1 in angles])", "ints (atom indices)"),
    ("global_optimisation/perturbations.py", "perturb", "random.sample(…)",
     "Python's random module, seeded by the caller; basin-hopping steps never run inside a pool worker"),
    ("global_optimisation/perturbations.py", "perturb", "random.random(…)",
     "Python's random module, seeded by the caller; basin-hopping steps never run inside a pool worker"),
    ("similarity/molecular_similarity.py", "get_permutable_groups", "set(coords1.atom_labels)",
     "strings: order irrelevant by C11_group_order_irrelevant"),
    ("similarity/molecular_similarity.py", "get_permutable_groups",
     "set((tuple(sorted(v13)) for v13 in v10))",
     "tuples of strings: order irrelevant by C11_group_order_irrelevant"),
]


class _Rename(ast.NodeTransformer):
    def __init__(self, names):
        self.names = names

    def visit_Name(self, node):
        return ast.copy_location(ast.Name(id=self.names.get(node.id, node.id), ctx=node.ctx), node)


def local_names(fn: ast.FunctionDef) -> dict[str, str]:
    """the names a function binds itself (not its parameters), numbered in textual order of first binding: a site is
    recorded with these renamed, so that renaming a local does not move a justified site off the list"""
    params = {a.arg for a in fn.args.args + fn.args.kwonlyargs + fn.args.posonlyargs}
    stores = sorted(((n.lineno, n.col_offset, n.id) for n in ast.walk(fn)
                     if isinstance(n, ast.Name) and isinstance(n.ctx, ast.Store) and n.id not in params))
    out: dict[str, str] = {}
    for _, _, name in stores:
        out.setdefault(name, f"v{len(out)}")
    return out


def scan() -> list[tuple[str, str, str]]:
    sites = []
    for path in sorted(SRC.rglob("*.py")):
        rel = str(path.relative_to(SRC))
        tree = ast.parse(path.read_text())
        funcs = []
        renames = []
        stdlib_random = None
        for n in ast.walk(tree):
            if isinstance(n, ast.Import):
                for a in n.names:
                    if a.name == "random":
                        stdlib_random = a.asname or "random"
            elif isinstance(n, ast.ImportFrom) and n.module == "random":
                sites.append((rel, "<module>", "from random import " + ", ".join(a.name for a in n.names)))

        class V(ast.NodeVisitor):
            def visit_FunctionDef(self, node):
                funcs.append(node.name)
                renames.append(local_names(node))
                self.generic_visit(node)
                funcs.pop()
                renames.pop()

            def _site(self, node):
                import copy
                n2 = _Rename(renames[-1]).visit(copy.deepcopy(node)) if renames else node
                sites.append((rel, funcs[-1] if funcs else "<module>", ast.unparse(n2)))

            def visit_Call(self, node):
                if isinstance(node.func, ast.Name) and node.func.id in ("set", "frozenset"):
                    self._site(node)
                # other ways for the hash seed, an address or OS entropy to reach a result: the built-in hash() / id(),
                # a generator created without a seed, the entropy sources
                src = ast.unparse(node.func)
                if (isinstance(node.func, ast.Name) and node.func.id in ("hash", "id")) or \
                        (src.endswith("default_rng") and not node.args and not node.keywords) or \
                        src.split(".")[-1] in ("SystemRandom", "urandom", "uuid4", "uuid1", "token_bytes", "getrandbits_os") or \
                        (src.split(".")[-1] == "RandomState" and not node.args and not node.keywords) or \
                        (src.split(".")[-1] == "seed" and not node.args and not node.keywords):
                    self._site(node)
                # Python's own `random` module is re-seeded from OS entropy in every forked child
                # (os.register_at_fork), unlike numpy's global generator, which a worker inherits: a draw from it is
                # reproducible only in code that never runs inside a pool worker
                if stdlib_random and isinstance(node.func, ast.Attribute) and isinstance(node.func.value, ast.Name) \
                        and node.func.value.id == stdlib_random and node.func.attr != "seed":
                    sites.append((rel, funcs[-1] if funcs else "<module>", f"{stdlib_random}.{node.func.attr}(…)"))
                self.generic_visit(node)

            def visit_Set(self, node):
                self._site(node)
                self.generic_visit(node)

            def visit_SetComp(self, node):
                self._site(node)
                self.generic_visit(node)
        V().visit(tree)
    return sites


def pool_method() -> str:
    """which Pool method hands the pairs to the workers in run_connection_attempts, and on which
    source array `permutational_alignment` builds the cost matrix of the second structure"""
    tree = ast.parse((SRC / "sampling" / "exploration.py").read_text())
    found = []
    for n in ast.walk(tree):
        if isinstance(n, ast.Call) and isinstance(n.func, ast.Attribute) and isinstance(n.func.value, ast.Name) \
                and n.func.value.id == "pool" and n.args and "connection_attempt" in ast.unparse(n.args[0]):
            found.append(n.func.attr)
    return found[0] if len(found) == 1 else "unavailable"


def cost_matrix_source() -> str:
    tree = ast.parse((SRC / "similarity" / "molecular_similarity.py").read_text())
    for fn in ast.walk(tree):
        if isinstance(fn, ast.FunctionDef) and fn.name == "permutational_alignment":
            for n in ast.walk(fn):
                if isinstance(n, ast.Assign) and ast.unparse(n.targets[0]) == "coords2_element":
                    src = ast.unparse(n.value)
                    if "permuted" in src:
                        return "working-copy"
                    if "coords2" in src:
                        return "pristine"
    return "unavailable"


def _q(s: str) -> str:
    return '"' + s.replace("\\", "\\\\").replace('"', '\\"') + '"'


def regenerate() -> dict:
    sites = scan()
    status = {"HashSites.count": len(sites),
              "HashSites.unjustified": [list(s) for s in sites if s not in [j[:3] for j in JUSTIFIED]]}
    lines = ["-- REGENERATED on every run by harness/translate/hash_sites.py (do not edit):",
             "-- `sites` = every set construction found in the current /repo/src/topsearch;",
             "-- `justified` = the sites whose iteration order cannot influence results, with the reason.",
             "namespace TopSearch.Gen.HashSites",
             "abbrev Site := String × String × String", "",
             "def sites : List Site := ["]
    lines.append(",\n".join(f"  ({_q(a)}, {_q(b)}, {_q(c)})" for a, b, c in sites))
    lines.append("]\n")
    lines.append("/-- reason per site: element type int / int tuple (CPython's hash of these does not depend on")
    lines.append("    PYTHONHASHSEED), or the string sets of `get_permutable_groups` (order irrelevant:")
    lines.append("    `C11_group_order_irrelevant`) -/")
    lines.append("def justified : List Site := [")
    lines.append(",\n".join(f"  ({_q(a)}, {_q(b)}, {_q(c)})  -- {r}" if i == len(JUSTIFIED) - 1 else
                            f"  ({_q(a)}, {_q(b)}, {_q(c)}),  -- {r}" for i, (a, b, c, r) in enumerate(JUSTIFIED)))
    pm, cs = pool_method(), cost_matrix_source()
    status["HashSites.poolMethod"] = pm
    status["HashSites.costMatrixSource"] = cs
    lines.append("]\n")
    lines.append("/-- the Pool method that hands the pairs to the workers (`map` blocks until every task has been")
    lines.append("    dispatched and returns results by index; anything lazier lets the parent merge while later tasks")
    lines.append("    are still being pickled) -/")
    lines.append(f"def poolMethod : String := {_q('map' if pm == 'unavailable' else pm)}")
    lines.append("/-- `permutational_alignment` reads the second structure's atoms from the untouched input")
    lines.append("    (`pristine`), not from the working copy it is overwriting group by group -/")
    lines.append(f"def costMatrixSource : String := {_q('pristine' if cs == 'unavailable' else cs)}")
    lines.append("end TopSearch.Gen.HashSites")
    status["Gen/HashSites.lean rewritten"] = write_if_changed("HashSites.lean", "\n".join(lines) + "\n")
    return status
