"""Kernel translator for the graph analyses and the batch selectors (C18, C17).

Reads, with `ast` only, from the *current* source:
  graph_properties.py   remove_edges_threshold: the removal test `ts_energy > energy1`
                        disconnected_height: `intervals = 510`, the start offset `10*(…)`, the
                        iteration count `range(intervals+20)`, the sentinel `1e10`
                        unconnected_component: np.argmin / np.argmax
  roughness.py          the guard `n_minima in (0, 1)`, the clamp test `ts_energy < min_energy`
  batch_selection.py    sufficient_barrier: `height > 1e9`, `min(b1, b2) < cutoff`
                        monotonic_batch_selector: `energy(min2) <= energy_i`
                        barrier_batch_selector: the skip test (in current / in excluded), `1e5`
                        generate_batch: the four dispatch strings
and writes them as the two configuration records of Gen/Graph.lean.  Comparisons are normalised
(`b < a` = `a > b`, `not a <= b` = `a > b`) so an equivalent rewrite gives the same record; a
semantic change gives a different record and the bridge lemmas `Gen.Graph.cfg = stdCfg`,
`Gen.Graph.bcfg = stdBCfg` fail.  Anything that cannot be located is reported "unavailable" and
takes the standard value (the correspondence is then the only tie for it).
"""
from __future__ import annotations

import ast

from translate.base import Unavailable, find_function, inline_pure_locals, parse, write_if_changed, lean_bool

GP = "analysis/graph_properties.py"
RO = "analysis/roughness.py"
BS = "analysis/batch_selection.py"

_OPS = {ast.Lt: "lt", ast.LtE: "le", ast.Gt: "gt", ast.GtE: "ge"}
_FLIP = {"lt": "gt", "le": "ge", "gt": "lt", "ge": "le"}
_NEG = {"lt": "ge", "le": "gt", "gt": "le", "ge": "lt"}


def _mentions(node: ast.AST, name: str) -> bool:
    return name in ast.unparse(node)


def cmp_between(fn: ast.AST, left: str, right: str) -> str:
    """the comparison `<left> OP <right>` (normalised) found in an `if` test of `fn`"""
    found = []
    for n in ast.walk(fn):
        if not isinstance(n, ast.If):
            continue
        test, neg = n.test, False
        while isinstance(test, ast.UnaryOp) and isinstance(test.op, ast.Not):
            test, neg = test.operand, not neg
        if not (isinstance(test, ast.Compare) and len(test.ops) == 1 and type(test.ops[0]) in _OPS):
            continue
        a, b = test.left, test.comparators[0]
        op = _OPS[type(test.ops[0])]
        if _mentions(a, left) and _mentions(b, right) and not _mentions(a, right):
            pass
        elif _mentions(a, right) and _mentions(b, left) and not _mentions(a, left):
            op = _FLIP[op]
        else:
            continue
        found.append(_NEG[op] if neg else op)
    if len(found) != 1:
        raise Unavailable(f"comparison {left} ? {right}: found {len(found)}")
    return found[0]


def const_nat(node: ast.AST, env: dict[str, int]) -> int:
    """fold an integer-valued constant expression (names from `env`)"""
    if isinstance(node, ast.Constant) and isinstance(node.value, (int, float)) \
            and not isinstance(node.value, bool):
        v = node.value
        if float(v) != int(v) or v < 0:
            raise Unavailable(f"constant {v!r} is not a natural number")
        return int(v)
    if isinstance(node, ast.Name) and node.id in env:
        return env[node.id]
    if isinstance(node, ast.BinOp) and isinstance(node.op, (ast.Add, ast.Mult, ast.Sub)):
        a, b = const_nat(node.left, env), const_nat(node.right, env)
        r = a + b if isinstance(node.op, ast.Add) else a * b if isinstance(node.op, ast.Mult) else a - b
        if r < 0:
            raise Unavailable("negative constant")
        return r
    raise Unavailable(f"not a constant: {ast.unparse(node)}")


def assigned(fn: ast.AST, name: str) -> list[ast.AST]:
    return [n.value for n in ast.walk(fn) if isinstance(n, ast.Assign) and len(n.targets) == 1
            and isinstance(n.targets[0], ast.Name) and n.targets[0].id == name]


def scan_constants(fn: ast.FunctionDef) -> dict:
    fn = inline_pure_locals(fn, {"intervals", "initial_energy", "energy"})
    vals = assigned(fn, "intervals")
    if len(vals) != 1:
        raise Unavailable("intervals")
    intervals = const_nat(vals[0], {})
    env = {"intervals": intervals}
    # initial_energy = max_ts_energy + (C*(e_range/intervals))
    init = assigned(fn, "initial_energy")
    if len(init) != 1:
        raise Unavailable("initial_energy")
    e = init[0]
    step = "e_range / intervals"
    if not (isinstance(e, ast.BinOp) and isinstance(e.op, ast.Add)
            and ast.unparse(e.left) == "max_ts_energy" and isinstance(e.right, ast.BinOp)
            and isinstance(e.right.op, ast.Mult)):
        raise Unavailable("initial_energy shape")
    l, r = e.right.left, e.right.right
    if ast.unparse(r) == step:
        offset = const_nat(l, env)
    elif ast.unparse(l) == step:
        offset = const_nat(r, env)
    else:
        raise Unavailable("initial_energy step")
    # energy = initial_energy - (k*(e_range/intervals))
    en = assigned(fn, "energy")
    loops = [n for n in ast.walk(fn) if isinstance(n, ast.For)]
    if len(en) != 1 or len(loops) != 1:
        raise Unavailable("scan loop")
    loop = loops[0]
    var = ast.unparse(loop.target)
    if ast.unparse(en[0]) not in (f"initial_energy - {var} * ({step})", f"initial_energy - {step} * {var}"):
        raise Unavailable("threshold formula: " + ast.unparse(en[0]))
    it = loop.iter
    if not (isinstance(it, ast.Call) and ast.unparse(it.func) == "range" and len(it.args) == 1):
        raise Unavailable("range")
    iters = const_nat(it.args[0], env)
    # sentinel: every `return <constant>` of the function
    sent = {const_nat(n.value, {}) for n in ast.walk(fn)
            if isinstance(n, ast.Return) and isinstance(n.value, ast.Constant)}
    if len(sent) != 1:
        raise Unavailable("sentinel")
    return {"intervals": intervals, "startOffset": offset, "iters": iters, "sentinel": sent.pop()}


def uses_argmin(fn: ast.FunctionDef) -> bool:
    calls = [ast.unparse(n.func) for n in ast.walk(fn) if isinstance(n, ast.Call)]
    a, b = "np.argmin" in calls, "np.argmax" in calls
    if a == b:
        raise Unavailable("argmin/argmax")
    return a


def rough_small(fn: ast.FunctionDef) -> list[int]:
    for n in ast.walk(fn):
        if isinstance(n, ast.If) and isinstance(n.test, ast.Compare) and len(n.test.ops) == 1 \
                and isinstance(n.test.ops[0], ast.In) and _mentions(n.test.left, "n_minima") \
                and isinstance(n.test.comparators[0], (ast.Tuple, ast.List, ast.Set)):
            return sorted({const_nat(x, {}) for x in n.test.comparators[0].elts})
    # equivalent spelling: n_minima < 2 / n_minima <= 1
    for n in ast.walk(fn):
        if isinstance(n, ast.If) and isinstance(n.test, ast.Compare) and len(n.test.ops) == 1 \
                and _mentions(n.test.left, "n_minima") and isinstance(n.test.ops[0], (ast.Lt, ast.LtE)):
            k = const_nat(n.test.comparators[0], {})
            return list(range(k if isinstance(n.test.ops[0], ast.Lt) else k + 1))
    raise Unavailable("small-network guard")


def sufficient_kernel(fn: ast.FunctionDef) -> dict:
    out = {}
    # height > 1e9
    found = []
    for n in ast.walk(fn):
        if isinstance(n, ast.If) and isinstance(n.test, ast.Compare) and len(n.test.ops) == 1 \
                and type(n.test.ops[0]) in _OPS:
            a, b = n.test.left, n.test.comparators[0]
            op = _OPS[type(n.test.ops[0])]
            if ast.unparse(a) == "height" and isinstance(b, ast.Constant):
                found.append((op, const_nat(b, {})))
            elif ast.unparse(b) == "height" and isinstance(a, ast.Constant):
                found.append((_FLIP[op], const_nat(a, {})))
    if len(found) != 1:
        raise Unavailable("sentinel test")
    out["sentCmp"], out["sentThr"] = found[0]
    # min(barrier1, barrier2) < absolute_barrier_cutoff
    found = []
    for n in ast.walk(fn):
        if isinstance(n, ast.If) and isinstance(n.test, ast.Compare) and len(n.test.ops) == 1 \
                and type(n.test.ops[0]) in _OPS:
            a, b = n.test.left, n.test.comparators[0]
            op = _OPS[type(n.test.ops[0])]
            if ast.unparse(b).endswith("barrier_cutoff"):
                agg = a
            elif ast.unparse(a).endswith("barrier_cutoff"):
                agg, op = b, _FLIP[op]
            else:
                continue
            if isinstance(agg, ast.Call) and ast.unparse(agg.func) in ("min", "max", "np.minimum", "np.maximum") \
                    and sorted(ast.unparse(x) for x in agg.args) == ["barrier1", "barrier2"]:
                found.append((op, ast.unparse(agg.func) in ("min", "np.minimum")))
    if len(found) != 1:
        raise Unavailable("barrier test")
    out["barrierCmp"], out["useMin"] = found[0]
    # the branch must reject: `return False` under the test, `return True` at the end
    rets = [n.value.value for n in sorted((n for n in ast.walk(fn) if isinstance(n, ast.Return)
                                           and isinstance(n.value, ast.Constant)),
                                          key=lambda n: n.lineno)]
    if rets != [False, False, True]:
        raise Unavailable("return pattern of sufficient_barrier")
    return out


def barrier_skip(fn: ast.FunctionDef) -> tuple[bool, bool]:
    for n in ast.walk(fn):
        if isinstance(n, ast.If) and n.body and isinstance(n.body[0], ast.Continue):
            parts = n.test.values if isinstance(n.test, ast.BoolOp) and isinstance(n.test.op, ast.Or) \
                else [n.test]
            srcs = [ast.unparse(p) for p in parts]
            if all(isinstance(p, ast.Compare) and isinstance(p.ops[0], ast.In) for p in parts):
                return ("i in current_batch_indices" in srcs, "i in excluded_minima" in srcs)
    raise Unavailable("skip test of barrier_batch_selector")


def no_ts_max(fn: ast.FunctionDef) -> int:
    vals = [v for v in assigned(fn, "max_ts_energy") if isinstance(v, ast.Constant)]
    if len(vals) != 1:
        raise Unavailable("max_ts_energy default")
    return const_nat(vals[0], {})


def scan_range_includes_ts(fn: ast.FunctionDef) -> bool:
    """which expression barrier_batch_selector passes as e_range"""
    vals = assigned(fn, "e_range")
    if len(vals) != 1:
        raise Unavailable("e_range")
    src = ast.unparse(vals[0]).replace(" ", "")
    new = ("max(np.max(energies),max_ts_energy)-np.min(energies)",
           "max(max_ts_energy,np.max(energies))-np.min(energies)")
    if src in new:
        return True
    if src == "np.max(energies)-np.min(energies)":
        return False
    raise Unavailable("e_range expression: " + src)


def scheme_strings(fn: ast.FunctionDef) -> list[str]:
    """the strings of the if/elif chain, ordered by the selector each branch calls"""
    by_sel = {}
    for n in ast.walk(fn):
        if isinstance(n, ast.If) and isinstance(n.test, ast.Compare) and len(n.test.ops) == 1 \
                and isinstance(n.test.ops[0], ast.Eq) and isinstance(n.test.comparators[0], ast.Constant) \
                and isinstance(n.test.comparators[0].value, str):
            calls = [ast.unparse(c.func) for s in n.body for c in ast.walk(s) if isinstance(c, ast.Call)]
            if len(calls) == 1:
                by_sel[calls[0]] = n.test.comparators[0].value
    want = ["lowest_batch_selector", "monotonic_batch_selector", "barrier_batch_selector",
            "topographical_batch_selector"]
    if sorted(by_sel) != sorted(want):
        raise Unavailable("dispatch chain of generate_batch")
    return [by_sel[w] for w in want]


def regenerate() -> dict:
    status: dict = {}
    g = {"rmCmp": "gt", "intervals": 510, "startOffset": 10, "iters": 530, "useArgmin": True,
         "roughSmall": [0, 1], "roughCmp": "lt"}
    b = {"monoCmp": "le", "sentCmp": "gt", "sentThr": 10 ** 9, "sentinel": 10 ** 10, "useMin": True,
         "barrierCmp": "lt", "noTsMax": 10 ** 5, "barrierSkipsCurrent": True,
         "barrierSkipsExcluded": True, "scanRangeIncludesTs": True, "schemes": ["Lowest", "Monotonic", "Barrier", "Topographical"]}

    def attempt(label, thunk):
        try:
            thunk()
            status[label] = "read"
        except Unavailable as e:
            status[label] = f"unavailable ({e}); correspondence is the only tie"
        except Exception as e:  # outside the grammar
            status[label] = f"unavailable ({type(e).__name__}: {e})"

    gp = ro = bs = None
    try:
        gp = parse(GP)
    except Unavailable as e:
        status[GP] = f"unavailable ({e})"
    try:
        ro = parse(RO)
    except Unavailable as e:
        status[RO] = f"unavailable ({e})"
    try:
        bs = parse(BS)
    except Unavailable as e:
        status[BS] = f"unavailable ({e})"

    if gp is not None:
        attempt("remove_edges_threshold.test", lambda: g.update(
            rmCmp=cmp_between(find_function(gp, "remove_edges_threshold"), "ts_energy", "energy1")))

        def scan():
            c = scan_constants(find_function(gp, "disconnected_height"))
            g.update(intervals=c["intervals"], startOffset=c["startOffset"], iters=c["iters"])
            b.update(sentinel=c["sentinel"])
        attempt("disconnected_height.constants", scan)
        attempt("unconnected_component.argmin", lambda: g.update(
            useArgmin=uses_argmin(find_function(gp, "unconnected_component"))))
    if ro is not None:
        attempt("roughness_metric.small_guard", lambda: g.update(
            roughSmall=rough_small(find_function(ro, "roughness_metric"))))
        attempt("roughness_metric.clamp_test", lambda: g.update(
            roughCmp=cmp_between(find_function(ro, "roughness_metric"), "ts_energy", "min_energy")))
    if bs is not None:
        attempt("sufficient_barrier.tests", lambda: b.update(
            sufficient_kernel(find_function(bs, "sufficient_barrier"))))
        attempt("monotonic_batch_selector.test", lambda: b.update(
            monoCmp=cmp_between(find_function(bs, "monotonic_batch_selector"), "min2", "energy_i")))

        def skip():
            c, e = barrier_skip(find_function(bs, "barrier_batch_selector"))
            b.update(barrierSkipsCurrent=c, barrierSkipsExcluded=e)
        attempt("barrier_batch_selector.skip", skip)
        attempt("barrier_batch_selector.no_ts_default", lambda: b.update(
            noTsMax=no_ts_max(find_function(bs, "barrier_batch_selector"))))
        attempt("barrier_batch_selector.e_range", lambda: b.update(
            scanRangeIncludesTs=scan_range_includes_ts(find_function(bs, "barrier_batch_selector"))))
        attempt("generate_batch.schemes", lambda: b.update(
            schemes=scheme_strings(find_function(bs, "generate_batch"))))

    def lean_list(xs, f):
        return "[" + ", ".join(f(x) for x in xs) + "]"

    text = (
        "-- REGENERATED on every run by harness/translate/graph.py from\n"
        "-- /repo/src/topsearch/analysis/{graph_properties,roughness,batch_selection}.py (do not edit)\n"
        "import TopSearch.Model.Graph\n"
        "import TopSearch.Model.Batch\n"
        "namespace TopSearch.Gen.Graph\n"
        "def cfg : TopSearch.Graph.Cfg :=\n"
        f"  {{ rmCmp := .{g['rmCmp']}, intervals := {g['intervals']}, startOffset := {g['startOffset']},\n"
        f"    iters := {g['iters']}, useArgmin := {lean_bool(g['useArgmin'])},\n"
        f"    roughSmall := {lean_list(g['roughSmall'], str)}, roughCmp := .{g['roughCmp']} }}\n"
        "def bcfg : TopSearch.Batch.BCfg :=\n"
        f"  {{ monoCmp := .{b['monoCmp']}, sentCmp := .{b['sentCmp']}, sentThr := {b['sentThr']},\n"
        f"    sentinel := {b['sentinel']}, useMin := {lean_bool(b['useMin'])}, barrierCmp := .{b['barrierCmp']},\n"
        f"    noTsMax := {b['noTsMax']}, barrierSkipsCurrent := {lean_bool(b['barrierSkipsCurrent'])},\n"
        f"    barrierSkipsExcluded := {lean_bool(b['barrierSkipsExcluded'])},\n"
        f"    scanRangeIncludesTs := {lean_bool(b['scanRangeIncludesTs'])},\n"
        f"    schemes := {lean_list(b['schemes'], lambda s: chr(34) + s + chr(34))} }}\n"
        "end TopSearch.Gen.Graph\n")
    status["Gen/Graph.lean rewritten"] = write_if_changed("Graph.lean", text)
    status["Graph.cfg"] = g
    status["Graph.bcfg"] = b
    return status
