"""Gen/Neb.lean: the decision kernels, constants and operators of NudgedElasticBand that the C09
theorems depend on, read from the *current* source with `ast` (the code is never imported).

Extracted (each independently; a kernel that cannot be located or parsed is recorded as
"unavailable" and replaced by the modelled value so that the correspondence remains the only tie):

  linear_interpolation / dihedral_interpolation
        the clamp after `self.n_images = int(self.image_density*dist)`: the if/elif chain with its
        operators and constants (`< 10`, `= 10`, `> self.max_images`) -> `clampLinear/clampDihedral`
  update_image_density      the product `original_image_density*1.5*attempts` -> constant as a fraction
  revert_image_density      assigns `self.image_density = self.original_image_density`
  initial_interpolation     the guards of update and revert (`attempts > 0`), update before and
                            revert after the interpolation call
  find_ts_candidates        loop range `(1, n_images-1)`, the `>=` pair
  find_tangent_differences  thresholds `>= 1`, `<= -1`, `== 0`, the selected neighbour difference in each
                            case, the extremum test and its weights, the literal in front of np.diff(band)
  perpendicular_component   the `< 1e-13` cut-off
  band_function_gradient    end rows (`potential_gradient[0]`, `[-1]` zero-filled; `band_gradient` starts
                            as zeros and rows are assembled only for `range(1, n_images-1)`), the literal in
                            front of `np.diff(distances)` (spring sign) and of `np.diff(band)`
"""
from __future__ import annotations

import ast
from fractions import Fraction

from .base import Unavailable, find_function, lean_bool, parse, write_if_changed

FILE = "transition_states/nudged_elastic_band.py"
CLS = "NudgedElasticBand"

_CMP = {ast.Lt: "<", ast.LtE: "≤", ast.Gt: ">", ast.GtE: "≥", ast.Eq: "=", ast.NotEq: "≠"}


def _num(node: ast.AST) -> Fraction:
    """numeric literal (possibly signed) as an exact fraction of the double it denotes"""
    if isinstance(node, ast.UnaryOp) and isinstance(node.op, ast.USub):
        return -_num(node.operand)
    if isinstance(node, ast.UnaryOp) and isinstance(node.op, ast.UAdd):
        return _num(node.operand)
    if isinstance(node, ast.Constant) and isinstance(node.value, (int, float)) \
            and not isinstance(node.value, bool):
        return Fraction(node.value)
    raise Unavailable(f"not a numeric literal: {ast.unparse(node)}")


def _int_expr(node: ast.AST, names: dict[str, str]) -> str:
    """integer expression over the given names -> Lean `Int` term"""
    src = ast.unparse(node)
    if src in names:
        return names[src]
    if isinstance(node, ast.BinOp) and isinstance(node.op, (ast.Add, ast.Sub)):
        op = "+" if isinstance(node.op, ast.Add) else "-"
        return f"({_int_expr(node.left, names)} {op} {_int_expr(node.right, names)})"
    f = _num(node)
    if f.denominator != 1:
        raise Unavailable(f"non-integer constant {src}")
    return f"({f.numerator} : Int)"


def _cmp(node: ast.AST, names: dict[str, str]) -> str:
    """comparison / and / or / not over integer expressions -> Lean Prop"""
    if isinstance(node, ast.BoolOp):
        op = " ∧ " if isinstance(node.op, ast.And) else " ∨ "
        return "(" + op.join(_cmp(v, names) for v in node.values) + ")"
    if isinstance(node, ast.UnaryOp) and isinstance(node.op, ast.Not):
        return f"(¬ {_cmp(node.operand, names)})"
    if isinstance(node, ast.Compare) and len(node.ops) == 1 and type(node.ops[0]) in _CMP:
        return (f"({_int_expr(node.left, names)} {_CMP[type(node.ops[0])]} "
                f"{_int_expr(node.comparators[0], names)})")
    raise Unavailable(f"comparison outside the grammar: {ast.unparse(node)}")


# ------------------------------------------------------------------ clamp


def clamp_kernel(fn: ast.FunctionDef) -> tuple[str, bool]:
    """the if/elif chain that follows `self.n_images = int(self.image_density*dist)`"""
    names = {"self.n_images": "raw", "self.max_images": "maxImages"}
    body = fn.body
    idx = None
    raw_ok = False
    for i, s in enumerate(body):
        if isinstance(s, ast.Assign) and ast.unparse(s.targets[0]) == "self.n_images":
            idx = i
            v = s.value
            raw_ok = (isinstance(v, ast.Call) and ast.unparse(v.func) == "int" and len(v.args) == 1
                      and isinstance(v.args[0], ast.BinOp) and isinstance(v.args[0].op, ast.Mult)
                      and {ast.unparse(v.args[0].left), ast.unparse(v.args[0].right)}
                      == {"self.image_density", "dist"})
            break
    if idx is None:
        raise Unavailable("no assignment to self.n_images")

    def chain(stmts: list[ast.stmt], cur: str) -> str:
        """statements that only (conditionally) reassign self.n_images -> its final value as a
        Lean Int term, starting from the value `cur`"""
        for s in stmts:
            if isinstance(s, ast.Assign) and ast.unparse(s.targets[0]) == "self.n_images":
                cur = _int_expr(s.value, {**names, "self.n_images": cur})
            elif isinstance(s, ast.If):
                test = _cmp(s.test, {**names, "self.n_images": cur})
                cur = f"(if {test} then {chain(s.body, cur)} else {chain(s.orelse, cur)})"
            else:
                raise Unavailable("clamp: unexpected statement")
        return cur

    stmts = []
    for s in body[idx + 1:]:
        if isinstance(s, ast.If) and "self.n_images" in ast.unparse(s.test):
            stmts.append(s)
        else:
            break
    if not stmts:
        raise Unavailable("no clamp after the image count")
    return chain(stmts, "raw"), raw_ok


# ------------------------------------------------------------------ density


def _factors(node: ast.AST) -> list[ast.AST]:
    if isinstance(node, ast.BinOp) and isinstance(node.op, ast.Mult):
        return _factors(node.left) + _factors(node.right)
    return [node]


def retry_product(fn: ast.FunctionDef) -> tuple[Fraction, int, int]:
    for s in fn.body:
        if isinstance(s, ast.Assign) and ast.unparse(s.targets[0]) == "self.image_density":
            c, no, na = Fraction(1), 0, 0
            for f in _factors(s.value):
                src = ast.unparse(f)
                if src == "self.original_image_density":
                    no += 1
                elif src == "attempts":
                    na += 1
                else:
                    c *= _num(f)
            return c, no, na
    raise Unavailable("update_image_density: no assignment to self.image_density")


def revert_restores(fn: ast.FunctionDef) -> bool:
    assigns = [s for s in fn.body if isinstance(s, ast.Assign)
               and ast.unparse(s.targets[0]) == "self.image_density"]
    return len(assigns) >= 1 and ast.unparse(assigns[-1].value) == "self.original_image_density"


def initial_interpolation_structure(fn: ast.FunctionDef) -> dict:
    """positions and guards of update / interpolation / revert in the top-level statement list"""
    upd = rev = None
    interp = []
    for i, s in enumerate(fn.body):
        src = ast.unparse(s)
        if isinstance(s, ast.If) and not s.orelse and len(s.body) == 1:
            inner = ast.unparse(s.body[0])
            if "self.update_image_density(" in inner and upd is None:
                upd = (i, _cmp(s.test, {"attempts": "attempts"}))
                continue
            if "self.revert_image_density(" in inner and rev is None:
                rev = (i, _cmp(s.test, {"attempts": "attempts"}))
                continue
        if "self.update_image_density(" in src and upd is None:
            upd = (i, "True")
        elif "self.revert_image_density(" in src and rev is None:
            rev = (i, "True")
        if "_interpolation(" in src:
            interp.append(i)
    if upd is None:
        raise Unavailable("initial_interpolation: update_image_density call not found")
    if not interp:
        raise Unavailable("initial_interpolation: interpolation call not found")
    return {"update": upd[1], "revert": rev[1] if rev else "False",
            "ordered": bool(rev) and upd[0] < min(interp) and max(interp) < rev[0]}


# ------------------------------------------------------------------ loops / tests


def range_bounds(loop: ast.For) -> tuple[int, int]:
    """`range(lo, self.n_images - off)` -> (lo, off);  `range(self.n_images)` -> (0, 0)"""
    it = loop.iter
    if not (isinstance(it, ast.Call) and ast.unparse(it.func) == "range"):
        raise Unavailable("loop is not over range(...)")
    if len(it.args) == 1:
        lo, hi = ast.Constant(0), it.args[0]
    elif len(it.args) == 2:
        lo, hi = it.args
    else:
        raise Unavailable("range with a step")
    lo_v = _num(lo)
    if ast.unparse(hi) == "self.n_images":
        off = Fraction(0)
    elif isinstance(hi, ast.BinOp) and isinstance(hi.op, ast.Sub) and ast.unparse(hi.left) == "self.n_images":
        off = _num(hi.right)
    elif isinstance(hi, ast.BinOp) and isinstance(hi.op, ast.Add) and ast.unparse(hi.left) == "self.n_images":
        off = -_num(hi.right)
    else:
        raise Unavailable(f"range upper bound {ast.unparse(hi)}")
    if lo_v.denominator != 1 or off.denominator != 1 or lo_v < 0 or off < 0:
        raise Unavailable("range bounds outside the grammar")
    return int(lo_v), int(off)


def _loops(fn: ast.FunctionDef) -> list[ast.For]:
    return [s for s in fn.body if isinstance(s, ast.For)]


def _idx_off(node: ast.AST, var: str = "i") -> int:
    """`i` -> 0, `i-1` -> 1, `i+1` -> -1 (offset k such that the index is i-k)"""
    if isinstance(node, ast.Name) and node.id == var:
        return 0
    if isinstance(node, ast.BinOp) and isinstance(node.left, ast.Name) and node.left.id == var:
        k = _num(node.right)
        if k.denominator == 1:
            return int(k) if isinstance(node.op, ast.Sub) else -int(k)
    raise Unavailable(f"index {ast.unparse(node)}")


def _real_cmp(node: ast.AST, atoms: dict[str, str]) -> str:
    """comparison over named real quantities -> Lean Bool term (generic α)"""
    if isinstance(node, ast.BoolOp):
        op = " && " if isinstance(node.op, ast.And) else " || "
        return "(" + op.join(_real_cmp(v, atoms) for v in node.values) + ")"
    if isinstance(node, ast.Compare) and len(node.ops) == 1 and type(node.ops[0]) in _CMP:
        l, r = ast.unparse(node.left), ast.unparse(node.comparators[0])
        if l in atoms and r in atoms:
            return f"decide ({atoms[l]} {_CMP[type(node.ops[0])]} {atoms[r]})"
    raise Unavailable(f"test outside the grammar: {ast.unparse(node)}")


def candidates_kernel(fn: ast.FunctionDef) -> tuple[int, int, str]:
    loops = _loops(fn)
    if len(loops) != 1:
        raise Unavailable("find_ts_candidates: expected one loop")
    lo, off = range_bounds(loops[0])
    ifs = [s for s in loops[0].body if isinstance(s, ast.If)]
    if len(ifs) != 1 or len(loops[0].body) != 1 or ifs[0].orelse:
        raise Unavailable("find_ts_candidates: unexpected loop body")
    arr = "band_potential_energies"
    atoms = {f"{arr}[i]": "e", f"{arr}[i + 1]": "eNext", f"{arr}[i - 1]": "ePrev"}
    return lo, off, _real_cmp(ifs[0].test, atoms)


def tangent_kernel(fn: ast.FunctionDef) -> dict:
    out: dict = {}
    # literal in front of np.diff(band)
    coef = None
    for s in fn.body:
        if isinstance(s, ast.Assign) and ast.unparse(s.targets[0]) == "position_differences":
            coef = _diff_coef(s.value, "band")
    if coef is None:
        raise Unavailable("position_differences not found")
    out["posDiffCoef"] = coef
    loops = _loops(fn)
    if len(loops) != 1:
        raise Unavailable("find_tangent_differences: expected one loop")
    out["lo"], out["off"] = range_bounds(loops[0])
    if len(loops[0].body) != 1 or not isinstance(loops[0].body[0], ast.If):
        raise Unavailable("find_tangent_differences: unexpected loop body")
    sum_src = "energy_change_sign[i - 1] + energy_change_sign[i]"
    sum_src2 = "energy_change_sign[i] + energy_change_sign[i - 1]"

    def sel(stmts) -> int:
        if len(stmts) != 1 or not isinstance(stmts[0], ast.Assign):
            raise Unavailable("tangent branch is not a single assignment")
        s = stmts[0]
        if ast.unparse(s.targets[0]) != "tangents[i - 1, :]":
            raise Unavailable("tangent branch assigns to " + ast.unparse(s.targets[0]))
        v = s.value
        if isinstance(v, ast.Subscript) and ast.unparse(v.value) == "position_differences":
            return _idx_off(v.slice)
        raise Unavailable("tangent branch value " + ast.unparse(v))

    node = loops[0].body[0]
    branches = []
    while True:
        t = node.test
        if not (isinstance(t, ast.Compare) and ast.unparse(t.left) in (sum_src, sum_src2)):
            raise Unavailable("tangent case test " + ast.unparse(t))
        branches.append((_cmp(t, {sum_src: "s", sum_src2: "s"}), node.body))
        if len(node.orelse) == 1 and isinstance(node.orelse[0], ast.If):
            node = node.orelse[0]
        elif not node.orelse:
            break
        else:
            raise Unavailable("tangent chain has a final else")
    if len(branches) != 3:
        raise Unavailable(f"tangent chain has {len(branches)} cases")
    out["up"], out["down"], out["zero"] = (b[0] for b in branches)
    out["upSel"] = sel(branches[0][1])
    out["downSel"] = sel(branches[1][1])
    zb = branches[2][1]
    if len(zb) != 1 or not isinstance(zb[0], ast.If):
        raise Unavailable("zero case body")
    flat = zb[0]
    if ast.unparse(flat.test) not in ("0 in (energy_change_sign[i - 1], energy_change_sign[i])",
                                      "0 in (energy_change_sign[i], energy_change_sign[i - 1])"):
        raise Unavailable("flat test " + ast.unparse(flat.test))
    out["flatSel"] = sel(flat.body)
    ext = flat.orelse
    vecs = {}
    weights = {}
    final = None
    for s in ext:
        if isinstance(s, ast.Assign):
            tgt, val = ast.unparse(s.targets[0]), s.value
            if tgt in ("vec1", "vec2") and isinstance(val, ast.Subscript) \
                    and ast.unparse(val.value) == "position_differences":
                vecs[tgt] = _idx_off(val.slice)
            elif tgt in ("v_max", "v_min"):
                weights[tgt] = ast.unparse(val)
            elif tgt == "abs_energy_differences":
                weights[tgt] = ast.unparse(val)
        elif isinstance(s, ast.If):
            final = s
    if weights.get("v_max") != "max(abs_energy_differences)" or \
            weights.get("v_min") != "min(abs_energy_differences)" or \
            weights.get("abs_energy_differences") != "np.abs(energy_differences[i - 1:i + 1])":
        raise Unavailable("extremum weights")
    if final is None or set(vecs) != {"vec1", "vec2"}:
        raise Unavailable("extremum branch")
    out["extTest"] = _real_cmp(final.test, {"energies[i + 1]": "eNext", "energies[i - 1]": "ePrev"})

    def combo(stmts) -> tuple[int, int]:
        """`vecA*v_X + vecB*v_Y` -> (offset of the vector weighted by v_max, offset weighted by v_min)"""
        if len(stmts) != 1 or not isinstance(stmts[0], ast.Assign) or \
                ast.unparse(stmts[0].targets[0]) != "tangents[i - 1, :]":
            raise Unavailable("extremum assignment")
        v = stmts[0].value
        if not (isinstance(v, ast.BinOp) and isinstance(v.op, ast.Add)):
            raise Unavailable("extremum combination")
        got = {}
        for term in (v.left, v.right):
            if not (isinstance(term, ast.BinOp) and isinstance(term.op, ast.Mult)):
                raise Unavailable("extremum term")
            a, b = ast.unparse(term.left), ast.unparse(term.right)
            if a in vecs and b in ("v_max", "v_min"):
                got[b] = vecs[a]
            elif b in vecs and a in ("v_max", "v_min"):
                got[a] = vecs[b]
            else:
                raise Unavailable("extremum term " + ast.unparse(term))
        if set(got) != {"v_max", "v_min"}:
            raise Unavailable("extremum weights used")
        return got["v_max"], got["v_min"]

    out["extThen"] = combo(final.body)
    out["extElse"] = combo(final.orelse)
    return out


def _diff_coef(node: ast.AST, arg: str) -> int:
    """the numeric literal multiplying `np.diff(arg, ...)` inside `node`: product of the literal
    factors (and unary minus signs) of the multiplicative chain around the call; must be ±1"""
    parent: dict[ast.AST, ast.AST] = {}
    for n in ast.walk(node):
        for c in ast.iter_child_nodes(n):
            parent[c] = n
    calls = [n for n in ast.walk(node) if _is_diff(n, arg)]
    if len(calls) != 1:
        raise Unavailable(f"np.diff({arg}) found {len(calls)} times")
    coef = Fraction(1)
    cur: ast.AST = calls[0]
    while cur in parent:
        p = parent[cur]
        if isinstance(p, ast.BinOp) and isinstance(p.op, ast.Mult):
            other = p.right if p.left is cur else p.left
            for f in _factors(other):
                try:
                    coef *= _num(f)
                except Unavailable:
                    pass                      # a non-literal factor (force constants, tau)
        elif isinstance(p, ast.UnaryOp) and isinstance(p.op, ast.USub):
            coef = -coef
        else:
            break
        cur = p
    if coef not in (1, -1):
        raise Unavailable(f"literal {coef} in front of np.diff({arg}) is not ±1")
    return int(coef)


def _is_diff(n: ast.AST, arg: str) -> bool:
    return isinstance(n, ast.Call) and ast.unparse(n.func) == "np.diff" and n.args \
        and ast.unparse(n.args[0]) == arg


def perp_kernel(fn: ast.FunctionDef) -> tuple[Fraction, bool]:
    for s in fn.body:
        if isinstance(s, ast.If) and isinstance(s.test, ast.Compare) and len(s.test.ops) == 1 \
                and ast.unparse(s.test.left) == "vec2_magnitude":
            return _num(s.test.comparators[0]), isinstance(s.test.ops[0], ast.Lt)
    raise Unavailable("perpendicular_component: cut-off test not found")


def gradient_kernel(fn: ast.FunctionDef) -> dict:
    out: dict = {}
    srcs = [ast.unparse(s) for s in fn.body]
    out["potZeroFirst"] = "potential_gradient[0, :].fill(0.0)" in srcs
    out["potZeroLast"] = "potential_gradient[-1, :].fill(0.0)" in srcs
    out["zeroInit"] = any(isinstance(s, ast.Assign) and ast.unparse(s.targets[0]) == "band_gradient"
                          and ast.unparse(s.value).startswith("np.zeros(") for s in fn.body)
    asm = [l for l in _loops(fn) if any("band_gradient[" in ast.unparse(t) for t in ast.walk(l)
                                        if isinstance(t, ast.Assign))]
    if len(asm) != 1:
        raise Unavailable("assembly loop not found")
    out["asmLo"], out["asmOff"] = range_bounds(asm[0])
    # every write into band_gradient happens inside that loop, at row i
    writes = [n for n in ast.walk(fn) if isinstance(n, (ast.Assign, ast.AugAssign))
              and any("band_gradient[" in ast.unparse(t)
                      for t in (n.targets if isinstance(n, ast.Assign) else [n.target]))]
    inside = [n for n in ast.walk(asm[0]) if n in writes]
    out["onlyLoopWrites"] = len(writes) == len(inside) and all(
        ast.unparse(n.targets[0]) == "band_gradient[i, :]" for n in inside if isinstance(n, ast.Assign))
    spring = None
    for s in fn.body:
        if isinstance(s, ast.Assign) and ast.unparse(s.targets[0]).startswith("g_parallel["):
            out["springSlice"] = ast.unparse(s.targets[0])
            spring = _diff_coef(s.value, "distances")
        if isinstance(s, ast.Assign) and ast.unparse(s.targets[0]) == "differences":
            out["diffCoef"] = _diff_coef(s.value, "band")
    if spring is None:
        raise Unavailable("g_parallel assignment not found")
    out["springCoef"] = spring
    return out


# ------------------------------------------------------------------ driver

MODELLED = {
    "clamp": "(if (raw < (10 : Int)) then (10 : Int) else (if (raw > maxImages) then maxImages else raw))",
    "cut": Fraction(1e-13),
}


def regenerate() -> dict:
    st: dict = {}
    tree = parse(FILE)

    def get(name, f, default):
        try:
            v = f()
            st[name] = v if isinstance(v, (bool, int, str)) else str(v)
            return v
        except Unavailable as e:
            st[name] = f"unavailable ({e}); modelled value used, correspondence is the only tie"
            return default
        except Exception as e:  # a translator bug must not become a verdict
            st[name] = f"unavailable (translator error {type(e).__name__}: {e})"
            return default

    fn = lambda n: find_function(tree, n, CLS)
    cl, raw_ok = get("clampLinear", lambda: clamp_kernel(fn("linear_interpolation")), (MODELLED["clamp"], True))
    cd, raw_ok2 = get("clampDihedral", lambda: clamp_kernel(fn("dihedral_interpolation")), (MODELLED["clamp"], True))
    rc, rno, rna = get("retryProduct", lambda: retry_product(fn("update_image_density")), (Fraction(3, 2), 1, 1))
    rr = get("revertRestoresOriginal", lambda: revert_restores(fn("revert_image_density")), True)
    ii = get("initialInterpolation", lambda: initial_interpolation_structure(fn("initial_interpolation")),
             {"update": "(attempts > (0 : Int))", "revert": "(attempts > (0 : Int))", "ordered": True})
    clo, coff, ctest = get("candidates", lambda: candidates_kernel(fn("find_ts_candidates")),
                           (1, 1, "(decide (e ≥ eNext) && decide (e ≥ ePrev))"))
    tk = get("tangent", lambda: tangent_kernel(fn("find_tangent_differences")),
             {"posDiffCoef": -1, "lo": 1, "off": 1, "up": "(s ≥ (1 : Int))", "down": "(s ≤ (-1 : Int))",
              "zero": "(s = (0 : Int))", "upSel": 0, "downSel": 1, "flatSel": 1,
              "extTest": "decide (eNext ≥ ePrev)", "extThen": (0, 1), "extElse": (1, 0)})
    cut, cut_lt = get("perpCut", lambda: perp_kernel(fn("perpendicular_component")), (MODELLED["cut"], True))
    gk = get("bandGradient", lambda: gradient_kernel(fn("band_function_gradient")),
             {"potZeroFirst": True, "potZeroLast": True, "zeroInit": True, "asmLo": 1, "asmOff": 1,
              "onlyLoopWrites": True, "springCoef": -1, "diffCoef": -1, "springSlice": "g_parallel[1:-1, :]"})
    st["springCoef"] = f"{gk['springCoef']} ({'inverted: known finding' if gk['springCoef'] * tk['posDiffCoef'] > 0 else 'restoring'})"

    real = "{α : Type} [LT α] [LE α] [DecidableLT α] [DecidableLE α] [DecidableEq α]"
    L = []
    L.append("-- REGENERATED on every run by harness/translate/neb.py from")
    L.append("-- /repo/src/topsearch/transition_states/nudged_elastic_band.py (do not edit)")
    L.append("namespace TopSearch.Gen.Neb")
    L.append("/-- linear_interpolation: the clamp that follows `n_images = int(image_density*dist)` -/")
    L.append(f"def clampLinear (maxImages raw : Int) : Int :=\n  {cl}")
    L.append("/-- dihedral_interpolation: the same clamp -/")
    L.append(f"def clampDihedral (maxImages raw : Int) : Int :=\n  {cd}")
    L.append(f"def rawCountIsIntDensityDist : Bool := {lean_bool(bool(raw_ok and raw_ok2))}")
    L.append("/-- update_image_density: constant factor (as a fraction) and the powers of the other factors -/")
    L.append(f"def retryNum : Int := {rc.numerator}")
    L.append(f"def retryDen : Nat := {rc.denominator}")
    L.append(f"def retryOrigPow : Nat := {rno}")
    L.append(f"def retryAttemptsPow : Nat := {rna}")
    L.append(f"def revertRestoresOriginal : Bool := {lean_bool(rr)}")
    L.append("/-- initial_interpolation: guards of update / revert; update before and revert after the interpolation -/")
    L.append(f"def updateGuard (attempts : Int) : Bool := decide {ii['update']}")
    L.append(f"def revertGuard (attempts : Int) : Bool := decide {ii['revert']}")
    L.append(f"def revertAfterInterpolation : Bool := {lean_bool(ii['ordered'])}")
    L.append("/-- find_ts_candidates: `range(candLo, n_images - candOff)` and the test -/")
    L.append(f"def candLo : Nat := {clo}")
    L.append(f"def candOff : Nat := {coff}")
    L.append(f"def candTest {real} (ePrev e eNext : α) : Bool :=\n  {ctest}")
    L.append("/-- find_tangent_differences: `s` is the sum of the two energy-change signs; `…Sel = k` means\n"
             "    `position_differences[i-k]` is selected -/")
    L.append(f"def posDiffCoef : Int := {tk['posDiffCoef']}")
    L.append(f"def tanLo : Nat := {tk['lo']}")
    L.append(f"def tanOff : Nat := {tk['off']}")
    L.append(f"def tanUp (s : Int) : Bool := decide {tk['up']}")
    L.append(f"def tanDown (s : Int) : Bool := decide {tk['down']}")
    L.append(f"def tanZero (s : Int) : Bool := decide {tk['zero']}")
    L.append(f"def tanUpSel : Int := {tk['upSel']}")
    L.append(f"def tanDownSel : Int := {tk['downSel']}")
    L.append(f"def tanFlatSel : Int := {tk['flatSel']}")
    L.append(f"def tanExtTest {real} (ePrev eNext : α) : Bool :=\n  {tk['extTest']}")
    L.append("/-- (k of the vector weighted by v_max, k of the vector weighted by v_min) -/")
    L.append(f"def tanExtThen : Int × Int := ({tk['extThen'][0]}, {tk['extThen'][1]})")
    L.append(f"def tanExtElse : Int × Int := ({tk['extElse'][0]}, {tk['extElse'][1]})")
    L.append("/-- perpendicular_component: `if vec2_magnitude < cut` (the double's exact value) -/")
    L.append(f"def cutNum : Nat := {max(cut.numerator, 0)}")
    L.append(f"def cutDen : Nat := {cut.denominator}")
    L.append(f"def cutIsStrictLess : Bool := {lean_bool(cut_lt and cut.numerator >= 0)}")
    L.append("/-- band_function_gradient -/")
    L.append(f"def potZeroFirst : Bool := {lean_bool(gk['potZeroFirst'])}")
    L.append(f"def potZeroLast : Bool := {lean_bool(gk['potZeroLast'])}")
    L.append(f"def bandGradientZeroInit : Bool := {lean_bool(gk['zeroInit'])}")
    L.append(f"def bandGradientOnlyLoopWrites : Bool := {lean_bool(gk['onlyLoopWrites'])}")
    L.append(f"def asmLo : Nat := {gk['asmLo']}")
    L.append(f"def asmOff : Nat := {gk['asmOff']}")
    L.append(f"def springSliceInterior : Bool := {lean_bool(gk.get('springSlice') == 'g_parallel[1:-1, :]')}")
    L.append("/-- the literal in front of `np.diff(distances)` and of `np.diff(band)` -/")
    L.append(f"def springCoef : Int := {gk['springCoef']}")
    L.append(f"def diffCoef : Int := {gk.get('diffCoef', -1)}")
    L.append("end TopSearch.Gen.Neb")
    st["Gen/Neb.lean rewritten"] = write_if_changed("Neb.lean", "\n".join(L) + "\n")
    return st
