"""Gen/ModelData.lean: what the C19 theorems depend on, read from the current source with `ast`
(the code is never imported here).

* `remove_duplicates`: which scan is present (inner loop over the *retained* index list / pair
  loop over all i<j with or without `break`), the comparison operator against the cut-off,
  whether `np.delete` with the repeated-index list is applied to training and to response, and
  whether `n_points` is refreshed.
* the eight transform methods of ModelData: which statistic is stored under which key (function,
  array, axis) and the element-wise formula as a `TopSearch.Py.E` term.
* `GaussianProcess.prepare_training_data / add_data / lowest_point`: the ordered list of
  (condition flag, model_data call) steps.
Anything that cannot be located or is outside this grammar is recorded as unavailable; the
generated definition then falls back to the expected one and the correspondence is the only tie
for that kernel.
"""
from __future__ import annotations

import ast
from fractions import Fraction

from .base import Unavailable, find_function, lean_bool, parse, write_if_changed

MD_FILE = "data/model_data.py"
GP_FILE = "potentials/gaussian_process.py"

# ------------------------------------------------------------------ remove_duplicates


def _is_self_attr(n: ast.AST, attr: str) -> bool:
    return isinstance(n, ast.Attribute) and n.attr == attr and isinstance(n.value, ast.Name) \
        and n.value.id == "self"


def _range_args(n: ast.AST):
    if isinstance(n, ast.Call) and isinstance(n.func, ast.Name) and n.func.id == "range" and not n.keywords:
        return n.args
    return None


def _is_npoints(n: ast.AST) -> bool:
    return _is_self_attr(n, "n_points")


def _is_npoints_minus_1(n: ast.AST) -> bool:
    return isinstance(n, ast.BinOp) and isinstance(n.op, ast.Sub) and _is_npoints(n.left) \
        and isinstance(n.right, ast.Constant) and n.right.value == 1


def _is_plus_1(n: ast.AST, name: str) -> bool:
    if isinstance(n, ast.BinOp) and isinstance(n.op, ast.Add):
        a, b = n.left, n.right
        for x, y in ((a, b), (b, a)):
            if isinstance(x, ast.Name) and x.id == name and isinstance(y, ast.Constant) and y.value == 1:
                return True
    return False


def _row_index(n: ast.AST):
    """self.training[i, :] or self.training[i]  ->  'i'"""
    if isinstance(n, ast.Subscript) and _is_self_attr(n.value, "training"):
        s = n.slice
        if isinstance(s, ast.Tuple) and len(s.elts) == 2 and isinstance(s.elts[0], ast.Name) \
                and isinstance(s.elts[1], ast.Slice) and s.elts[1].lower is None \
                and s.elts[1].upper is None and s.elts[1].step is None:
            return s.elts[0].id
        if isinstance(s, ast.Name):
            return s.id
    return None


def _is_norm_of_row_difference(n: ast.AST, i: str, j: str) -> bool:
    if not (isinstance(n, ast.Call) and ast.unparse(n.func) in ("np.linalg.norm", "numpy.linalg.norm")
            and len(n.args) == 1 and not n.keywords):
        return False
    a = n.args[0]
    if not (isinstance(a, ast.BinOp) and isinstance(a.op, ast.Sub)):
        return False
    return {_row_index(a.left), _row_index(a.right)} == {i, j} and i != j


def _append_target(s: ast.stmt):
    """`L.append(x)` -> (L, x-name)"""
    if isinstance(s, ast.Expr) and isinstance(s.value, ast.Call):
        c = s.value
        if isinstance(c.func, ast.Attribute) and c.func.attr == "append" and isinstance(c.func.value, ast.Name) \
                and len(c.args) == 1 and isinstance(c.args[0], ast.Name):
            return c.func.value.id, c.args[0].id
    return None


def _cmp_of(test: ast.AST, dname: str, cutoff: str) -> str:
    if not (isinstance(test, ast.Compare) and len(test.ops) == 1):
        raise Unavailable("remove_duplicates: test is not a single comparison")
    l, op, r = test.left, test.ops[0], test.comparators[0]
    names = (ast.unparse(l), ast.unparse(r))
    if names == (dname, cutoff):
        if isinstance(op, ast.Lt):
            return "lt"
        if isinstance(op, ast.LtE):
            return "le"
    if names == (cutoff, dname):
        if isinstance(op, ast.Gt):
            return "lt"
        if isinstance(op, ast.GtE):
            return "le"
    raise Unavailable(f"remove_duplicates: comparison `{ast.unparse(test)}` outside the grammar")


def dedup_cfg(fn: ast.FunctionDef) -> dict:
    if len(fn.args.args) < 2:
        raise Unavailable("remove_duplicates: no cut-off parameter")
    cutoff = fn.args.args[1].arg
    body = [s for s in fn.body if not (isinstance(s, ast.Expr) and isinstance(s.value, ast.Constant))]
    loops = [s for s in body if isinstance(s, ast.For)]
    if len(loops) != 1:
        raise Unavailable("remove_duplicates: expected exactly one top-level loop")
    outer = loops[0]
    if not isinstance(outer.target, ast.Name) or outer.orelse:
        raise Unavailable("remove_duplicates: outer loop shape")
    ov = outer.target.id
    oargs = _range_args(outer.iter)
    if oargs is None or len(oargs) != 1:
        raise Unavailable("remove_duplicates: outer loop is not range(<n>)")
    inners = [s for s in outer.body if isinstance(s, ast.For)]
    if len(inners) != 1:
        raise Unavailable("remove_duplicates: expected exactly one inner loop")
    inner = inners[0]
    if not isinstance(inner.target, ast.Name) or inner.orelse:
        raise Unavailable("remove_duplicates: inner loop shape")
    iv = inner.target.id
    # inner body: d = norm(row_i - row_j); if d < cutoff: ...
    if len(inner.body) != 2 or not isinstance(inner.body[0], ast.Assign) or not isinstance(inner.body[1], ast.If):
        raise Unavailable("remove_duplicates: inner body is not `d = …; if …:`")
    dassign, test = inner.body
    if len(dassign.targets) != 1 or not isinstance(dassign.targets[0], ast.Name):
        raise Unavailable("remove_duplicates: distance assignment")
    dname = dassign.targets[0].id
    if not _is_norm_of_row_difference(dassign.value, ov, iv):
        raise Unavailable("remove_duplicates: distance is not np.linalg.norm of a row difference")
    if test.orelse:
        raise Unavailable("remove_duplicates: else branch on the distance test")
    cmp_ = _cmp_of(test.test, dname, cutoff)
    has_break = any(isinstance(s, ast.Break) for s in test.body)
    hit = [s for s in test.body if not isinstance(s, ast.Break)]
    if len(hit) != 1:
        raise Unavailable("remove_duplicates: hit branch")
    hit = hit[0]
    repeated_list = None
    if isinstance(inner.iter, ast.Name):
        # ---- scan against a list of indices: must be the retained list
        retained = inner.iter.id
        if not (oargs and _is_npoints(oargs[0])):
            raise Unavailable("remove_duplicates: retained scan not over range(n_points)")
        if not (isinstance(hit, ast.Assign) and len(hit.targets) == 1 and isinstance(hit.targets[0], ast.Name)
                and isinstance(hit.value, ast.Constant) and hit.value.value is True):
            raise Unavailable("remove_duplicates: retained scan does not set a flag")
        flag = hit.targets[0].id
        rest = [s for s in outer.body if s is not inner]
        if len(rest) != 2:
            raise Unavailable("remove_duplicates: outer body shape")
        init, decide = rest
        if not (outer.body.index(init) < outer.body.index(inner) < outer.body.index(decide)):
            raise Unavailable("remove_duplicates: statement order")
        if not (isinstance(init, ast.Assign) and ast.unparse(init.targets[0]) == flag
                and isinstance(init.value, ast.Constant) and init.value.value is False):
            raise Unavailable("remove_duplicates: flag initialisation")
        if not (isinstance(decide, ast.If) and len(decide.body) == 1 and len(decide.orelse) == 1):
            raise Unavailable("remove_duplicates: flag decision")
        t = ast.unparse(decide.test)
        yes, no = _append_target(decide.body[0]), _append_target(decide.orelse[0])
        if t == f"not {flag}":
            yes, no = no, yes
        elif t != flag:
            raise Unavailable("remove_duplicates: flag decision test")
        if yes is None or no is None or yes[1] != ov or no[1] != ov or no[0] != retained or yes[0] == retained:
            raise Unavailable("remove_duplicates: retained/repeated bookkeeping")
        repeated_list = yes[0]
        scan = ".retained"
    else:
        iargs = _range_args(inner.iter)
        ap = _append_target(hit)
        if iargs is None or ap is None:
            raise Unavailable("remove_duplicates: pair loop shape")
        repeated_list = ap[0]
        if len(oargs) == 1 and _is_npoints_minus_1(oargs[0]) and len(iargs) == 2 \
                and _is_plus_1(iargs[0], ov) and _is_npoints(iargs[1]) and ap[1] == iv:
            scan = f"(.pairs {lean_bool(has_break)})"           # i outer, j inner, j appended
        elif len(oargs) == 1 and _is_npoints(oargs[0]) and len(iargs) == 1 \
                and isinstance(iargs[0], ast.Name) and iargs[0].id == ov and ap[1] == ov:
            scan = "(.pairs false)"       # for j: for i in range(j): j appended (same index set)
        else:
            raise Unavailable("remove_duplicates: pair loop bounds outside the grammar")
    # ---- the deletions
    del_t = del_r = upd = False
    after = body[body.index(outer) + 1:]
    for s in after:
        if isinstance(s, ast.Assign) and len(s.targets) == 1:
            tgt = ast.unparse(s.targets[0])
            v = s.value
            if tgt in ("self.training", "self.response") and isinstance(v, ast.Call) \
                    and ast.unparse(v.func) in ("np.delete", "numpy.delete"):
                args = [ast.unparse(a) for a in v.args]
                kw = {k.arg: ast.unparse(k.value) for k in v.keywords}
                ok = len(args) >= 2 and args[0] == tgt and args[1] == repeated_list and \
                    (kw.get("axis") == "0" or (len(args) == 3 and args[2] == "0"))
                if not ok:
                    raise Unavailable(f"remove_duplicates: np.delete call `{ast.unparse(v)}`")
                if tgt == "self.training":
                    del_t = True
                else:
                    del_r = True
            elif tgt == "self.n_points" and ast.unparse(v) in ("self.training.shape[0]", "len(self.training)",
                                                               "self.response.shape[0]", "len(self.response)"):
                upd = del_t if "training" in ast.unparse(v) else del_r
    return {"scan": scan, "cmp": "." + cmp_, "delT": del_t, "delR": del_r, "upd": upd}


# ------------------------------------------------------------------ transform formulas

KEYS = {"std": 1, "mean": 2, "min": 3, "max": 4}
STATFN = {"mean": "mean", "std": "std", "var": "var", "min": "min", "max": "max", "amin": "min", "amax": "max"}


def _expr(n: ast.AST, own_arr: str, own_props: str) -> str:
    other_arr = "training" if own_arr == "response" else "response"
    if isinstance(n, ast.BinOp):
        op = {ast.Add: "add", ast.Sub: "sub", ast.Mult: "mul", ast.Div: "div"}.get(type(n.op))
        if op is None:
            raise Unavailable(f"operator in `{ast.unparse(n)}`")
        return f"(.{op} {_expr(n.left, own_arr, own_props)} {_expr(n.right, own_arr, own_props)})"
    if isinstance(n, ast.UnaryOp) and isinstance(n.op, ast.USub):
        return f"(.neg {_expr(n.operand, own_arr, own_props)})"
    if isinstance(n, ast.Constant) and isinstance(n.value, (int, float)) and not isinstance(n.value, bool):
        f = Fraction(repr(n.value))
        return f"(.c ({f.numerator}) {f.denominator})"
    if _is_self_attr(n, own_arr):
        return "(.v 0)"
    if _is_self_attr(n, other_arr):
        return "(.v 5)"
    if isinstance(n, ast.Subscript) and isinstance(n.slice, ast.Constant) and n.slice.value in KEYS:
        for props, base in ((own_props, 0), ("train_props" if own_props == "resp_props" else "resp_props", 5)):
            if _is_self_attr(n.value, props):
                return f"(.v {KEYS[n.slice.value] + base})"
    raise Unavailable(f"expression `{ast.unparse(n)}` outside the grammar")


def _stat_call(v: ast.AST, own_arr: str):
    """np.mean(self.X[, axis=0]) / self.X.min([axis=0]) -> (fn, array, axis)"""
    if not isinstance(v, ast.Call):
        return None
    f = v.func
    axis = None
    for k in v.keywords:
        if k.arg == "axis":
            axis = ast.unparse(k.value)
        else:
            return None
    if isinstance(f, ast.Attribute) and isinstance(f.value, ast.Name) and f.value.id in ("np", "numpy"):
        if len(v.args) == 2:
            axis = ast.unparse(v.args[1])
        elif len(v.args) != 1:
            return None
        arr = v.args[0]
        name = f.attr
    elif isinstance(f, ast.Attribute):
        arr = f.value
        name = f.attr
        if len(v.args) == 1:
            axis = ast.unparse(v.args[0])
        elif v.args:
            return None
    else:
        return None
    for a in ("response", "training"):
        if _is_self_attr(arr, a):
            return STATFN.get(name, "other"), a, axis
    return None


def xform(fn: ast.FunctionDef, own_arr: str) -> dict:
    own_props = "resp_props" if own_arr == "response" else "train_props"
    body = [s for s in fn.body if not (isinstance(s, ast.Expr) and isinstance(s.value, ast.Constant))]
    writes = []
    formula = None
    for s in body:
        if not (isinstance(s, ast.Assign) and len(s.targets) == 1):
            raise Unavailable(f"{fn.name}: statement `{ast.unparse(s)[:40]}`")
        t = s.targets[0]
        if isinstance(t, ast.Subscript) and _is_self_attr(t.value, own_props) \
                and isinstance(t.slice, ast.Constant) and t.slice.value in KEYS:
            if formula is not None:
                raise Unavailable(f"{fn.name}: statistic stored after the array is re-assigned")
            sc = _stat_call(s.value, own_arr)
            if sc is None:
                raise Unavailable(f"{fn.name}: statistic `{ast.unparse(s.value)}`")
            name, arr, axis = sc
            if own_arr == "response":
                per_feature = False
                if axis not in (None, "0"):
                    name = "other"
            else:
                per_feature = axis == "0"
                if axis not in (None, "0"):
                    name = "other"
            writes.append((t.slice.value, name, arr == own_arr, per_feature))
        elif _is_self_attr(t, own_arr):
            if formula is not None:
                raise Unavailable(f"{fn.name}: array assigned twice")
            formula = _expr(s.value, own_arr, own_props)
        else:
            raise Unavailable(f"{fn.name}: assignment to `{ast.unparse(t)}`")
    if formula is None:
        raise Unavailable(f"{fn.name}: the array is not re-assigned")
    writes.sort(key=lambda w: KEYS[w[0]])
    return {"writes": writes, "formula": formula}


XFORMS = [("standardise_response", "response", "stdResp"), ("unstandardise_response", "response", "unstdResp"),
          ("normalise_response", "response", "normResp"), ("unnormalise_response", "response", "unnormResp"),
          ("standardise_training", "training", "stdTrain"), ("unstandardise_training", "training", "unstdTrain"),
          ("normalise_training", "training", "normTrain"), ("unnormalise_training", "training", "unnormTrain")]

EXPECTED_XFORM = {
    "std": {"writes": [("std", "std", True, None), ("mean", "mean", True, None)],
            "formula": "(.div (.sub (.v 0) (.v 2)) (.v 1))"},
    "unstd": {"writes": [], "formula": "(.add (.mul (.v 0) (.v 1)) (.v 2))"},
    "norm": {"writes": [("min", "min", True, None), ("max", "max", True, None)],
             "formula": "(.div (.sub (.v 0) (.v 3)) (.sub (.v 4) (.v 3)))"},
    "unnorm": {"writes": [], "formula": "(.add (.mul (.v 0) (.sub (.v 4) (.v 3))) (.v 3))"},
}


def _lean_xform(x: dict) -> str:
    ws = ", ".join(f"⟨.{k}, .{f}, {lean_bool(own)}, {lean_bool(pf)}⟩" for k, f, own, pf in x["writes"])
    return f"{{ writes := [{ws}], formula := {x['formula']} }}"


# ------------------------------------------------------------------ GaussianProcess steps

CONDS = {"self.standardise_training": ".ifStdTraining", "self.standardise_response": ".ifStdResponse",
         "self.limit_highest_data": ".ifLimit"}
ACTS = {"unstandardise_training": ".unstdTraining", "unstandardise_response": ".unstdResponse",
        "standardise_training": ".stdTraining", "standardise_response": ".stdResponse",
        "limit_response_maximum": ".limitMax"}


def gp_steps(fn: ast.FunctionDef, kind: str) -> list[tuple[str, str]]:
    params = [a.arg for a in fn.args.args[1:]]
    body = [s for s in fn.body if not (isinstance(s, ast.Expr) and isinstance(s.value, ast.Constant))]
    steps: list[tuple[str, str]] = []
    min_name = None
    returned = None

    def act_of(s: ast.stmt) -> str:
        nonlocal min_name
        if isinstance(s, ast.Expr) and isinstance(s.value, ast.Call):
            c = s.value
            f = c.func
            if isinstance(f, ast.Attribute) and _is_self_attr(f.value, "model_data"):
                if f.attr in ACTS:
                    if f.attr != "limit_response_maximum" and (c.args or c.keywords):
                        return ".other"
                    return ACTS[f.attr]
                if f.attr == "append_data":
                    args = [ast.unparse(a) for a in c.args] + [None, None]
                    kw = {k.arg: ast.unparse(k.value) for k in c.keywords}
                    a0 = kw.get("new_training", args[0])
                    a1 = kw.get("new_response", args[1] if "new_training" not in kw else args[0])
                    if len(params) == 2 and a0 == params[0] and a1 == params[1]:
                        return ".append"
                    return ".other"
            raise Unavailable(f"{fn.name}: call `{ast.unparse(s)[:50]}`")
        if isinstance(s, ast.Assign) and len(s.targets) == 1 and isinstance(s.targets[0], ast.Name):
            v = ast.unparse(s.value)
            if v in ("np.min(self.model_data.response)", "self.model_data.response.min()",
                     "numpy.min(self.model_data.response)", "np.amin(self.model_data.response)",
                     "min(self.model_data.response)"):
                min_name = s.targets[0].id
                return ".takeMin"
        raise Unavailable(f"{fn.name}: statement `{ast.unparse(s)[:50]}`")

    for s in body:
        if isinstance(s, ast.If):
            c = CONDS.get(ast.unparse(s.test))
            if c is None or s.orelse:
                raise Unavailable(f"{fn.name}: condition `{ast.unparse(s.test)}`")
            for t in s.body:
                steps.append((c, act_of(t)))
        elif isinstance(s, ast.Return):
            returned = ast.unparse(s.value) if s.value is not None else None
            if s is not body[-1]:
                raise Unavailable(f"{fn.name}: early return")
        else:
            steps.append((".always", act_of(s)))
    if kind == "lowest":
        if min_name is None or returned != min_name:
            steps.append((".always", ".other"))       # does not return the minimum it took
    elif returned is not None:
        raise Unavailable(f"{fn.name}: unexpected return value")
    return steps


def _lean_steps(steps) -> str:
    return "[" + ", ".join(f"({c}, {a})" for c, a in steps) + "]"


EXPECTED_STEPS = {
    "prepareSteps": [(".ifStdTraining", ".stdTraining"), (".ifLimit", ".limitMax"), (".ifStdResponse", ".stdResponse")],
    "addDataSteps": [(".ifStdTraining", ".unstdTraining"), (".ifStdResponse", ".unstdResponse"), (".always", ".append"),
                     (".ifStdTraining", ".stdTraining"), (".ifStdResponse", ".stdResponse")],
    "lowestSteps": [(".ifStdResponse", ".unstdResponse"), (".always", ".takeMin"), (".ifStdResponse", ".stdResponse")],
}


# ------------------------------------------------------------------ entry point


def _sets_count(fn: ast.FunctionDef, attr: str, accepted: tuple[str, ...]) -> bool:
    """does the LAST top-level statement group of `fn` leave `self.<attr>` equal to one of the accepted expressions
    (evaluated after the arrays were replaced)?  True / False; anything else assigned to it is outside the grammar"""
    hits = [s for s in fn.body if isinstance(s, ast.Assign) and len(s.targets) == 1 and _is_self_attr(s.targets[0], attr)]
    nested = [n for n in ast.walk(fn) if isinstance(n, (ast.Assign, ast.AugAssign)) and
              any(_is_self_attr(t, attr) for t in (n.targets if isinstance(n, ast.Assign) else [n.target]))]
    if len(nested) != len(hits):
        raise Unavailable(f"{fn.name}: self.{attr} assigned inside a branch / loop or augmented")
    if not hits:
        return False
    last = hits[-1]
    if ast.unparse(last.value) not in accepted:
        raise Unavailable(f"{fn.name}: self.{attr} = {ast.unparse(last.value)[:40]}")
    # the arrays must not be replaced after the count was taken
    idx = fn.body.index(last)
    for later in fn.body[idx + 1:]:
        if any(isinstance(n, ast.Attribute) and isinstance(n.ctx, ast.Store) and n.attr in ("training", "response")
               for n in ast.walk(later)):
            raise Unavailable(f"{fn.name}: array replaced after self.{attr} was set")
    return True


def count_cfg(md: ast.Module) -> dict:
    rd = find_function(md, "read_data", "ModelData")
    ap = find_function(md, "append_data", "ModelData")
    fs = find_function(md, "feature_subset", "ModelData")
    rows = ("self.training.shape[0]", "len(self.training)", "self.response.shape[0]", "len(self.response)")
    cols = ("self.training.shape[1]",)
    return {"readSetsPoints": _sets_count(rd, "n_points", rows), "readSetsDims": _sets_count(rd, "n_dims", cols),
            "appendSetsPoints": _sets_count(ap, "n_points", rows),
            "subsetSetsDims": _sets_count(fs, "n_dims", cols + ("len(features)",))}


def regenerate() -> dict:
    status: dict = {}
    out = ["-- REGENERATED on every run by harness/translate/model_data.py from",
           "-- /repo/src/topsearch/data/model_data.py and potentials/gaussian_process.py (do not edit)",
           "import TopSearch.Model.ModelData",
           "namespace TopSearch.Gen.ModelData",
           "open TopSearch.ModelData TopSearch.Py", ""]
    # remove_duplicates
    try:
        md = parse(MD_FILE)
    except Unavailable as e:
        md = None
        status["ModelData.source"] = f"unavailable ({e})"
    cfg = None
    if md is not None:
        try:
            cfg = dedup_cfg(find_function(md, "remove_duplicates", "ModelData"))
            status["ModelData.dedup"] = cfg
        except Unavailable as e:
            status["ModelData.dedup"] = f"unavailable ({e}); correspondence is the only tie"
    if cfg is None:
        out.append("def dedup : DedupCfg := DedupCfg.repaired  -- kernel unavailable")
    else:
        out.append(f"def dedup : DedupCfg := ⟨{cfg['scan']}, {cfg['cmp']}, {lean_bool(cfg['delT'])}, "
                   f"{lean_bool(cfg['delR'])}, {lean_bool(cfg['upd'])}⟩")
    counts = None
    if md is not None:
        try:
            counts = count_cfg(md)
            status["ModelData.counts"] = counts
        except Unavailable as e:
            status["ModelData.counts"] = f"unavailable ({e}); correspondence is the only tie"
    if counts is None:
        out.append("def counts : CountCfg := CountCfg.std  -- kernel unavailable")
    else:
        out.append("def counts : CountCfg := ⟨" + ", ".join(lean_bool(counts[k]) for k in
                   ("readSetsPoints", "readSetsDims", "appendSetsPoints", "subsetSetsDims")) + "⟩")
    out.append("")
    # transform methods
    for pyname, arr, lname in XFORMS:
        kind = lname.replace("Resp", "").replace("Train", "")
        exp = EXPECTED_XFORM[kind]
        x = None
        if md is not None:
            try:
                x = xform(find_function(md, pyname, "ModelData"), arr)
                status[f"ModelData.{lname}"] = {"writes": [list(w) for w in x["writes"]], "formula": x["formula"]}
            except Unavailable as e:
                status[f"ModelData.{lname}"] = f"unavailable ({e}); correspondence is the only tie"
        if x is None:
            x = {"writes": [(k, f, own, arr == "training") for k, f, own, _ in exp["writes"]],
                 "formula": exp["formula"]}
        out.append(f"def {lname} : Xform := {_lean_xform(x)}")
    out.append("")
    # GaussianProcess
    try:
        gp = parse(GP_FILE)
    except Unavailable as e:
        gp = None
        status["GaussianProcess.source"] = f"unavailable ({e})"
    for pyname, lname, kind in (("prepare_training_data", "prepareSteps", "prepare"),
                                ("add_data", "addDataSteps", "add"), ("lowest_point", "lowestSteps", "lowest")):
        steps = None
        if gp is not None:
            try:
                steps = gp_steps(find_function(gp, pyname, "GaussianProcess"), kind)
                status[f"GaussianProcess.{lname}"] = [f"{c} {a}" for c, a in steps]
            except Unavailable as e:
                status[f"GaussianProcess.{lname}"] = f"unavailable ({e}); correspondence is the only tie"
        if steps is None:
            steps = EXPECTED_STEPS[lname]
        out.append(f"def {lname} : List Step := {_lean_steps(steps)}")
    out += ["", "end TopSearch.Gen.ModelData", ""]
    status["Gen/ModelData.lean rewritten"] = write_if_changed("ModelData.lean", "\n".join(out))
    return status
