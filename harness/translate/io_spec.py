"""Gen/IOSpec.lean: what `read_network` and `dump_network` say about shapes, indices and
formats, read from the current source with `ast`:

* for each `np.loadtxt(...)` call of read_network: the `ndmin=` keyword (numpy's default 0),
  `dtype=int`, and whether `.reshape(-1, 2)` is applied to the result;
* the index patterns `minima_data[i, 0]`, `[i, 1]`, `ts_data[i, 0..2]`, `coords[i, :]`;
* the `fmt=` of each `np.savetxt(...)` call of dump_network.

Anything that cannot be located or is outside the grammar makes the whole record
"unavailable" (the repaired spec of the hand model is emitted and the status says so)."""
from __future__ import annotations

import ast

from .base import Unavailable, find_function, lean_bool, parse, write_if_changed

FILE = "data/kinetic_transition_network.py"
TABLES = {"min.data": "minData", "min.coords": "minCoords", "ts.data": "tsData",
          "ts.coords": "tsCoords", "pairlist": "pairlist"}


def _table_of(call: ast.Call) -> str:
    """which file a loadtxt/savetxt call names (first argument is an f-string containing it)"""
    if not call.args:
        raise Unavailable("text I/O call without a file argument")
    src = ast.unparse(call.args[0])
    hits = [t for t in TABLES if t in src]
    if len(hits) != 1:
        raise Unavailable(f"cannot tell which table `{src}` is")
    return hits[0]


def _loadtxt_calls(fn: ast.FunctionDef):
    """(target source, table, ndmin, intDtype, reshape2) for every loadtxt in read_network"""
    out = {}
    for s in fn.body:
        if not isinstance(s, ast.Assign):
            continue
        v = s.value
        reshape = False
        if isinstance(v, ast.Call) and isinstance(v.func, ast.Attribute) and v.func.attr == "reshape" \
                and isinstance(v.func.value, ast.Call):
            if [ast.unparse(a) for a in v.args] != ["-1", "2"] or v.keywords:
                raise Unavailable(f"reshape with arguments `{ast.unparse(v)[-20:]}`")
            reshape = True
            v = v.func.value
        if not (isinstance(v, ast.Call) and ast.unparse(v.func) == "np.loadtxt"):
            if "loadtxt" in ast.unparse(s):
                raise Unavailable(f"loadtxt wrapped in `{ast.unparse(s)[:40]}`")
            continue
        table = _table_of(v)
        ndmin, is_int = 0, False
        for k in v.keywords:
            if k.arg == "ndmin":
                if not (isinstance(k.value, ast.Constant) and isinstance(k.value.value, int)):
                    raise Unavailable("ndmin is not a literal")
                ndmin = k.value.value
            elif k.arg == "dtype":
                if ast.unparse(k.value) not in ("int", "float"):
                    raise Unavailable(f"dtype={ast.unparse(k.value)}")
                is_int = ast.unparse(k.value) == "int"
            else:
                raise Unavailable(f"loadtxt keyword {k.arg}")
        if len(v.args) != 1 or ndmin < 0:
            raise Unavailable("loadtxt positional arguments")
        if table in out:
            raise Unavailable(f"{table} loaded twice")
        out[table] = (ast.unparse(s.targets[0]), ndmin, is_int, reshape)
    if set(out) != set(TABLES):
        raise Unavailable(f"tables loaded: {sorted(out)}")
    # all-or-nothing: every file is loaded before the object is touched (a read that fails — a missing or truncated
    # table — then leaves the network exactly as it was; the model reads the five tables and only then builds)
    body = [s_ for s_ in fn.body if not (isinstance(s_, ast.Expr) and isinstance(s_.value, ast.Constant))]
    is_load = ["loadtxt" in ast.unparse(s_) and isinstance(s_, ast.Assign) for s_ in body]
    if any(is_load[k] for k in range(is_load.index(False) if False in is_load else len(is_load), len(is_load))):
        raise Unavailable("read_network: a table is loaded after the object has already been modified "
                          "(a failed read is no longer all-or-nothing)")
    return out


def _index_patterns(fn: ast.FunctionDef, names: dict[str, str]) -> dict:
    """columns used as `X[i, c]` per table variable, and that coordinates are read as `X[i, :]`;
    the role of each access is taken from where it is used (add_node / add_edge arguments)"""
    cols = {}
    loops = [s for s in fn.body if isinstance(s, ast.For)]
    if len(loops) != 2:
        raise Unavailable("read_network: expected a node loop and an edge loop")

    def sub(n: ast.AST, var: str):
        """X[var, c] -> (X, c) ; X[var, :] -> (X, ':')"""
        if isinstance(n, ast.Call) and ast.unparse(n.func) == "int" and len(n.args) == 1:
            n = n.args[0]
        if isinstance(n, ast.Subscript) and isinstance(n.slice, ast.Tuple) and len(n.slice.elts) == 2 \
                and ast.unparse(n.slice.elts[0]) == var:
            c = n.slice.elts[1]
            if isinstance(c, ast.Constant) and isinstance(c.value, int) and c.value >= 0:
                return ast.unparse(n.value), c.value
            if isinstance(c, ast.Slice) and c.lower is None and c.upper is None and c.step is None:
                return ast.unparse(n.value), ":"
        raise Unavailable(f"index pattern `{ast.unparse(n)}`")

    def loop_info(loop: ast.For, size_of: str, method: str, npos: int):
        var = ast.unparse(loop.target)
        if ast.unparse(loop.iter) != f"range(np.size({size_of}, 0))":
            raise Unavailable(f"loop bound `{ast.unparse(loop.iter)}`")
        if len(loop.body) != 1 or not isinstance(loop.body[0], ast.Expr):
            raise Unavailable("loop body")
        call = loop.body[0].value
        if not (isinstance(call, ast.Call) and ast.unparse(call.func) == f"self.G.{method}" and
                len(call.args) == npos):
            raise Unavailable(f"expected self.G.{method}")
        pos = [sub(a, var) for a in call.args]
        for a in call.args:
            if not (isinstance(a, ast.Call) and ast.unparse(a.func) == "int"):
                raise Unavailable("label not converted with int()")
        kw = {k.arg: sub(k.value, var) for k in call.keywords}
        if set(kw) != {"energy", "coords"}:
            raise Unavailable(f"keywords {sorted(kw)}")
        return pos, kw

    md, mc, td, tc = (names[t] for t in ("min.data", "min.coords", "ts.data", "ts.coords"))
    pos, kw = loop_info(loops[0], md, "add_node", 1)
    if pos[0][0] != md or kw["energy"][0] != md or kw["coords"] != (mc, ":"):
        raise Unavailable("node loop reads unexpected arrays")
    cols["minLabelCol"], cols["minEnergyCol"] = pos[0][1], kw["energy"][1]
    pos, kw = loop_info(loops[1], td, "add_edge", 2)
    if pos[0][0] != td or pos[1][0] != td or kw["energy"][0] != td or kw["coords"] != (tc, ":"):
        raise Unavailable("edge loop reads unexpected arrays")
    cols["tsUCol"], cols["tsVCol"], cols["tsEnergyCol"] = pos[0][1], pos[1][1], kw["energy"][1]
    if any(c == ":" for c in cols.values()):
        raise Unavailable("slice where a column was expected")
    # the counters are assigned from the table sizes
    assigns = {ast.unparse(s.targets[0]): ast.unparse(s.value) for s in fn.body if isinstance(s, ast.Assign)}
    if assigns.get("self.n_minima") != f"np.size({md}, 0)" or assigns.get("self.n_ts") != f"np.size({td}, 0)":
        raise Unavailable("counters not assigned from np.size(·, 0)")
    return cols


_FMT = {"%i": ".i", "%d": ".i", "%8.5f": ".f5", "%.18e": ".full"}


def _savetxt_formats(fn: ast.FunctionDef) -> dict:
    out = {}
    for s in ast.walk(fn):
        if isinstance(s, ast.Call) and ast.unparse(s.func) == "np.savetxt":
            table = _table_of(s)
            fmt = None
            for k in s.keywords:
                if k.arg == "fmt":
                    if not (isinstance(k.value, ast.Constant) and isinstance(k.value.value, str)):
                        raise Unavailable("fmt is not a literal")
                    fmt = k.value.value
                else:
                    raise Unavailable(f"savetxt keyword {k.arg}")
            kinds = ["%.18e"] if fmt is None else fmt.split()
            if any(k not in _FMT for k in kinds):
                raise Unavailable(f"format `{fmt}`")
            out[table] = [_FMT[k] for k in kinds]
    if set(out) != set(TABLES):
        raise Unavailable(f"tables saved: {sorted(out)}")
    if out["min.coords"] != out["ts.coords"] or len(out["min.coords"]) != 1 or len(out["pairlist"]) != 1:
        raise Unavailable("coordinate/history formats")
    return out


def regenerate() -> dict:
    status: dict = {}
    tree = parse(FILE)
    try:
        rn = find_function(tree, "read_network", "KineticTransitionNetwork")
        loads = _loadtxt_calls(rn)
        cols = _index_patterns(rn, {t: v[0] for t, v in loads.items()})
        fields = [f"{TABLES[t]} := ⟨{loads[t][1]}, {lean_bool(loads[t][2])}, {lean_bool(loads[t][3])}⟩"
                  for t in TABLES]
        fields += [f"{k} := {v}" for k, v in cols.items()]
        read_spec = "{ " + ",\n    ".join(fields) + " }"
        status["IOSpec.readSpec"] = {t: {"ndmin": loads[t][1], "int": loads[t][2], "reshape(-1,2)": loads[t][3]}
                                     for t in TABLES} | cols
    except Unavailable as e:
        read_spec = "TopSearch.IO.ReadSpec.repaired"
        status["IOSpec.readSpec"] = f"unavailable ({e}); correspondence is the only tie"
    try:
        dn = find_function(tree, "dump_network", "KineticTransitionNetwork")
        f = _savetxt_formats(dn)
        dump_spec = ("{ tsData := [" + ", ".join(f["ts.data"]) + "], minData := [" + ", ".join(f["min.data"]) +
                     f"], coords := {f['min.coords'][0]}, pairlist := {f['pairlist'][0]} }}")
        status["IOSpec.dumpSpec"] = f
    except Unavailable as e:
        dump_spec = "TopSearch.IO.DumpSpec.standard"
        status["IOSpec.dumpSpec"] = f"unavailable ({e}); correspondence is the only tie"
    text = ("-- REGENERATED on every run by harness/translate/io_spec.py from\n"
            "-- src/topsearch/data/kinetic_transition_network.py (read_network, dump_network) (do not edit)\n"
            "import TopSearch.Model.IO\n"
            "namespace TopSearch.Gen.IOSpec\n"
            "open TopSearch.IO\n"
            "def readSpec : ReadSpec :=\n"
            f"  {read_spec}\n"
            "def dumpSpec : DumpSpec :=\n"
            f"  {dump_spec}\n"
            "end TopSearch.Gen.IOSpec\n")
    status["Gen/IOSpec.lean rewritten"] = write_if_changed("IOSpec.lean", text)
    return status
