"""State carried between calls: a static def-use reading of the current source.

Many properties quantify over *sequences* — "for all run lengths", "a second search on the same object", "two networks
in one process" — and a whole family of defects lives in what an object, a class or a module remembers from one call to
the next: an attribute that is reset only sometimes, a status flag read before it is written, a cache on the object, a
mutable default argument, a table moved from `__init__` to the class body, a module-level dictionary that a function
updates.  The hand models take every entry point as a FUNCTION of its arguments, the object's options and the oracle
answers; this module checks, on every run, the premise of that modelling decision:

  (1) read-before-write: starting from an entry point (e.g. `HybridEigenvectorFollowing.run`) and following calls to the
      object's own methods (base classes included), every attribute `self.x` that some method other than `__init__`
      assigns is written on every path before it is read.  An attribute that is read first is state carried over from
      the previous call.
  (2) class-level attributes holding mutable objects (shared by all instances);
  (3) mutable default arguments;
  (4) module-level names that a function mutates or declares `global`.

The findings on the pinned tree are recorded in `carried_baseline.json` with the reason each is harmless
(`python -m translate.carried --update` prints new ones; the file is edited by hand).  A finding that is not on record
is reported as `unavailable` — the model's "function of its inputs" reading is no longer known to describe the code —
which check.py treats as a broken tie (deep search; `no-failing-input-found` if nothing is found).  The analysis is
path-insensitive and conservative: `if` joins intersect the written sets, loop bodies may not run, a branch that ends in
`return` / `raise` / `continue` / `break` does not take part in the join."""
from __future__ import annotations

import ast
import json
import sys
from pathlib import Path

if __name__ == "__main__":
    sys.path.insert(0, str(Path(__file__).resolve().parent.parent))

from translate.base import Unavailable, parse  # noqa: E402

BASELINE = Path(__file__).resolve().parent / "carried_baseline.json"

HEF = ("transition_states/hybrid_eigenvector_following.py", "HybridEigenvectorFollowing")
NEB = ("transition_states/nudged_elastic_band.py", "NudgedElasticBand")
BH = ("global_optimisation/basin_hopping.py", "BasinHopping")
SS = ("similarity/similarity.py", "StandardSimilarity")
MS = ("similarity/molecular_similarity.py", "MolecularSimilarity")
NS = ("sampling/exploration.py", "NetworkSampling")
SP = ("global_optimisation/perturbations.py", "StandardPerturbation")
AP = ("global_optimisation/perturbations.py", "AtomicPerturbation")
MP = ("global_optimisation/perturbations.py", "MolecularPerturbation")
SC = ("data/coordinates.py", "StandardCoordinates")
AC = ("data/coordinates.py", "AtomicCoordinates")
MC = ("data/coordinates.py", "MolecularCoordinates")
BASES = {"MolecularSimilarity": SS, "AtomicCoordinates": SC, "MolecularCoordinates": AC}

# entry points per property: (file, class, method)
_SIM = [SS + ("test_new_minimum",), SS + ("test_new_ts",), SS + ("test_same",), MS + ("test_new_minimum",), MS + ("test_same",),
        MS + ("optimal_alignment",)]
_ROUND = [NS + ("run_connection_attempts",), NS + ("connection_attempt",), NS + ("reconverge_landscape",),
          NS + ("reconverge_minima",), NS + ("get_minima",), NS + ("get_transition_states",)]
_PERT = [SP + ("perturb",), AP + ("perturb",), MP + ("perturb",)]
_COORD = [SC + (m,) for m in ("check_bounds", "at_bounds", "all_bounds", "active_bounds", "move_to_bounds")] + \
    [AC + ("same_bonds",), MC + ("same_bonds",), MC + ("get_bonds",), AC + ("remove_atom_clashes",)]
ENTRIES = {
    "C01": [HEF + ("run",), NEB + ("run",), BH + ("run",)] + _ROUND + _SIM,
    "C03": _SIM + _ROUND, "C04": [HEF + ("run",)] + _COORD[:5], "C05": _ROUND + _SIM,
    "C07": [BH + ("run",)] + _PERT + _SIM[:1] + _COORD, "C08": [BH + ("run",)] + _PERT + _SIM[:1] + _COORD,
    "C09": [NEB + ("run",)], "C11": _SIM[3:], "C13": _ROUND, "C14": _ROUND + _PERT + [NEB + ("run",)] + _SIM[3:],
    "C15": [HEF + ("run",)], "C20": _PERT + _COORD,
}
# modules whose class bodies, default arguments and module-level names are screened, per property
M = {"ktn": "data/kinetic_transition_network.py", "coords": "data/coordinates.py", "md": "data/model_data.py",
     "bh": BH[0], "pert": SP[0], "lbfgs": "minimisation/lbfgs.py", "sim": SS[0], "msim": MS[0], "expl": NS[0],
     "hef": HEF[0], "neb": NEB[0], "batch": "analysis/batch_selection.py", "graph": "analysis/graph_properties.py",
     "minp": "analysis/minima_properties.py", "pairs": "analysis/pair_selection.py", "rough": "analysis/roughness.py",
     "disc": "plotting/disconnectivity.py", "pot": "potentials/potential.py", "atomic": "potentials/atomic.py",
     "testf": "potentials/test_functions.py", "gp": "potentials/gaussian_process.py"}
MODULES = {
    "C01": ["expl", "bh", "hef", "neb", "sim", "ktn", "lbfgs", "coords"], "C02": ["ktn", "minp", "pairs", "batch", "graph", "rough", "pot", "disc"],
    "C03": ["sim", "msim", "ktn", "expl"], "C04": ["hef", "coords", "lbfgs", "pot"], "C05": ["expl", "sim", "ktn"], "C06": ["ktn"],
    "C07": ["bh", "pert", "coords", "lbfgs", "sim"], "C08": ["bh", "pert", "coords", "lbfgs", "sim", "expl"], "C09": ["neb", "lbfgs", "coords"],
    "C10": ["lbfgs"], "C11": ["msim", "sim", "coords"], "C12": ["pairs", "minp", "graph", "expl", "sim"], "C13": ["expl", "ktn"],
    "C14": ["expl", "msim", "pairs", "pert", "neb"], "C15": ["hef", "coords", "lbfgs"], "C16": ["pot", "atomic", "testf"],
    "C17": ["batch", "graph", "minp"], "C18": ["graph", "rough", "disc", "minp"], "C19": ["md", "gp"], "C20": ["coords", "pert"],
}

_MUTATORS = {"append", "extend", "insert", "pop", "remove", "clear", "update", "setdefault", "popitem", "sort", "reverse",
             "fill", "resize", "put", "add", "discard", "__setitem__"}
_TERMINAL = (ast.Return, ast.Raise, ast.Continue, ast.Break)


def _class(tree: ast.Module, name: str):
    for n in tree.body:
        if isinstance(n, ast.ClassDef) and n.name == name:
            return n
    raise Unavailable(f"class {name} not found")


def _methods(rel: str, cls: str) -> dict:
    """methods of the class, base classes first (so that overrides win)"""
    out = {}
    if cls in BASES:
        out.update(_methods(*BASES[cls]))
    node = _class(parse(rel), cls)
    for f in node.body:
        if isinstance(f, ast.FunctionDef):
            out[f.name] = f
    return out


def _self_attr(node, me: str):
    return node.attr if isinstance(node, ast.Attribute) and isinstance(node.value, ast.Name) and node.value.id == me else None


class _RBW:
    """read-before-write of `self.<attr>` from one entry point"""

    def __init__(self, methods: dict):
        self.methods = methods
        self.mutable = set()            # attributes assigned by some method other than __init__
        for name, f in methods.items():
            if name == "__init__" or not f.args.args:
                continue
            me = f.args.args[0].arg
            for n in ast.walk(f):
                if isinstance(n, (ast.Assign, ast.AugAssign, ast.AnnAssign)):
                    tg = n.targets if isinstance(n, ast.Assign) else [n.target]
                    for t in tg:
                        for el in ast.walk(t):
                            a = _self_attr(el, me)
                            if a and isinstance(el.ctx, ast.Store):
                                self.mutable.add(a)
        self.carried: dict[str, str] = {}

    def reads(self, expr, me, written: set, stack: tuple, where: str):
        if expr is None:
            return
        for n in _in_order(expr):
            a = _self_attr(n, me)
            if a and isinstance(n.ctx, ast.Load) and a in self.mutable and a not in written and a not in self.methods:
                self.carried.setdefault(a, f"{where}: `{ast.unparse(n)}` is read before any assignment of this call "
                                           f"(line {getattr(n, 'lineno', '?')})")
            if isinstance(n, ast.Call):
                m = _self_attr(n.func, me)
                if m and m in self.methods and m not in stack and len(stack) < 12:
                    f = self.methods[m]
                    w2 = self.block(f.body, f.args.args[0].arg if f.args.args else "self", set(written), stack + (m,), m)
                    written |= w2

    def block(self, stmts, me, written: set, stack: tuple, where: str) -> set:
        for st in stmts:
            if isinstance(st, ast.Assign):
                self.reads(st.value, me, written, stack, where)
                for t in st.targets:
                    self._targets(t, me, written, stack, where)
            elif isinstance(st, ast.AnnAssign):
                self.reads(st.value, me, written, stack, where)
                if st.value is not None:
                    self._targets(st.target, me, written, stack, where)
            elif isinstance(st, ast.AugAssign):
                self.reads(st.value, me, written, stack, where)
                load = ast.parse(ast.unparse(st.target), mode="eval").body
                ast.copy_location(load, st.target)
                self.reads(load, me, written, stack, where)
                self._targets(st.target, me, written, stack, where)
            elif isinstance(st, ast.If):
                self.reads(st.test, me, written, stack, where)
                w1 = self.block(st.body, me, set(written), stack, where)
                w2 = self.block(st.orelse, me, set(written), stack, where)
                t1 = bool(st.body) and isinstance(st.body[-1], _TERMINAL)
                t2 = bool(st.orelse) and isinstance(st.orelse[-1], _TERMINAL)
                written = (w2 if t1 and not t2 else w1 if t2 and not t1 else w1 & w2) | written
            elif isinstance(st, (ast.For, ast.While)):
                self.reads(st.iter if isinstance(st, ast.For) else st.test, me, written, stack, where)
                self.block(st.body, me, set(written), stack, where)
                self.block(st.orelse, me, set(written), stack, where)
            elif isinstance(st, ast.With):
                for it in st.items:
                    self.reads(it.context_expr, me, written, stack, where)
                written = self.block(st.body, me, written, stack, where)
            elif isinstance(st, ast.Try):
                wb = self.block(st.body, me, set(written), stack, where)
                for h in st.handlers:
                    self.block(h.body, me, set(written), stack, where)
                self.block(st.orelse, me, set(wb), stack, where)
                self.block(st.finalbody, me, set(written), stack, where)
            elif isinstance(st, (ast.FunctionDef, ast.ClassDef)):
                continue
            else:
                for child in ast.iter_child_nodes(st):
                    if isinstance(child, ast.expr):
                        self.reads(child, me, written, stack, where)
        return written

    def _targets(self, t, me, written, stack, where):
        if isinstance(t, (ast.Tuple, ast.List)):
            for e in t.elts:
                self._targets(e, me, written, stack, where)
            return
        a = _self_attr(t, me)
        if a:
            written.add(a)
        else:                            # self.x[i] = v, self.x.y = v: reads self.x
            self.reads(t, me, written, stack, where)


def _in_order(expr):
    """nodes of an expression roughly in evaluation order (children before a call that uses them)"""
    out = []

    def go(n):
        for c in ast.iter_child_nodes(n):
            go(c)
        out.append(n)
    go(expr)
    return out


def _is_mutable_value(v) -> bool:
    if isinstance(v, (ast.List, ast.Dict, ast.Set, ast.ListComp, ast.DictComp, ast.SetComp)):
        return True
    if isinstance(v, ast.Call):
        f = ast.unparse(v.func)
        return f in ("list", "dict", "set", "bytearray", "defaultdict", "OrderedDict", "collections.defaultdict") or \
            f.startswith(("np.", "numpy.")) and f.split(".")[-1] in ("array", "zeros", "ones", "empty", "full", "arange",
                                                                      "zeros_like", "eye", "asarray", "linspace")
    return False


def module_findings(rel: str) -> dict[str, str]:
    out = {}
    tree = parse(rel)
    top = {}
    for n in tree.body:
        if isinstance(n, ast.Assign):
            for t in n.targets:
                if isinstance(t, ast.Name):
                    top[t.id] = n.value
        elif isinstance(n, ast.AnnAssign) and isinstance(n.target, ast.Name) and n.value is not None:
            top[n.target.id] = n.value
    funcs = []
    for n in tree.body:
        if isinstance(n, ast.FunctionDef):
            funcs.append(("", n))
        elif isinstance(n, ast.ClassDef):
            for b in n.body:
                if isinstance(b, ast.FunctionDef):
                    funcs.append((n.name + ".", b))
                elif isinstance(b, (ast.Assign, ast.AnnAssign)):
                    v = b.value
                    names = [ast.unparse(t) for t in (b.targets if isinstance(b, ast.Assign) else [b.target])]
                    if v is not None and _is_mutable_value(v):
                        out[f"{rel}:{n.name}.<class body>:{names[0]}"] = \
                            f"class-level attribute `{names[0]} = {ast.unparse(v)[:50]}` is one object shared by all instances"
    for prefix, f in funcs:
        for d in list(f.args.defaults) + [d for d in f.args.kw_defaults if d is not None]:
            if _is_mutable_value(d):
                out[f"{rel}:{prefix}{f.name}:default"] = f"mutable default argument `{ast.unparse(d)[:40]}` is shared by all calls"
        local = {a.arg for a in f.args.args + f.args.kwonlyargs}
        for n in ast.walk(f):
            if isinstance(n, ast.Name) and isinstance(n.ctx, ast.Store):
                local.add(n.id)
        for n in ast.walk(f):
            if isinstance(n, ast.Global):
                for g in n.names:
                    out[f"{rel}:{prefix}{f.name}:global:{g}"] = f"`global {g}`: module-level state written by a function"
            tgt = None
            if isinstance(n, (ast.Assign, ast.AugAssign)):
                for t in (n.targets if isinstance(n, ast.Assign) else [n.target]):
                    base = t
                    while isinstance(base, (ast.Subscript, ast.Attribute)):
                        base = base.value
                    if isinstance(base, ast.Name) and base is not t and base.id in top and base.id not in local:
                        tgt = base.id
            if isinstance(n, ast.Call) and isinstance(n.func, ast.Attribute) and n.func.attr in _MUTATORS and \
                    isinstance(n.func.value, ast.Name) and n.func.value.id in top and n.func.value.id not in local \
                    and _is_mutable_value(top[n.func.value.id]):
                tgt = n.func.value.id
            if tgt:
                out[f"{rel}:{prefix}{f.name}:module:{tgt}"] = f"module-level `{tgt}` is modified inside `{prefix}{f.name}`"
    return out


def findings(prop: str) -> dict[str, str]:
    out = {}
    for rel, cls, entry in ENTRIES.get(prop, []):
        try:
            ms = _methods(rel, cls)
            if entry not in ms:
                raise Unavailable(f"{cls}.{entry} not found")
            r = _RBW(ms)
            f = ms[entry]
            r.block(f.body, f.args.args[0].arg if f.args.args else "self", set(), (entry,), entry)
            for a, why in r.carried.items():
                out[f"{cls}.{entry}:self.{a}"] = why
        except Unavailable as e:
            out[f"{cls}.{entry}:<unreadable>"] = str(e)
    for m in MODULES.get(prop, []):
        try:
            out.update(module_findings(M[m]))
        except Unavailable as e:
            out[f"{M[m]}:<unreadable>"] = str(e)
    return out


def write_gen(prop: str, new: dict) -> bool:
    from translate.base import write_if_changed
    items = ", ".join('"' + k.replace("\\", "/").replace('"', "'") + '"' for k in sorted(new))
    text = ("-- REGENERATED on every run by harness/translate/carried.py from the current source (do not edit)\n"
            "-- findings of the carried-state analysis (entry points and modules of the property being checked) that are\n"
            "-- not on record in carried_baseline.json\n"
            "namespace TopSearch.Gen.Carried\n"
            f"def unrecorded : List String := [{items}]\n"
            "end TopSearch.Gen.Carried\n")
    return write_if_changed("Carried.lean", text)


def check(prop: str, write: bool = False) -> dict:
    try:
        base = json.loads(BASELINE.read_text())
    except (OSError, ValueError) as e:
        return {"Carried._error": f"unavailable (baseline unreadable: {e})"}
    got = findings(prop)
    status = {}
    new = {k: v for k, v in got.items() if k not in base}
    if write:
        write_gen(prop, new)
    status["Carried.entry_points"] = f"{len(ENTRIES.get(prop, []))} entry points, {len(MODULES.get(prop, []))} modules screened; " \
                                     f"{len(got) - len(new)} recorded finding(s), each with its reason in carried_baseline.json"
    for k, v in sorted(new.items()):
        status[f"Carried.{k}"] = (f"unavailable (state carried between calls that is not on record: {v}); the models take this "
                                  "entry point as a function of its inputs — correspondence and predicates are the only tie")
    return status


def regenerate() -> dict:
    st = {}
    for p in sorted(set(ENTRIES) | set(MODULES)):
        st.update({f"{p}:{k}": v for k, v in check(p).items()})
    return st


if __name__ == "__main__":
    allf = {}
    for p in sorted(set(ENTRIES) | set(MODULES)):
        allf.update(findings(p))
    if "--update" in sys.argv:
        base = json.loads(BASELINE.read_text()) if BASELINE.exists() else {}
        for k, v in sorted(allf.items()):
            if k not in base:
                print("NEW", k, "::", v)
                base[k] = {"finding": v, "why_harmless": "TODO"}
        BASELINE.write_text(json.dumps(base, indent=1, sort_keys=True) + "\n")
    else:
        for k, v in sorted(allf.items()):
            print(k, "::", v)
