"""Helper functions whose model is a literal transcription and which no other translator reads: each is accepted
only if its body (docstring, comments, formatting, annotations and the names of locals aside) is, statement for
statement, the text the model was transcribed from.  A function that differs is reported as `unavailable`, which
check.py treats as a broken tie (deep search, `no-failing-input-found` if nothing is found).  Nothing is generated:
the Lean definitions named in the comments ARE the transcription."""
from __future__ import annotations

import ast

from .base import Unavailable, find_function, parse, spelling
from .ktn_cfg import normalised

# name -> (file, class, argument names, statements, the Lean definition transcribed from it)
REGISTRY = {
    "get_minima_energies": ("analysis/minima_properties.py", None, ["ktn"],
                            ["energies = np.zeros(ktn.n_minima, dtype=float)",
                             "for i in range(ktn.n_minima):\n    energies[i] = ktn.get_minimum_energy(i)",
                             "return energies"],
                            "Batch.Net.energy read by index (Model/Batch.lean)"),
    "get_ordered_minima": ("analysis/minima_properties.py", None, ["ktn"],
                           ["energies = get_minima_energies(ktn)", "return np.argsort(energies)"],
                           "Batch.ordered = stable argsort of the energies by index"),
    "get_batch_positions": ("analysis/batch_selection.py", None, ["ktn", "batch_indices"],
                            ["batch_points = np.zeros((len(batch_indices), ktn.get_minimum_coords(0).size), dtype=float)",
                             "for idx, i in enumerate(batch_indices):\n    batch_points[idx, :] = ktn.get_minimum_coords(i)",
                             "return batch_points"],
                            "the coordinates handed back are those of the listed minima, as float64 rows"),
}


def check(names: list[str]) -> dict:
    status = {}
    for name in names:
        rel, cls, args, texts, what = REGISTRY[name]
        try:
            fn = find_function(parse(rel), name, cls)
            got_args = [a.arg for a in fn.args.args]
            if got_args != args or fn.args.vararg or fn.args.kwarg or fn.args.kwonlyargs or fn.decorator_list:
                raise Unavailable(f"signature {got_args}")
            body = [s for s in fn.body if not (isinstance(s, ast.Expr) and isinstance(s.value, ast.Constant)
                                               and isinstance(s.value.value, str))]
            got = normalised(body, args)
            want = normalised(spelling(ast.parse("\n".join(texts))).body, args)
            if got != want:
                k = next((i for i, (a, b) in enumerate(zip(got, want)) if a != b), min(len(got), len(want)))
                a = got[k][:70] if k < len(got) else "<end>"
                b = want[k][:70] if k < len(want) else "<end>"
                raise Unavailable(f"statement {k + 1} is `{a}`, the model was transcribed from `{b}`")
            status[f"Transcript.{name}"] = f"verified statement by statement ({what})"
        except Unavailable as e:
            status[f"Transcript.{name}"] = f"unavailable ({name}: {e}); correspondence and predicates are the only tie"
    return status


# constructors that do nothing but store their options: (file, class, {attribute: parameter} for the stores whose
# attribute is not the parameter's own name).  The models take the options as the caller passed them.
CONSTRUCTORS = {
    "HybridEigenvectorFollowing": ("transition_states/hybrid_eigenvector_following.py", {}),
    "NudgedElasticBand": ("transition_states/nudged_elastic_band.py", {"original_image_density": "image_density"}),
    "BasinHopping": ("global_optimisation/basin_hopping.py", {}),
    "NetworkSampling": ("sampling/exploration.py", {}),
    "StandardSimilarity": ("similarity/similarity.py", {}),
    "MolecularSimilarity": ("similarity/molecular_similarity.py", {}),
    "StandardPerturbation": ("global_optimisation/perturbations.py", {}),
    "AtomicPerturbation": ("global_optimisation/perturbations.py", {}),
    "MolecularPerturbation": ("global_optimisation/perturbations.py", {}),
}


def constructor_wiring(classes: list[str]) -> dict:
    """every statement of `__init__` is `self.<option> = <option>` (the option under its own name, or one of the listed
    aliases) or the initialisation of internal state with a literal; every option is stored.  `self.tol = max(tol, other)`
    or `self.a = b` is outside this grammar."""
    status = {}
    for cls in classes:
        rel, alias = CONSTRUCTORS[cls]
        try:
            fn = find_function(parse(rel), "__init__", cls)
            params = [a.arg for a in fn.args.args[1:]] + [a.arg for a in fn.args.kwonlyargs]
            stored = set()
            for st in fn.body:
                if isinstance(st, ast.Expr) and isinstance(st.value, ast.Constant) and isinstance(st.value.value, str):
                    continue
                if not (isinstance(st, ast.Assign) and len(st.targets) == 1 and isinstance(st.targets[0], ast.Attribute)
                        and isinstance(st.targets[0].value, ast.Name) and st.targets[0].value.id == "self"):
                    raise Unavailable(f"statement `{ast.unparse(st)[:60]}`")
                attr, v = st.targets[0].attr, st.value
                if isinstance(v, ast.Name) and v.id in params:
                    if attr != v.id and alias.get(attr) != v.id:
                        raise Unavailable(f"`self.{attr} = {v.id}`: the option is stored under another option's name")
                    if attr in params and attr != v.id:
                        raise Unavailable(f"`self.{attr} = {v.id}`")
                    stored.add(v.id)
                elif attr in params:
                    raise Unavailable(f"`self.{attr} = {ast.unparse(v)[:40]}`: the option is not stored as given")
                elif isinstance(v, ast.Constant) or (isinstance(v, ast.UnaryOp) and isinstance(v.operand, ast.Constant)):
                    continue
                else:
                    raise Unavailable(f"`self.{attr} = {ast.unparse(v)[:40]}`")
            missing = [q for q in params if q not in stored and q != "tag"]
            if missing:
                raise Unavailable(f"options never stored: {missing}")
            status[f"Constructor.{cls}"] = f"stores its {len(stored)} options as given, nothing else"
        except Unavailable as e:
            status[f"Constructor.{cls}"] = f"unavailable ({cls}.__init__: {e}); correspondence and predicates are the only tie"
    return status


def regenerate() -> dict:
    """everything this module checks (used by harness/translator_audit.py; the checks call `check` /
    `constructor_wiring` with the names their property needs)"""
    st = check(list(REGISTRY))
    st.update(constructor_wiring(list(CONSTRUCTORS)))
    return st
