"""The transcription tie: functions whose *control flow* a hand-written Lean model transcribes.

The kernel translators read formulas, operators, constants and keyword wiring out of these functions; the order of
their statements, their loops, guards, early returns, calls and stores are transcribed by hand in `Model/*.lean`
(one text of the source was read, and the correspondence check compares behaviour on every run).  This module makes
that transcription explicit: `skeleton_baseline.json` (committed; `python -m translate.skeleton --update` rewrites it
from the tree under $TOPSEARCH_REPO) holds, for every such function, the statements the model was transcribed from,
in a normal form that forgets what cannot change behaviour:

  * docstrings, comments, formatting, type annotations;
  * the names of local variables (numbered in order of first binding);
  * `range(0, n)`, `enumerate(x, 0)`, `np.array(x, copy=True)`, annotated assignments, `t = t + e` for `t += e`
    (`translate/base.py:_Spelling`, `ktn_cfg._Normalise`);
  * helper locals bound once to pure arithmetic (inlined where they are read, `base.inline_pure_locals`);
  * statements that only write log text (`with open('logfile', …) as f: f.write(…)`, `print(…)`).

On every run the current source is brought to the same normal form and compared statement by statement.  A function
that differs is reported as `unavailable` — the model is then a transcription of a text that is no longer there —
which check.py treats like every other kernel it cannot read: a broken tie, the deep failing-input search, and
`no-failing-input-found` when the search finds nothing.  A harmless rewrite that survives the normal form (an
`if … else` turned into an early `continue`, a loop respelled as a comprehension) ends the same way; that is what the
protocol prescribes for a tie that cannot be re-established automatically, and re-transcribing is one `--update`
after the model has been compared with the new text."""
from __future__ import annotations

import ast
import copy
import json
import sys
from pathlib import Path

if __name__ == "__main__":
    sys.path.insert(0, str(Path(__file__).resolve().parent.parent))

from translate.base import Unavailable, find_function, inline_pure_locals, parse  # noqa: E402
from translate.ktn_cfg import normalised  # noqa: E402

BASELINE = Path(__file__).resolve().parent / "skeleton_baseline.json"

EXPL = "sampling/exploration.py"
SIM = "similarity/similarity.py"
MSIM = "similarity/molecular_similarity.py"
KTN = "data/kinetic_transition_network.py"
BH = "global_optimisation/basin_hopping.py"
HEF = "transition_states/hybrid_eigenvector_following.py"
NEB = "transition_states/nudged_elastic_band.py"
COORD = "data/coordinates.py"
PERT = "global_optimisation/perturbations.py"
BATCH = "analysis/batch_selection.py"
GRAPH = "analysis/graph_properties.py"
MINP = "analysis/minima_properties.py"
PAIRS = "analysis/pair_selection.py"
ROUGH = "analysis/roughness.py"
DISC = "plotting/disconnectivity.py"
MDATA = "data/model_data.py"
GP = "potentials/gaussian_process.py"
POT = "potentials/potential.py"


def _f(rel, cls, *names):
    return [(rel, cls, n) for n in names]


NS, SS, MS, K = "NetworkSampling", "StandardSimilarity", "MolecularSimilarity", "KineticTransitionNetwork"
H, N = "HybridEigenvectorFollowing", "NudgedElasticBand"

_GATES = _f(SIM, SS, "is_new_minimum", "is_new_ts", "test_new_minimum", "test_new_ts")
_ROUND = _f(EXPL, NS, "run_connection_attempts", "connection_attempt", "prepare_connection_attempt", "check_pair")
_RECONV = _f(EXPL, NS, "reconverge_minima", "reconverge_landscape")
_BH = _f(BH, "BasinHopping", "run", "prepare_initial_coordinates", "metropolis")
_HEF_RUN = _f(HEF, H, "run", "steepest_descent_paths", "find_pushoff", "do_pushoff", "test_convergence",
              "take_uphill_step", "subspace_minimisation", "get_local_bounds", "analytic_step_size", "steepest_descent")
_HEF_EIG = _f(HEF, H, "get_smallest_eigenvector", "check_eigenvector_direction", "project_onto_bounds",
              "update_eigenvector_bounds", "check_valid_eigenvector", "remove_zero_eigenvectors",
              "parallel_component", "perpendicular_component", "generate_random_vector")
_GRAPH = _f(GRAPH, None, "all_minima_connected", "are_nodes_connected", "disconnected_height", "get_connections",
            "remove_edges_threshold", "unconnected_component")

# property -> the functions its hand model transcribes (the KTN mutators, `read_network`, `test_same`, the surfaces,
# `lbfgs.minimise`, the model-data formulas and the box predicates are read completely by their own translators)
PROP_FUNCS: dict[str, list] = {
    "C01": _f(EXPL, NS, "get_minima", "get_transition_states") + _RECONV + _ROUND + _GATES,
    "C02": _f(KTN, K, "get_minimum_coords", "get_minimum_energy", "get_ts_coords", "get_ts_energy"),
    "C03": _GATES + _f(KTN, K, "add_network") + _f(SIM, SS, "closest_distance", "distance"),
    "C04": _HEF_RUN + _f(HEF, H, "check_valid_eigenvector"),
    "C05": _ROUND + _RECONV + _GATES + _f(EXPL, NS, "write_failure_condition"),
    "C06": _f(KTN, K, "dump_network", "add_network"),
    "C07": _BH,
    "C08": _BH + _f(EXPL, NS, "get_minima"),
    "C09": _f(NEB, N, "run", "initial_interpolation", "linear_interpolation", "dihedral_interpolation",
              "find_ts_candidates", "band_function_gradient", "band_potential_function", "find_tangent_differences",
              "minimise_interpolation", "update_image_density", "revert_image_density", "get_force_constants",
              "perpendicular_component"),
    "C10": [],
    "C11": _f(SIM, SS, "optimal_alignment", "closest_distance", "centre", "distance") +
           _f(MSIM, MS, "optimal_alignment", "align", "permutational_alignment", "rotational_alignment",
              "test_exact_same", "closest_distance", "centre", "invert", "generate_pairs", "get_permutable_groups",
              "get_furthest_from_centre", "get_furthest_perpendicular", "test_same"),
    "C12": _f(PAIRS, None, "closest_enumeration", "connect_to_set", "connect_unconnected", "unique_pairs") +
           _f(MINP, None, "get_distance_matrix", "get_distance_from_minimum") + _f(GRAPH, None, "unconnected_component") +
           _f(EXPL, NS, "select_minima"),
    "C13": _ROUND + _f(KTN, K, "add_network", "dump_network"),
    "C14": _f(EXPL, NS, "run_connection_attempts", "connection_attempt", "prepare_connection_attempt"),
    "C15": _HEF_EIG,
    "C16": _f(POT, "Potential", "check_valid_minimum", "check_valid_ts"),
    "C17": _f(BATCH, None, "select_batch", "generate_batch", "fill_batch", "lowest_batch_selector",
              "monotonic_batch_selector", "barrier_batch_selector", "topographical_batch_selector", "sufficient_barrier",
              "get_excluded_minima") + _GRAPH,
    "C18": _GRAPH + _f(ROUGH, None, "roughness_metric", "get_population") +
           _f(DISC, None, "get_connectivity_graph", "find_parent"),
    "C19": _f(MDATA, "ModelData", "remove_duplicates", "append_data", "read_data", "feature_subset",
              "limit_response_maximum") + _f(GP, "GaussianProcess", "add_data", "prepare_training_data"),
    "C20": _f(COORD, "StandardCoordinates", "check_bounds", "at_bounds", "all_bounds", "active_bounds", "move_to_bounds",
              "generate_random_point") +
           _f(PERT, "StandardPerturbation", "perturb", "set_step_sizes") + _f(PERT, "AtomicPerturbation", "perturb") +
           _f(PERT, "MolecularPerturbation", "perturb") +
           _f(COORD, "MolecularCoordinates", "rotate_dihedral", "rotate_angle", "change_bond_length", "change_bond_lengths",
              "change_bond_angles", "change_dihedral_angles", "get_movable_atoms", "get_rotation_matrix"),
}


# functions of other modules a property's model leans on (its oracles' callers, its inputs' producers)
_BOX = _f(COORD, "StandardCoordinates", "check_bounds", "at_bounds", "all_bounds", "active_bounds", "move_to_bounds")
_ATOMS = _f(COORD, "AtomicCoordinates", "same_bonds", "remove_atom_clashes", "check_atom_clashes", "get_connected_atoms") + \
    _f(COORD, "MolecularCoordinates", "remove_atom_clashes")
_MSIM = _f(MSIM, MS, "test_same", "optimal_alignment", "test_exact_same", "align", "permutational_alignment",
           "rotational_alignment", "centre", "closest_distance")
_PERTS = _f(PERT, "StandardPerturbation", "perturb", "set_step_sizes") + _f(PERT, "AtomicPerturbation", "perturb") + \
    _f(PERT, "MolecularPerturbation", "perturb")
_PRUNE = _f(MINP, None, "get_invalid_minima", "get_all_bounds_minima", "get_bounds_minima", "get_similar_minima")
_DEPENDS = {
    "C01": _HEF_RUN + _f(HEF, H, "get_smallest_eigenvector") + _BH + _BOX + _PRUNE +
           _f(NEB, N, "run", "find_ts_candidates", "minimise_interpolation", "initial_interpolation"),
    "C02": _PRUNE + _GRAPH + _f(BATCH, None, "get_batch_positions", "evaluate_batch") + _f(COORD, "StandardCoordinates", "move_to_bounds") + _f(KTN, K, "add_network") + _f(DISC, None, "get_connectivity_graph") +
           _f(ROUGH, None, "roughness_metric") +
           _f(BATCH, None, "select_batch", "generate_batch", "fill_batch", "barrier_batch_selector",
              "topographical_batch_selector", "monotonic_batch_selector", "lowest_batch_selector", "sufficient_barrier",
              "get_excluded_minima"),
    "C03": _MSIM + _RECONV + _f(EXPL, NS, "get_minima", "get_transition_states", "connection_attempt", "run_connection_attempts"),
    "C04": _BOX,
    "C07": _ATOMS + _PERTS + _f(SIM, SS, "test_new_minimum", "is_new_minimum") + _f(MSIM, MS, "centre"),
    "C08": _ATOMS + _PERTS + _f(SIM, SS, "test_new_minimum", "is_new_minimum") + _f(MSIM, MS, "centre"),
    "C11": _f(EXPL, NS, "prepare_connection_attempt"),
    "C14": _f(NEB, N, "run", "initial_interpolation", "linear_interpolation", "dihedral_interpolation", "update_image_density",
              "revert_image_density", "minimise_interpolation", "find_ts_candidates") + _HEF_RUN + _PERTS + _f(MSIM, MS, "optimal_alignment", "align", "permutational_alignment", "rotational_alignment",
                       "random_rotation", "generate_pairs", "get_permutable_groups") +
           _f(PAIRS, None, "closest_enumeration", "connect_to_set", "connect_unconnected", "unique_pairs"),
    "C15": _f(HEF, H, "run") + _BOX,
    "C17": _f(MINP, None, "get_minima_above_cutoff"),
    "C18": _f(MINP, None, "get_minima_above_cutoff") + _GATES,
    "C19": _f(GP, "GaussianProcess", "refit_model", "update_bounds", "initialise_gaussian_process", "lowest_point") +
           _f(MDATA, "ModelData", "write_data"),
    "C06": _f(DISC, None, "get_connectivity_graph") + _GRAPH,
    "C12": _f(SIM, SS, "closest_distance", "distance") + _f(KTN, K, "reset_network"),
}
# upstream of nearly everything: the inherited numerical derivatives, the Lennard-Jones surface the atomic pipelines run
# on, the match test, the loader (each is ALSO read completely by its own kernel translator where a property is about it)
ATOMIC = "potentials/atomic.py"
_POT = _f(POT, "Potential", "gradient", "hessian", "function_gradient", "check_valid_minimum", "check_valid_ts")
_LJ = _f(ATOMIC, "LennardJones", "function", "gradient", "function_gradient", "pair_potential", "squared_distance", "get_atom")
_SAME = _f(SIM, SS, "test_same")
_UP = {
    "C01": _POT + _LJ + _SAME, "C03": _SAME, "C04": _POT, "C05": _SAME, "C06": _f(KTN, K, "read_network"),
    "C07": _POT + _LJ + _SAME, "C08": _POT + _LJ + _SAME, "C09": _POT + _LJ, "C10": _POT + _LJ, "C12": _SAME,
    "C13": _SAME + _f(KTN, K, "read_network"), "C14": _SAME + _LJ, "C15": _POT, "C18": _SAME,
}
_STORE = _f(KTN, K, "add_minimum", "add_ts", "remove_minimum", "remove_minima", "remove_ts", "remove_tss", "reset_network",
            "get_minimum_coords", "get_minimum_energy", "get_ts_coords", "get_ts_energy")
for _p in ("C01", "C03", "C05", "C06", "C08", "C12", "C13", "C14", "C17", "C18"):
    _UP[_p] = _UP.get(_p, []) + _STORE
_MOL = _f(COORD, "MolecularCoordinates", "__init__", "get_rotatable_dihedrals", "get_repeat_dihedrals", "get_planar_rings",
          "get_bond_angle_info", "remove_repeat_angles", "get_specific_bond_angle_info", "get_connected_atoms", "get_bonds") + \
    _f(COORD, "AtomicCoordinates", "__init__", "get_atom") + _f(COORD, "StandardCoordinates", "__init__")
for _p in ("C07", "C08", "C11", "C14", "C20"):
    _UP[_p] = _UP.get(_p, []) + _MOL
for _p, _fs in _UP.items():
    _DEPENDS.setdefault(_p, [])
    _DEPENDS[_p] = list(_DEPENDS[_p]) + _fs
for _p, _fs in _DEPENDS.items():
    for _t in _fs:
        if _t not in PROP_FUNCS[_p]:
            PROP_FUNCS[_p].append(_t)


# closure: every function of the files a property is anchored in (properties.jsonl + fingerprint.EXTRA) is on record,
# except pure output (log / xyz / csv writers, plot rendering) and the wrappers of external engines that no model describes
_OUTPUT_ONLY = {"dump_minima_csv", "get_line_collection", "cut_line_collection", "plot_disconnectivity_graph", "set_xyz",
                "write_fit", "get_score", "initialise_kernel", "function_and_std", "convex_hull", "point_in_hull"}
_SKIP_FILES = {"potentials/force_fields.py"}


def _anchored_closure():
    try:
        import fingerprint
    except Exception:  # noqa: BLE001
        return
    for prop in list(PROP_FUNCS):
        seen = set(PROP_FUNCS[prop])
        for f in fingerprint.files_of(prop):
            rel = f.replace("src/topsearch/", "")
            if rel in _SKIP_FILES:
                continue
            try:
                tree = parse(rel)
            except Unavailable:
                continue
            for n in tree.body:
                items = [(None, n)] if isinstance(n, ast.FunctionDef) else \
                    [(n.name, m) for m in n.body if isinstance(m, ast.FunctionDef)] if isinstance(n, ast.ClassDef) else []
                for cls, fn in items:
                    if fn.name.startswith(("write_", "plot_")) or fn.name in _OUTPUT_ONLY:
                        continue
                    if cls == "GaussianProcess" and fn.name == "function":
                        continue
                    t = (rel, cls, fn.name)
                    if t not in seen:
                        PROP_FUNCS[prop].append(t)
                        seen.add(t)


_anchored_closure()


def _key(rel, cls, name):
    return f"{rel}:{cls + '.' if cls else ''}{name}"


def _is_log_only(st: ast.stmt) -> bool:
    """`with open('logfile', …) as f:` whose body only calls `f.write(…)`; a bare `print(…)`"""
    if isinstance(st, ast.Expr) and isinstance(st.value, ast.Call) and isinstance(st.value.func, ast.Name) \
            and st.value.func.id == "print":
        return True
    if not isinstance(st, ast.With) or len(st.items) != 1:
        return False
    it = st.items[0]
    c = it.context_expr
    if not (isinstance(c, ast.Call) and isinstance(c.func, ast.Name) and c.func.id == "open" and c.args
            and isinstance(c.args[0], ast.Constant) and c.args[0].value == "logfile"
            and isinstance(it.optional_vars, ast.Name)):
        return False
    f = it.optional_vars.id
    for b in st.body:
        if not (isinstance(b, ast.Expr) and isinstance(b.value, ast.Call) and isinstance(b.value.func, ast.Attribute)
                and isinstance(b.value.func.value, ast.Name) and b.value.func.value.id == f
                and b.value.func.attr == "write"):
            return False
        # the text written must not call back into the objects (formatting of numbers only)
        if any(isinstance(n, ast.Call) and not (isinstance(n.func, ast.Name) and n.func.id in ("str", "len", "float", "int", "round"))
               and n is not b.value for n in ast.walk(b.value)):
            return False
    return True


class _DropLogs(ast.NodeTransformer):
    def _clean(self, body):
        out = [s for s in body if not _is_log_only(s)]
        return out or [ast.Pass()]

    def generic_visit(self, node):
        super().generic_visit(node)
        for field in ("body", "orelse", "finalbody"):
            b = getattr(node, field, None)
            if isinstance(b, list) and b and isinstance(b[0], ast.stmt):
                cleaned = [s for s in b if not _is_log_only(s)]
                if field == "body" and not cleaned:
                    cleaned = [ast.Pass()]
                setattr(node, field, cleaned)
        return node


_TERMINAL = (ast.Return, ast.Continue, ast.Break, ast.Raise)
_FLIP = {ast.NotEq: ast.Eq, ast.IsNot: ast.Is, ast.NotIn: ast.In}
_ALIASES = {"np.row_stack": "np.vstack", "numpy.row_stack": "numpy.vstack"}


def _ends_terminal(body) -> bool:
    return bool(body) and isinstance(body[-1], _TERMINAL)


class _Guards(ast.NodeTransformer):
    """two spellings of the same branching are brought to one:
    * `if T: …; return/continue/break/raise` followed by REST   ==   `if T: … else: REST`  (guard style = nested style);
    * `if not T: A else: B` == `if T: B else: A`; the same for `!=`, `is not`, `not in` (NOT for `<`, `<=`, `>`, `>=`:
      `not (a > b)` and `a <= b` differ when a value is NaN);
    * `np.row_stack` is numpy's alias of `np.vstack`."""

    def _block(self, body):
        body = [self.visit(s) for s in body]
        out = []
        for i, st in enumerate(body):
            if isinstance(st, ast.If) and not st.orelse and _ends_terminal(st.body) and i + 1 < len(body):
                st.orelse = self._block(body[i + 1:])
                out.append(self._orient(st))
                return out
            out.append(self._orient(st) if isinstance(st, ast.If) else st)
        return out

    @staticmethod
    def _orient(st: ast.If):
        t = st.test
        if not st.orelse:
            return st
        if isinstance(t, ast.UnaryOp) and isinstance(t.op, ast.Not):
            st.test, st.body, st.orelse = t.operand, st.orelse, st.body
        elif isinstance(t, ast.Compare) and len(t.ops) == 1 and type(t.ops[0]) in _FLIP:
            t.ops = [_FLIP[type(t.ops[0])]()]
            st.body, st.orelse = st.orelse, st.body
        return st

    def generic_visit(self, node):
        for field in ("body", "orelse", "finalbody"):
            b = getattr(node, field, None)
            if isinstance(b, list) and b and isinstance(b[0], ast.stmt):
                setattr(node, field, self._block(b))
        for field, value in ast.iter_fields(node):
            if field in ("body", "orelse", "finalbody"):
                continue
            if isinstance(value, list):
                setattr(node, field, [self.visit(v) if isinstance(v, ast.AST) else v for v in value])
            elif isinstance(value, ast.AST):
                setattr(node, field, self.visit(value))
        return node

    def visit_Attribute(self, node):
        self.generic_visit(node)
        full = ast.unparse(node)
        if full in _ALIASES:
            return ast.copy_location(ast.parse(_ALIASES[full], mode="eval").body, node)
        return node


# comparisons whose operator a kernel translator reads AND whose model follows the source (the theorems hold for
# either spelling): the normal form forgets the operator.  (function key -> [(left text, right text)])
FOLLOWED_OPERATORS = {
    f"{MSIM}:MolecularSimilarity.optimal_alignment": [("dist", "best_dist")],     # tie-breaking, Props/C11Ties.lean
    f"{MSIM}:MolecularSimilarity.test_exact_same": [("dist", "best_dist")],
}


class _Followed(ast.NodeTransformer):
    def __init__(self, pairs):
        self.pairs = set(pairs)

    def visit_Compare(self, node):
        self.generic_visit(node)
        if len(node.ops) == 1 and isinstance(node.ops[0], (ast.Lt, ast.LtE)) and \
                (ast.unparse(node.left), ast.unparse(node.comparators[0])) in self.pairs:
            node.ops = [ast.Lt()]
        return node


def normal_form(fn: ast.FunctionDef, key: str = "") -> dict:
    fn = copy.deepcopy(fn)
    if key in FOLLOWED_OPERATORS:
        fn = _Followed(FOLLOWED_OPERATORS[key]).visit(fn)
    for a in fn.args.args + fn.args.kwonlyargs + fn.args.posonlyargs:
        a.annotation = None
    if fn.args.vararg:
        fn.args.vararg.annotation = None
    if fn.args.kwarg:
        fn.args.kwarg.annotation = None
    fn.returns = None
    if fn.body and isinstance(fn.body[0], ast.Expr) and isinstance(fn.body[0].value, ast.Constant) \
            and isinstance(fn.body[0].value.value, str):
        fn.body = fn.body[1:] or [ast.Pass()]
    fn = ast.fix_missing_locations(_DropLogs().visit(fn))
    fn = inline_pure_locals(fn, set())
    fn = ast.fix_missing_locations(_Guards().visit(fn))
    args = [a.arg for a in fn.args.posonlyargs + fn.args.args + fn.args.kwonlyargs]
    if fn.args.vararg:
        args.append(fn.args.vararg.arg)
    if fn.args.kwarg:
        args.append(fn.args.kwarg.arg)
    sig = ast.unparse(fn.args) + "".join(" @" + ast.unparse(d) for d in fn.decorator_list)
    body = [s for s in fn.body if not isinstance(s, ast.Pass)] or [ast.Pass()]
    return {"signature": sig, "stmts": normalised(body, args)}


def current(rel, cls, name) -> dict:
    return normal_form(find_function(parse(rel), name, cls), _key(rel, cls, name))


def check(prop: str) -> dict:
    """status entries `Transcript.<function>` for the functions `prop`'s model transcribes"""
    status = {}
    try:
        base = json.loads(BASELINE.read_text())
    except (OSError, ValueError) as e:
        return {"Transcript._error": f"unavailable (skeleton baseline unreadable: {e})"}
    for rel, cls, name in PROP_FUNCS.get(prop, []):
        key = _key(rel, cls, name)
        label = f"Transcript.{cls + '.' if cls else ''}{name}"
        want = base.get(key)
        try:
            if want is None:
                raise Unavailable("no transcription on record")
            got = current(rel, cls, name)
            if got["signature"] != want["signature"]:
                raise Unavailable(f"signature `{got['signature'][:80]}`, the model was transcribed from `{want['signature'][:80]}`")
            g, w = got["stmts"], want["stmts"]
            if g != w:
                k = next((i for i, (a, b) in enumerate(zip(g, w)) if a != b), min(len(g), len(w)))
                a = _first_diff_line(g[k], w[k]) if k < len(g) and k < len(w) else (g[k][:80] if k < len(g) else "<end>", w[k][:80] if k < len(w) else "<end>")
                raise Unavailable(f"statement {k + 1} reads `{a[0]}`, the model was transcribed from `{a[1]}`")
            status[label] = f"control flow as transcribed ({len(g)} statements in normal form)"
        except Unavailable as e:
            status[label] = (f"unavailable ({key.split(':')[1]}: {e}); the model transcribes a text that is no longer "
                             f"there — correspondence and predicates are the only tie")
    return status


def _first_diff_line(a: str, b: str):
    la, lb = a.splitlines(), b.splitlines()
    for x, y in zip(la, lb):
        if x != y:
            return x.strip()[:80], y.strip()[:80]
    if len(la) != len(lb):
        return ((la[len(lb)].strip()[:80] if len(la) > len(lb) else "<end>"),
                (lb[len(la)].strip()[:80] if len(lb) > len(la) else "<end>"))
    return a[:80], b[:80]


def regenerate() -> dict:
    """every function on record (used by harness/translator_audit.py)"""
    st = {}
    for p in PROP_FUNCS:
        st.update(check(p))
    return st


def update() -> int:
    out = {}
    for funcs in PROP_FUNCS.values():
        for rel, cls, name in funcs:
            out[_key(rel, cls, name)] = current(rel, cls, name)
    BASELINE.write_text(json.dumps(out, indent=1, sort_keys=True) + "\n")
    print(f"{len(out)} functions, {sum(len(v['stmts']) for v in out.values())} top-level statements on record")
    return 0


if __name__ == "__main__":
    if "--update" in sys.argv:
        sys.exit(update())
    for p in sys.argv[1:] or sorted(PROP_FUNCS):
        for k, v in check(p).items():
            print(p, k, "::", v[:160])
