"""Common helpers of the kernel translator: locate functions in the current source by name
(AST only, the code is never imported here) and write Gen/*.lean files only when changed."""
from __future__ import annotations

import ast
from pathlib import Path

from common import LEAN, SRC

GEN = LEAN / "TopSearch" / "Gen"


class Unavailable(Exception):
    """the kernel cannot be located or is outside the translator's grammar"""


def _is_int0(n: ast.AST) -> bool:
    return isinstance(n, ast.Constant) and type(n.value) is int and n.value == 0


class _Spelling(ast.NodeTransformer):
    """spellings that cannot change what the code does, brought to one form before any translator looks:
    `range(0, n)` -> `range(n)`, `enumerate(x, 0)` / `enumerate(x, start=0)` -> `enumerate(x)`, `np.array(x, copy=True)` ->
    `np.array(x)` (numpy's default, not spelled out), and an annotated assignment `x: T = e` -> `x = e`"""

    def visit_Call(self, node):
        self.generic_visit(node)
        if isinstance(node.func, ast.Name) and node.func.id == "range" and len(node.args) == 2 \
                and not node.keywords and _is_int0(node.args[0]):
            node.args = node.args[1:]
        if isinstance(node.func, ast.Name) and node.func.id == "enumerate":
            if len(node.args) == 2 and not node.keywords and _is_int0(node.args[1]):
                node.args = node.args[:1]
            elif len(node.args) == 1 and len(node.keywords) == 1 and node.keywords[0].arg == "start" \
                    and _is_int0(node.keywords[0].value):
                node.keywords = []
        if ast.unparse(node.func) in ("np.array", "numpy.array"):
            node.keywords = [k for k in node.keywords if not (k.arg == "copy" and isinstance(k.value, ast.Constant)
                                                             and k.value.value is True)]
        return node

    def visit_AnnAssign(self, node):
        self.generic_visit(node)
        if node.value is not None and node.simple:
            return ast.copy_location(ast.Assign(targets=[node.target], value=node.value), node)
        return node


def spelling(tree: ast.AST) -> ast.AST:
    """the same normalisation for a text a translator compares the source with"""
    return ast.fix_missing_locations(_Spelling().visit(tree))


def parse(relpath: str) -> ast.Module:
    p = SRC / relpath
    if not p.exists():
        raise Unavailable(f"{relpath} missing")
    return ast.fix_missing_locations(_Spelling().visit(ast.parse(p.read_text())))


_PURE = (ast.Name, ast.Constant, ast.BinOp, ast.UnaryOp, ast.Load, ast.operator, ast.unaryop)


def inline_pure_locals(fn: ast.FunctionDef, keep: set[str]) -> ast.FunctionDef:
    """a copy of `fn` in which every helper local that is bound exactly once, at the top level of the body, to pure
    arithmetic over names that are never rebound afterwards (and is not one of the names in `keep` the caller
    looks for) is replaced by its definition where it is read.  `step = e_range/intervals; e0 = m + 10*step` and
    `e0 = m + 10*(e_range/intervals)` are the same floating-point computation, so a translator that pattern-matches
    the second also accepts the first."""
    import copy
    fn = copy.deepcopy(fn)
    if any(isinstance(n, (ast.Global, ast.Nonlocal, ast.Delete)) for n in ast.walk(fn)):
        return fn
    changed = True
    while changed:
        changed = False
        stores: dict[str, list[int]] = {}
        for n in ast.walk(fn):
            if isinstance(n, ast.Name) and isinstance(n.ctx, (ast.Store, ast.Del)):
                stores.setdefault(n.id, []).append(n.lineno)
            elif isinstance(n, ast.arg):
                stores.setdefault(n.arg, [])
        for idx, st in enumerate(fn.body):
            if not (isinstance(st, ast.Assign) and len(st.targets) == 1 and isinstance(st.targets[0], ast.Name)):
                continue
            name = st.targets[0].id
            if name in keep or len(stores.get(name, [])) != 1:
                continue
            if not all(isinstance(n, _PURE) for n in ast.walk(st.value)):
                continue
            free = {n.id for n in ast.walk(st.value) if isinstance(n, ast.Name)}
            if name in free or any(any(ln >= st.lineno for ln in stores.get(f, [])) for f in free):
                continue
            # no read of the name before its definition
            if any(isinstance(n, ast.Name) and n.id == name and isinstance(n.ctx, ast.Load) and n.lineno < st.lineno
                   for n in ast.walk(fn)):
                continue
            value = st.value

            class Sub(ast.NodeTransformer):
                def visit_Name(self, node):
                    if node.id == name and isinstance(node.ctx, ast.Load):
                        return ast.copy_location(copy.deepcopy(value), node)
                    return node
            del fn.body[idx]
            fn = ast.fix_missing_locations(Sub().visit(fn))
            changed = True
            break
    return fn


def find_function(tree: ast.Module, name: str, cls: str | None = None) -> ast.FunctionDef:
    scope = tree.body
    if cls is not None:
        for n in tree.body:
            if isinstance(n, ast.ClassDef) and n.name == cls:
                scope = n.body
                break
        else:
            raise Unavailable(f"class {cls} not found")
    for n in scope:
        if isinstance(n, ast.FunctionDef) and n.name == name:
            return n
    raise Unavailable(f"function {cls + '.' if cls else ''}{name} not found")


def write_if_changed(name: str, text: str) -> bool:
    GEN.mkdir(parents=True, exist_ok=True)
    p = GEN / name
    if p.exists() and p.read_text() == text:
        return False
    p.write_text(text)
    return True


def lean_bool(b: bool) -> str:
    return "true" if b else "false"


def src_of(node: ast.AST) -> str:
    return ast.unparse(node)
