"""Common helpers of the kernel translator: locate functions in the current source by name
(AST only, the code is never imported here) and write Gen/*.lean files only when changed."""
from __future__ import annotations

import ast
from pathlib import Path

from common import LEAN, SRC

GEN = LEAN / "TopSearch" / "Gen"


class Unavailable(Exception):
    """the kernel cannot be located or is outside the translator's grammar"""


def parse(relpath: str) -> ast.Module:
    p = SRC / relpath
    if not p.exists():
        raise Unavailable(f"{relpath} missing")
    return ast.parse(p.read_text())


def find_function(tree: ast.Module, name: str, cls: str | None = None) -> ast.FunctionDef:
    scope = tree.body
    if cls is not None:
        for n in tree.body:
            if isinstance(n, ast.ClassDef) and n.name == cls:
                scope = n.body
                break
        else:
            raise Unavailable(f"class {cls} not found")
    for n in scope:
        if isinstance(n, ast.FunctionDef) and n.name == name:
            return n
    raise Unavailable(f"function {cls + '.' if cls else ''}{name} not found")


def write_if_changed(name: str, text: str) -> bool:
    GEN.mkdir(parents=True, exist_ok=True)
    p = GEN / name
    if p.exists() and p.read_text() == text:
        return False
    p.write_text(text)
    return True


def lean_bool(b: bool) -> str:
    return "true" if b else "false"


def src_of(node: ast.AST) -> str:
    return ast.unparse(node)
