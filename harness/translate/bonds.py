"""Gen/Bonds.lean: `MolecularCoordinates.same_bonds` (src/topsearch/data/coordinates.py) read statement by
statement (modulo the names of locals): the count test, the label pair each bond contributes
(`sorted([label_u, label_v])` in both loops) and HOW the two lists of label pairs are compared —
`sorted(a) == sorted(b)` (Compare.sortedLists) or through `np.unique(..., axis=0)` (Compare.uniqueRows, which
forgets how often a kind of bond occurs).  Anything else is unavailable."""
from __future__ import annotations

import ast

from .base import Unavailable, find_function, lean_bool, parse, spelling, write_if_changed
from .ktn_cfg import normalised

FILE = "data/coordinates.py"
HEAD = ["current_bonds = self.get_bonds()",
        "if len(current_bonds.edges()) != len(self.reference_bonds.edges()):\n    return False",
        "current_bond_labels = []",
        "for u, v in current_bonds.edges():\n    current_bond_labels.append(sorted([self.atom_labels[u], self.atom_labels[v]]))",
        "ref_bond_labels = []",
        "for u, v in self.reference_bonds.edges():\n    ref_bond_labels.append(sorted([self.atom_labels[u], self.atom_labels[v]]))"]
TAILS = {
    "sortedLists": ["if sorted(current_bond_labels) == sorted(ref_bond_labels):\n    return True", "return False"],
    "sortedLists-direct": ["return sorted(current_bond_labels) == sorted(ref_bond_labels)"],
    "uniqueRows": ["if np.array_equal(np.unique(current_bond_labels, axis=0), np.unique(ref_bond_labels, axis=0)):\n    return True",
                   "return False"],
}


def kernel() -> str:
    fn = find_function(parse(FILE), "same_bonds", "MolecularCoordinates")
    if [a.arg for a in fn.args.args] != ["self"]:
        raise Unavailable("same_bonds: signature")
    body = [s for s in fn.body if not (isinstance(s, ast.Expr) and isinstance(s.value, ast.Constant)
                                       and isinstance(s.value.value, str))]
    got = normalised(body, ["self"])
    for name, tail in TAILS.items():
        want = normalised(spelling(ast.parse("\n".join(HEAD + tail))).body, ["self"])
        if got == want:
            return name.split("-")[0]
    want = normalised(spelling(ast.parse("\n".join(HEAD + TAILS["sortedLists"]))).body, ["self"])
    for k, (a, b) in enumerate(zip(got, want)):
        if a != b:
            raise Unavailable(f"same_bonds: statement {k + 1} is `{a[:70]}`, the model was transcribed from `{b[:70]}`")
    raise Unavailable(f"same_bonds: {len(got)} statements, the model was transcribed from {len(want)}")


def regenerate() -> dict:
    status: dict = {}
    try:
        c = kernel()
        status["Bonds.same_bonds"] = f"transcription verified statement by statement (compare = {c})"
    except Unavailable as e:
        c = None
        status["Bonds.same_bonds"] = f"unavailable ({e}); the bonding oracle of the predicates is the only tie"
    text = ("-- REGENERATED on every run by harness/translate/bonds.py from\n"
            "-- /repo/src/topsearch/data/coordinates.py (MolecularCoordinates.same_bonds; do not edit)\n"
            "import TopSearch.Model.Bonds\n"
            "namespace TopSearch.Gen.Bonds\n"
            f"def compare : TopSearch.Bonds.Compare := .{c or 'sortedLists'}{'' if c else '  -- kernel unavailable'}\n"
            "/-- the number of bonds is compared first; every bond contributes `sorted([label_u, label_v])` -/\n"
            f"def checksCount : Bool := {lean_bool(True)}\n"
            f"def labelsSorted : Bool := {lean_bool(True)}\n"
            "end TopSearch.Gen.Bonds\n")
    status["Gen/Bonds.lean rewritten"] = write_if_changed("Bonds.lean", text)
    return status
