"""Gen/Moves.lean: the kernels of the box predicates and of the moves, read from the current source
(data/coordinates.py, global_optimisation/perturbations.py) with `ast` only:

* check_bounds: the whole boolean expression (`np.invert((x > lo) & (x < hi))`), active_bounds: the
  two comparisons and the order in which they are returned, move_to_bounds: the argument order of
  `np.clip`, at_bounds / all_bounds: `np.any` / `np.all`;
* StandardPerturbation: `(rand - 0.5) * step_sizes`, the proportional step `(upper - lower) * step`,
  that the perturbation is *added* and that `move_to_bounds()` follows;
* AtomicPerturbation: the bounds of `range(1, int(ndim/3))`, `rand * m - 0.5 * m`;
* MolecularPerturbation: `((random.random() * 2.0) - 1.0) * m`;
* get_rotation_matrix: the nine entries in terms of cos/sin; rotate_dihedral: that the undo rotation
  is the transpose of the alignment rotation.

A kernel that cannot be located/parsed is recorded as unavailable and replaced by the reference
definition of Model/Moves.lean (the correspondence is then its only tie)."""
from __future__ import annotations

import ast
from fractions import Fraction

from .base import Unavailable, find_function, lean_bool, parse, write_if_changed

COORDS = "data/coordinates.py"
PERT = "global_optimisation/perturbations.py"

UNIFORM = {"np.random.rand", "random.random", "np.random.random", "numpy.random.rand"}


def const(v) -> str:
    if isinstance(v, bool) or not isinstance(v, (int, float)):
        raise Unavailable(f"constant {v!r}")
    f = Fraction(v)
    s = f"((({abs(f.numerator)} : Nat) : α) / (({f.denominator} : Nat) : α))" if f.denominator != 1 \
        else f"(({abs(f.numerator)} : Nat) : α)"
    return f"(-{s})" if f < 0 else s


def arith(e: ast.AST, env: dict[str, str], lit=const) -> str:
    src = ast.unparse(e)
    if src in env:
        return env[src]
    if isinstance(e, ast.Constant):
        return lit(e.value)
    if isinstance(e, ast.Call) and ast.unparse(e.func) in UNIFORM and "u" in env.values():
        return "u"
    if isinstance(e, ast.Call) and ast.unparse(e.func) in ("np.cos", "math.cos", "numpy.cos") and \
            len(e.args) == 1 and ast.unparse(e.args[0]) == env.get("__angle__"):
        return "c"
    if isinstance(e, ast.Call) and ast.unparse(e.func) in ("np.sin", "math.sin", "numpy.sin") and \
            len(e.args) == 1 and ast.unparse(e.args[0]) == env.get("__angle__"):
        return "s"
    if isinstance(e, ast.BinOp) and isinstance(e.op, (ast.Add, ast.Sub, ast.Mult, ast.Div)):
        op = {ast.Add: "+", ast.Sub: "-", ast.Mult: "*", ast.Div: "/"}[type(e.op)]
        return f"({arith(e.left, env, lit)} {op} {arith(e.right, env, lit)})"
    if isinstance(e, ast.UnaryOp) and isinstance(e.op, ast.USub):
        return f"(-{arith(e.operand, env, lit)})"
    if isinstance(e, ast.UnaryOp) and isinstance(e.op, ast.UAdd):
        return arith(e.operand, env, lit)
    raise Unavailable(f"arithmetic outside the grammar: {src}")


BOX = {"self.position": "x", "self.lower_bounds": "lo", "self.upper_bounds": "hi"}
CMP = {ast.Gt: ">", ast.Lt: "<", ast.GtE: "≥", ast.LtE: "≤"}


def boolean(e: ast.AST, names: dict[str, ast.AST]) -> str:
    if isinstance(e, ast.Name) and e.id in names:
        return boolean(names[e.id], names)
    if isinstance(e, ast.Call) and ast.unparse(e.func) in ("np.invert", "np.logical_not", "np.bitwise_not") \
            and len(e.args) == 1:
        return f"(!{boolean(e.args[0], names)})"
    if isinstance(e, ast.UnaryOp) and isinstance(e.op, ast.Invert):
        return f"(!{boolean(e.operand, names)})"
    if isinstance(e, ast.Call) and ast.unparse(e.func) in ("np.logical_and", "np.logical_or") and len(e.args) == 2:
        op = "&&" if e.func.attr == "logical_and" else "||"
        return f"({boolean(e.args[0], names)} {op} {boolean(e.args[1], names)})"
    if isinstance(e, ast.BinOp) and isinstance(e.op, (ast.BitAnd, ast.BitOr)):
        op = "&&" if isinstance(e.op, ast.BitAnd) else "||"
        return f"({boolean(e.left, names)} {op} {boolean(e.right, names)})"
    if isinstance(e, ast.Compare) and len(e.ops) == 1 and type(e.ops[0]) in CMP:
        a, b = ast.unparse(e.left), ast.unparse(e.comparators[0])
        if a in BOX and b in BOX:
            return f"(decide ({BOX[a]} {CMP[type(e.ops[0])]} {BOX[b]}))"
    raise Unavailable(f"boolean outside the grammar: {ast.unparse(e)}")


def _assigns(fn: ast.FunctionDef) -> dict[str, ast.AST]:
    out = {}
    for s in fn.body:
        if isinstance(s, ast.Assign) and len(s.targets) == 1 and isinstance(s.targets[0], ast.Name):
            out[s.targets[0].id] = s.value
    return out


def _ret(fn: ast.FunctionDef) -> ast.AST:
    r = [s for s in fn.body if isinstance(s, ast.Return)]
    if len(r) != 1 or r[0].value is None:
        raise Unavailable(f"{fn.name}: single return not found")
    return r[0].value


def k_check_bounds(fn) -> str:
    return boolean(_ret(fn), _assigns(fn))


def k_active_bounds(fn) -> str:
    r = _ret(fn)
    if not (isinstance(r, ast.Tuple) and len(r.elts) == 2):
        raise Unavailable("active_bounds: does not return a pair")
    names = _assigns(fn)
    return f"({boolean(r.elts[0], names)}, {boolean(r.elts[1], names)})"


def k_clip(fn) -> str:
    calls = [n for n in ast.walk(fn) if isinstance(n, ast.Call) and ast.unparse(n.func) in ("np.clip", "numpy.clip")]
    if len(calls) != 1:
        raise Unavailable("move_to_bounds: np.clip not found")
    c = calls[0]
    args = [ast.unparse(a) for a in c.args]
    kw = {k.arg: ast.unparse(k.value) for k in c.keywords}
    for name in ("a", "a_min", "a_max")[len(args):]:
        if name not in kw:
            raise Unavailable("move_to_bounds: np.clip arguments")
        args.append(kw[name])
    if len(args) != 3 or any(a not in BOX for a in args):
        raise Unavailable("move_to_bounds: np.clip arguments outside the grammar")
    # the result must be stored back into self.position
    if not any(isinstance(s, ast.Assign) and ast.unparse(s.targets[0]) == "self.position" and
               any(n is c for n in ast.walk(s.value)) for s in fn.body):
        raise Unavailable("move_to_bounds: result not assigned to self.position")
    return "npClip " + " ".join(BOX[a] for a in args)


def k_any_all(fn) -> str:
    r = _ret(fn)
    if isinstance(r, ast.Call) and ast.unparse(r.func) in ("np.any", "np.all") and len(r.args) == 1 and \
            ast.unparse(r.args[0]) == "self.check_bounds()":
        return "any" if r.func.attr == "any" else "all"
    raise Unavailable(f"{fn.name}: not np.any/np.all of check_bounds()")


def k_std(perturb, setstep) -> tuple[str, str, bool, bool]:
    a = _assigns(perturb)
    if "perturbations" not in a:
        raise Unavailable("StandardPerturbation.perturb: perturbations not found")
    pert = arith(a["perturbations"], {"step_sizes": "s", "_": "u"})
    adds = [s for s in perturb.body if isinstance(s, ast.AugAssign) and ast.unparse(s.target) == "coords.position"]
    if len(adds) != 1 or ast.unparse(adds[0].value) != "perturbations" or \
            not isinstance(adds[0].op, (ast.Add, ast.Sub)):
        raise Unavailable("StandardPerturbation.perturb: update of coords.position not found")
    is_add = isinstance(adds[0].op, ast.Add)
    last = perturb.body[-1]
    clips = isinstance(last, ast.Expr) and ast.unparse(last.value) == "coords.move_to_bounds()"
    # set_step_sizes
    sa = _assigns(setstep)
    if ast.unparse(sa.get("step_sizes", ast.Constant(0))) != "np.full(coords.ndim, self.max_displacement)":
        raise Unavailable("set_step_sizes: uniform step not found")
    ifs = [s for s in setstep.body if isinstance(s, ast.If)]
    if len(ifs) != 1 or ast.unparse(ifs[0].test) != "self.proportional_distance" or ifs[0].orelse \
            or len(ifs[0].body) != 1 or not isinstance(ifs[0].body[0], ast.Assign) \
            or ast.unparse(ifs[0].body[0].targets[0]) != "step_sizes":
        raise Unavailable("set_step_sizes: proportional branch not found")
    prop = arith(ifs[0].body[0].value, {"coords.upper_bounds": "hi", "coords.lower_bounds": "lo", "step_sizes": "m"})
    return pert, prop, is_add, clips


def nat(e: ast.AST, env: dict[str, str]) -> str:
    src = ast.unparse(e)
    if src in env:
        return env[src]
    if isinstance(e, ast.Constant) and isinstance(e.value, int) and not isinstance(e.value, bool) and e.value >= 0:
        return str(e.value)
    if isinstance(e, ast.Call) and isinstance(e.func, ast.Name) and e.func.id == "int" and len(e.args) == 1:
        return nat(e.args[0], env)
    if isinstance(e, ast.BinOp) and isinstance(e.op, (ast.Add, ast.Sub, ast.Mult, ast.Div, ast.FloorDiv)):
        op = {ast.Add: "+", ast.Sub: "-", ast.Mult: "*", ast.Div: "/", ast.FloorDiv: "/"}[type(e.op)]
        return f"({nat(e.left, env)} {op} {nat(e.right, env)})"
    raise Unavailable(f"integer expression outside the grammar: {src}")


def k_atomic(fn) -> tuple[str, str, str]:
    a = _assigns(fn)
    s = a.get("perturbed_atoms")
    if not (isinstance(s, ast.Call) and ast.unparse(s.func) == "random.sample" and len(s.args) == 2
            and isinstance(s.args[0], ast.Call) and ast.unparse(s.args[0].func) == "range"
            and ast.unparse(s.args[1]) == "self.max_atoms"):
        raise Unavailable("AtomicPerturbation.perturb: random.sample(range(..), max_atoms) not found")
    r = s.args[0].args
    if len(r) == 1:
        lo, hi = "0", nat(r[0], {"coords.ndim": "ndim"})
    elif len(r) == 2:
        lo, hi = nat(r[0], {"coords.ndim": "ndim"}), nat(r[1], {"coords.ndim": "ndim"})
    else:
        raise Unavailable("AtomicPerturbation.perturb: range with a step")
    if "perturbations" not in a:
        raise Unavailable("AtomicPerturbation.perturb: perturbations not found")
    pert = arith(a["perturbations"], {"self.max_displacement": "m", "_": "u"})
    return lo, hi, pert


def k_molecular(fn) -> str:
    for n in ast.walk(fn):
        if isinstance(n, ast.Assign) and ast.unparse(n.targets[0]) == "random_angle":
            return arith(n.value, {"self.max_displacement": "m", "_": "u"})
    raise Unavailable("MolecularPerturbation.perturb: random_angle not found")


def ring_const(v) -> str:
    """constants of the rotation matrix as numerals (Zero/One/…): only integers are expected"""
    f = Fraction(v)
    if f.denominator != 1 or abs(f.numerator) > 1:
        raise Unavailable(f"rotation matrix constant {v!r}")
    return {0: "0", 1: "1", -1: "(-1)"}[int(f)]


def k_rotx(fn) -> str:
    r = _ret(fn)
    if not (isinstance(r, ast.Call) and ast.unparse(r.func) in ("np.array", "np.asarray") and
            isinstance(r.args[0], ast.List) and len(r.args[0].elts) == 3 and
            all(isinstance(row, ast.List) and len(row.elts) == 3 for row in r.args[0].elts)):
        raise Unavailable("get_rotation_matrix: 3x3 literal not found")
    param = fn.args.args[1].arg
    ents = [arith(e, {"__angle__": param}, ring_const) for row in r.args[0].elts for e in row.elts]
    return "⟨" + ", ".join(ents) + "⟩"


def k_undo(fn) -> str:
    a = None
    for n in ast.walk(fn):
        if isinstance(n, ast.Assign) and ast.unparse(n.targets[0]) == "undo_rotation":
            a = n.value
    if a is None:
        raise Unavailable("rotate_dihedral: undo_rotation not found")
    src = ast.unparse(a)
    if src in ("np.transpose(best_rotation.as_matrix())", "best_rotation.as_matrix().T",
               "best_rotation.as_matrix().transpose()", "best_rotation.inv().as_matrix()"):
        return "M3.transpose Q"
    if src == "best_rotation.as_matrix()":
        return "Q"
    raise Unavailable(f"rotate_dihedral: undo_rotation = {src}")


def regenerate() -> dict:
    status: dict = {}
    M = "TopSearch.Moves"
    k = {
        "checkBounds1": f"{M}.checkBounds1 x lo hi",
        "activeBounds1": f"{M}.activeBounds1 x lo hi",
        "clip1": f"{M}.clip1 x lo hi",
        "atBounds": "any", "allBounds": "all",
        "stdPerturbation": f"{M}.stdPerturbation u s",
        "stepSizeProp": f"{M}.stepSize true m lo hi",
        "stdAdds": True, "stdClips": True,
        "sampleLo": "1", "sampleHi": "ndim / 3",
        "atomicPerturbation": f"{M}.atomicPerturbation u m",
        "molecularAngle": f"{M}.molecularAngle u m",
        "rotX": f"{M}.rotX c s",
        "undo": "M3.transpose Q",
    }

    def attempt(label, f):
        try:
            f()
        except Unavailable as e:
            status[label] = f"unavailable ({e}); correspondence is the only tie"
        except Exception as e:
            status[label] = f"unavailable ({type(e).__name__}: {e})"

    def record(label, v):
        k[label] = v
        status["Moves." + label] = v

    try:
        ct = parse(COORDS)
    except (Unavailable, SyntaxError) as e:
        ct = None
        status["Moves.coordinates"] = f"unavailable ({e})"
    try:
        pt = parse(PERT)
    except (Unavailable, SyntaxError) as e:
        pt = None
        status["Moves.perturbations"] = f"unavailable ({e})"
    SC, MC = "StandardCoordinates", "MolecularCoordinates"
    if ct is not None:
        attempt("Moves.checkBounds1", lambda: record("checkBounds1", k_check_bounds(find_function(ct, "check_bounds", SC))))
        attempt("Moves.activeBounds1", lambda: record("activeBounds1", k_active_bounds(find_function(ct, "active_bounds", SC))))
        attempt("Moves.clip1", lambda: record("clip1", k_clip(find_function(ct, "move_to_bounds", SC))))
        attempt("Moves.atBounds", lambda: record("atBounds", k_any_all(find_function(ct, "at_bounds", SC))))
        attempt("Moves.allBounds", lambda: record("allBounds", k_any_all(find_function(ct, "all_bounds", SC))))
        attempt("Moves.rotX", lambda: record("rotX", k_rotx(find_function(ct, "get_rotation_matrix", MC))))
        attempt("Moves.undo", lambda: record("undo", k_undo(find_function(ct, "rotate_dihedral", MC))))
    if pt is not None:
        def std():
            p, prop, adds, clips = k_std(find_function(pt, "perturb", "StandardPerturbation"),
                                         find_function(pt, "set_step_sizes", "StandardPerturbation"))
            record("stdPerturbation", p); record("stepSizeProp", prop)
            record("stdAdds", adds); record("stdClips", clips)

        def atomic():
            lo, hi, p = k_atomic(find_function(pt, "perturb", "AtomicPerturbation"))
            record("sampleLo", lo); record("sampleHi", hi); record("atomicPerturbation", p)

        attempt("Moves.stdPerturbation", std)
        attempt("Moves.atomicPerturbation", atomic)
        attempt("Moves.molecularAngle", lambda: record("molecularAngle", k_molecular(find_function(pt, "perturb", "MolecularPerturbation"))))

    text = f"""-- REGENERATED on every run by harness/translate/moves.py from
-- src/topsearch/data/coordinates.py and global_optimisation/perturbations.py (do not edit)
import TopSearch.Model.Moves
namespace TopSearch.Gen.Moves
open TopSearch.Moves

section box
variable {{α : Type}} [LT α] [LE α] [DecidableLT α] [DecidableLE α]
/-- check_bounds, one coordinate -/
def checkBounds1 (x lo hi : α) : Bool := {k['checkBounds1']}
/-- active_bounds, one coordinate: (first returned mask, second returned mask) -/
def activeBounds1 (x lo hi : α) : Bool × Bool := {k['activeBounds1']}
/-- move_to_bounds, one coordinate -/
def clip1 (x lo hi : α) : α := {k['clip1']}
/-- at_bounds / all_bounds over the mask of check_bounds -/
def atBounds (mask : List Bool) : Bool := mask.{k['atBounds']} id
def allBounds (mask : List Bool) : Bool := mask.{k['allBounds']} id
end box

section steps
variable {{α : Type}} [Add α] [Sub α] [Mul α] [Div α] [Neg α] [NatCast α]
/-- StandardPerturbation: the perturbation of one coordinate from the draw `u` and the step `s` -/
def stdPerturbation (u s : α) : α := {k['stdPerturbation']}
/-- set_step_sizes, proportional branch (`m` = max_displacement) -/
def stepSizeProp (m lo hi : α) : α := {k['stepSizeProp']}
/-- the perturbation is added to the position (false: subtracted) -/
def stdAdds : Bool := {lean_bool(k['stdAdds'])}
/-- `coords.move_to_bounds()` is the last statement of `perturb` -/
def stdClips : Bool := {lean_bool(k['stdClips'])}
/-- AtomicPerturbation: one entry of the displacement from the draw `u` -/
def atomicPerturbation (u m : α) : α := {k['atomicPerturbation']}
/-- MolecularPerturbation: the random angle from the draw `u` -/
def molecularAngle (u m : α) : α := {k['molecularAngle']}
end steps

/-- AtomicPerturbation: `random.sample(range(sampleLo, sampleHi ndim), max_atoms)` -/
def sampleLo : Nat := {k['sampleLo']}
def sampleHi (ndim : Nat) : Nat := {k['sampleHi']}

section rot
variable {{α : Type}} [Add α] [Sub α] [Mul α] [Neg α] [Zero α] [One α]
/-- get_rotation_matrix (`c`, `s` = cos, sin of the angle) -/
def rotX (c s : α) : M3 α := {k['rotX']}
/-- rotate_dihedral: the matrix applied after the x-rotation, from the alignment rotation `Q` -/
def undo (Q : M3 α) : M3 α := {k['undo']}
end rot
end TopSearch.Gen.Moves
"""
    status["Gen/Moves.lean rewritten"] = write_if_changed("Moves.lean", text)
    return status
