"""Gen/Align.lean: the decision structure of MolecularSimilarity.optimal_alignment read from the
current source — what every `return` hands back as the first structure, the operators of the early
exit and of the improvement test, the number of random restarts."""
from __future__ import annotations

import ast

from .base import Unavailable, find_function, lean_bool, parse, write_if_changed

FILE = "similarity/molecular_similarity.py"


def _strict_less(test: ast.AST, left: str, right: str):
    """True for `left < right` (or `right > left`), False for a non-strict / other comparison of the
    same two operands, None if this is not a comparison of these operands."""
    if not (isinstance(test, ast.Compare) and len(test.ops) == 1):
        return None
    a, b = ast.unparse(test.left), ast.unparse(test.comparators[0])
    op = test.ops[0]
    if (a, b) == (left, right):
        return isinstance(op, ast.Lt)
    if (a, b) == (right, left):
        return isinstance(op, ast.Gt)
    return None


def regenerate() -> dict:
    status = {}
    try:
        fn = find_function(parse(FILE), "optimal_alignment", "MolecularSimilarity")
        returns = [n for n in ast.walk(fn) if isinstance(n, ast.Return)]
        if not returns:
            raise Unavailable("no return")
        pos = []
        for r in returns:
            if not (isinstance(r.value, ast.Tuple) and len(r.value.elts) == 4):
                raise Unavailable("return shape")
            pos.append(ast.unparse(r.value.elts[1]) in ("coords1.position", "coords1.position.copy()",
                                                      "np.array(coords1.position)"))
        early, improve, loops = [], [], []
        for n in ast.walk(fn):
            if isinstance(n, ast.If):
                e = _strict_less(n.test, "dist", "self.distance_criterion")
                if e is not None and any(isinstance(x, ast.Return) for x in n.body):
                    early.append(e)
                i = _strict_less(n.test, "dist", "best_dist")
                if i is not None:
                    improve.append(i)
            if isinstance(n, ast.For) and ast.unparse(n.iter).startswith("range("):
                loops.append(ast.literal_eval(n.iter.args[0]))
        if not early or not improve or not loops or len(set(loops)) != 1:
            raise Unavailable("unexpected structure of optimal_alignment")
        # the same loop in `test_exact_same`: its early exit must be `<`; how it breaks ties is followed
        fx = find_function(parse(FILE), "test_exact_same", "MolecularSimilarity")
        xe, xi = [], []
        for n in ast.walk(fx):
            if isinstance(n, ast.If):
                e = _strict_less(n.test, "dist", "self.distance_criterion")
                if e is not None and any(isinstance(x, ast.Return) for x in n.body):
                    xe.append(e)
                i = _strict_less(n.test, "dist", "best_dist")
                if i is not None:
                    xi.append(i)
        if len(xe) != 1 or len(xi) != 1 or len(set(improve)) != 1:
            raise Unavailable("unexpected structure of the candidate loops")
        cfg = (all(pos), all(early) and xe[0], all(improve), loops[0], xi[0])
        status["Align.cfg"] = {"returnsPositionArray": cfg[0], "earlyExitStrictLess": cfg[1],
                               "improveStrictLess": cfg[2], "restarts": cfg[3],
                               "exactImproveStrictLess": cfg[4],
                               "returns": len(returns), "early_exits": len(early)}
    except Unavailable as e:
        cfg = (True, True, True, 150, True)
        status["Align.cfg"] = f"unavailable ({e}); correspondence is the only tie"
    text = ("-- REGENERATED on every run by harness/translate/align.py from\n"
            "-- /repo/src/topsearch/similarity/molecular_similarity.py (do not edit)\n"
            "namespace TopSearch.Gen.Align\n"
            "structure Cfg where\n  returnsPositionArray : Bool\n  earlyExitStrictLess : Bool\n"
            "  improveStrictLess : Bool\n  restarts : Nat\n  exactImproveStrictLess : Bool\n  deriving Repr, DecidableEq\n"
            f"def cfg : Cfg := {{ returnsPositionArray := {lean_bool(cfg[0])}, earlyExitStrictLess := "
            f"{lean_bool(cfg[1])}, improveStrictLess := {lean_bool(cfg[2])}, restarts := {cfg[3]}, "
            f"exactImproveStrictLess := {lean_bool(cfg[4])} }}\n"
            "end TopSearch.Gen.Align\n")
    status["Gen/Align.lean rewritten"] = write_if_changed("Align.lean", text)
    return status
