"""Writes /verif/MANIFEST.json from the table below (kept in one place so that the manifest,
the checks and DESIGN.md stay consistent)."""
import json
from pathlib import Path

V = Path(__file__).resolve().parent.parent

BASE_NOTE = ("Trusted: Lean 4.33 kernel + Mathlib lemmas; axioms propext/Classical.choice/Quot.sound only; "
             "kernel translator and line-protocol correspondence harness tie the model to /repo's "
             "working tree on every run; exact arithmetic in theorems, IEEE rounding only observed. "
             "Hand-transcribed control flow is compared with the source in a normal form on every run (transcription tie) and "
             "state carried between calls is a regenerated Lean obligation (Props/StateCarry.lean): a function that no longer "
             "reads as transcribed, or new carried state, is a broken tie (deep search, else no-failing-input-found). ")

CHECKS = {
 "C02": dict(
   text="Lean theorems over the explicit-label store model: invariant (labels 0..n-1, counts = contents, "
        "one TS per pair) for every guarded edit history by induction over the op list; remove_minimum "
        "refines label-deletion; the sorted running-offset loop of remove_minima equals abstract set "
        "deletion; last-write lemmas. Tied to the code by the regenerated counter rule (bridge lemma) and by "
        "model-vs-implementation comparison after every op from every reachable graph shape (<=3/4 minima) "
        "plus long random histories with caller-array mutation and all read-only analyses.",
   note="bit-identity of stored arrays (copy isolation, read-only analyses) is observed bit-for-bit by the "
        "correspondence on every run, not proved; networkx Graph semantics assumed as modelled.",
   technique="Lean 4 proof (induction over edit histories, refinement to set deletion) + regenerated kernel "
             "bridge + differential correspondence",
   ref="DESIGN.md §4 C02"),
 "C16": dict(
   text="The coded surfaces are regenerated as expression trees by symbolic execution of the current Python "
        "source (Camelback; Lennard-Jones pair kernel and 2-4 atoms unrolled; Gupta Au-Ag-Au; the inherited "
        "finite-difference gradient/Hessian on the Quadratic AND the (non-separable) Camelback surface; classifier "
        "thresholds); the Lennard-Jones gradient is proved exact for EVERY atom count through a loop model whose body "
        "is the regenerated pair kernel and which is proved equal to the unrolled regenerated terms at N = 2, 3, 4 "
        "(C16_lj_grad_N, C16_lj_fg_N, C16_ljN_translation, C16_ljN_matches_unrolled). Lean proves, about exactly those "
        "trees: soundness of symbolic differentiation (E.sound: HasDerivAt by induction on expressions), coded "
        "gradient/Hessian = derivatives at every point (no vanishing denominator), function_gradient = "
        "(function, gradient), central differences exact on quadratics and off by a3*h^2 on cubics, symmetric "
        "FD Hessian, caller array untouched, invariance of LJ/Gupta energies under every orthogonal map + "
        "translation and exchange of like atoms, and iff-characterisations of the minimum/TS classifiers. The "
        "generated trees are evaluated by the Lean driver at exact rationals against the real functions, and "
        "numeric predicates cover other atom counts, Schwefel and MMFF94.",
   note="symbolic route limited to the listed instances; O(h^2) truncation for general smooth f, MMFF94 (RDKit) "
        "and eigvalsh are numeric/oracle only; decimal literals read as exact rationals.",
   technique="Lean 4 proof by reflective differentiation over expression trees regenerated from the source "
             "(symbolic execution) + exact-rational differential evaluation",
   ref="DESIGN.md §4 C16"),
 "C07": dict(
   text="Lean model of BasinHopping.run in which the saved Markov-chain minimum is either a value or an alias of "
        "the walker array (so the pre-repair aliasing is expressible): C07_walker proves, for all run lengths and "
        "all input sequences and any match relation, that at every perturb entry the walker equals the last "
        "accepted minimiser output with the energy used in the next acceptance test; restore lemmas for "
        "reject/fail/bond-change; downhill always accepted (about the regenerated Metropolis kernel); negation "
        "witnesses for each of the five copy sites. The copy sites, failure test and Metropolis kernel are "
        "regenerated from the source; the real run is compared step by step under scripted minimiser/step "
        "taker/draws (all 4^n outcome patterns, all failure subsets) and on real Camelback/Schwefel traces.",
   note="atomic/molecular systems: equality up to the recentring applied by the similarity is modelled as an input "
        "('gated'); the real MolecularSimilarity is exercised by one LJ6 predicate only.",
   technique="Lean 4 proof (loop invariant over all input sequences) + regenerated kernels + scripted-exhaustive and "
             "trace-driven correspondence",
   ref="DESIGN.md §4 C07"),
 "C08": dict(
   text="C08_archive: the network after a run equals the similarity-gate fold over [initial if converged] ++ "
        "[every converged, bonds-intact minimiser output] in step order, accepted or not, for any match relation; "
        "a failed minimisation leaves no trace; stored minima are outputs; every converged output is represented; "
        "Metropolis rule about the regenerated kernel and, with Mathlib's Lebesgue measure, acceptance probability "
        "exp(-dE/T) for uphill moves. Correspondence: every subset of failing steps on short runs, long random "
        "runs, real traces, and a deterministic metropolis grid including u exactly at the Boltzmann factor. "
        "'Bonding intact' for molecular systems is defined: MolecularCoordinates.same_bonds is read statement by "
        "statement and C08_same_bonds_iff_perm proves its verdict is equality of the bond multisets (kinds with "
        "multiplicities); the real function is validated against a bond rule written in the harness.",
   note="np.exp > 0 and np.random.random in [0,1) are oracle contracts; prepare_initial_coordinates tests only "
        "warnflag (mirrored, reported as an observation).",
   technique="Lean 4 proof (fold characterisation + measure of the acceptance set) + regenerated kernels + "
             "fault-pattern-exhaustive correspondence",
   ref="DESIGN.md §4 C08"),
 "C11": dict(
   text="Proved about the model of MolecularSimilarity's logic: optimal_alignment / test_exact_same return one of "
        "the alignments actually produced (distance, copy and permutation belong together), leave early exactly "
        "when a consulted candidate is below the criterion and otherwise return the minimum; the group-by-group "
        "assembly of the permutation is a like-atom bijection with permuted[a] = coords2[perm[a]] and does not "
        "depend on the (hash-seed dependent) group order; x -> Q x + t with Q orthogonal and a relabelling "
        "preserve all inter-atomic distances and species for any atom count. The clauses about the candidate loops are "
        "proved for EVERY admissible tie-breaking of the improvement test (`<` and `<=`), and the reported distance is "
        "proved independent of it (Props/C11Ties.lean); the driver follows the operator read from the source. Tied to "
        "the code by the regenerated "
        "return/compare/restart structure of optimal_alignment (bridge), by running the real methods with "
        "scripted candidate sequences and recorded Hungarian answers against the model, and by predicates on "
        "rotated/translated/permuted copies of random clusters, LJ13 and the test molecules.",
   note="PARTIAL: that the randomised heuristic over scipy's Kabsch/Hungarian solvers finds the zero-distance "
        "alignment is sampled, not proved; the two solvers are oracles whose contracts are validated per call.",
   technique="Lean 4 proof of the selection/assembly/rigidity logic + regenerated decision structure + scripted and "
             "trace-driven correspondence; solver behaviour as validated oracle contracts",
   ref="DESIGN.md §4 C11"),
 "C14": dict(
   text="Proved: collecting worker results by task index is independent of the completion order and worker count "
        "(= List.map, for every permutation of the completions); the parallel round equals merging the per-pair "
        "outcomes in list order with failed searches skipped, for every completion order; every `set` the current "
        "source builds (regenerated site scanner) is on the justified list - int / int-tuple elements, or the two "
        "string sets of get_permutable_groups whose order is irrelevant by C11_group_order_irrelevant. Runtime "
        "differential: the real fork pool and the real parallel round under 1-16 workers with injected delays "
        "(observed completion order fed to the model), and seeded standard/atomic pipelines in separate "
        "interpreters under PYTHONHASHSEED 0,1,2,random compared by byte digest.",
   note="PARTIAL: CPython hashing, fork and OS scheduling are runtime behaviour that no theorem exhibits; they are "
        "oracle contracts validated by the differential runs on every check.",
   technique="Lean 4 proof (schedule-independence of slot collection and merge) + regenerated hash-site scanner bridge "
             "+ runtime differential across workers, delays and hash seeds",
   ref="DESIGN.md §4 C14"),
 "C18": dict(
   text="Lean: executable closure = ReflTransGen reachability; unconnected set = complement of the first arg-min's "
        "component; cumulative descending edge removal = filter at the current threshold; connected at E iff a path "
        "with all TS <= E; disconnection height within one scan step below the minimax value when inside the window, "
        "sentinel otherwise; hierarchy partitions every level and nests in the parent; roughness non-negative, zero "
        "for < 2 minima, invariant under renumbering and energy shift, linear in the energy scale. Scan constants and "
        "operators regenerated from the source (bridge); pure correspondence on real networks (exact dyadic windows "
        "and float windows with near-tie skipping).",
   note="the minimax value is the minimum over walks of the highest transition state, exists for every connected pair, is "
        "the energy of a stored transition state and is unique (Props/C18Minimax.lean); populations (exp/norm) are abstract "
        "non-negative inputs; binary64 observed by the correspondence.",
   technique="Lean 4 proof (reachability, scan = filter, height within one step, partition refinement, roughness algebra) "
             "+ regenerated constants bridge + pure differential correspondence",
   ref="DESIGN.md §4 C18"),
 "C17": dict(
   text="Lean theorems over an aliasing-faithful model of the four selectors, fill, truncation and select_batch, for "
        "any sorting permutation returned by argsort: no excluded minimum, no repeat, size <= requested, fixed size "
        "filled when enough allowed minima exist, coordinates of the listed minima, Lowest sorted, Monotonic iff "
        "characterisation, Barrier pairwise separation and completeness (also about the TRUE minimax barrier, not only the "
        "scanned height: C17_barrier_true_barrier), Topographical = Monotonic then Barrier; the "
        "repaired scan window covers every minimax value between the lowest minimum and the highest TS (negation "
        "witness for the original window). Operators, skip tests, the e_range expression and dispatch strings are "
        "regenerated from the source; exact-grid correspondence of all selectors on real networks.",
   note="argsort is a validated oracle permutation; barrier clauses speak of the scanned height (C18 relates it to the "
        "minimax barrier inside the window).",
   technique="Lean 4 proof over the selector model + regenerated kernel bridge + exact-grid differential correspondence",
   ref="DESIGN.md §4 C17"),
 "C13": dict(
   text="Lean refinement of the stored attempt history to an identity-level history (minima with immutable identities) "
        "over all interleavings of connection rounds (serial and parallel), remove_minimum, remove_minima / bounds "
        "pruning, add_network with its index map, reset and dump/read: the stored history is always the rendering of "
        "the identity-level one, entries naming a removed minimum dropped; every pair of a round is recorded once, "
        "sorted, searched or not; check_pair refuses iff self-pair, connected, or recorded >= 3 times, and the searched "
        "list is exactly the accepted pairs (against the evolving network in serial mode, the initial one in parallel "
        "mode); negation witnesses for the pre-repair behaviour. The check_pair kernel and the history rules of "
        "remove_minimum / add_network / the round are regenerated from the source (bridge lemmas); real rounds in "
        "serial and multiprocessing mode interleaved with real removal, merge and I/O are compared after every op.",
   note="the network effect of a merge/round and the index map are observed inputs of the history model; which "
        "identities a bulk removal deletes is C02's theorem.",
   technique="Lean 4 proof (refinement over all interleavings) + regenerated kernels with bridge lemmas + scripted "
             "serial/multiprocessing correspondence",
   ref="DESIGN.md §4 C13"),
 "C06": dict(
   text="Lean round-trip theorem over a model of the five tables with numpy's loadtxt shape rules, np.size and "
        "indexing as partial operations: for every coherent network with n >= 1 minima, any transition states "
        "(incl. self-connections), dimension k >= 1 and any history, readNetwork (the loader spec regenerated from "
        "the current source) of dumpNetwork returns the same labels, coordinates, edges with data on the same pairs, "
        "counts and history, energies rounded to 5 decimals; negation theorems for the original loader (single "
        "minimum / single TS / 1-D coordinates -> IndexError, empty history wrong shape); composed with C02: every network "
        "ANY edit history can produce round-trips (C06_roundtrip_reachable). Real dump->read on all small "
        "shapes and random larger ones compared with the model; numpy shape rules validated table by table.",
   note="decimal formatting/parsing of floats (%.18e round-trips binary64, %8.5f rounds) is a validated contract; "
        "round5 is abstract and idempotent.",
   technique="Lean 4 proof (round trip over all shapes) about the loader spec regenerated from the source + numpy "
             "shape-rule contract validation + real-file correspondence",
   ref="DESIGN.md §4 C06"),
 "C19": dict(
   text="Lean theorems over the ModelData / GaussianProcess model: exact standardise/normalise round trips (sigma != 0, "
        "max != min), zero mean and unit variance after standardising, variance zero iff constant, the alignment "
        "invariant (rows of training = responses) under append / subset / duplicate removal acting on the same row "
        "indices, the retained-point scan is sound (no two survivors within the cut-off), minimal (every removed point "
        "is near an earlier retained one) and keeps the first; negation witnesses for the original scan; the update "
        "cycle invariant by induction over any add_data / lowest_point sequence for all four flag combinations. The "
        "scan variant, the eight formulas (with symbolic inverse lemma) and the call order of the GaussianProcess "
        "methods are regenerated from the source; real ModelData / GaussianProcess (sklearn fit bypassed from outside) "
        "against the exact-rational model. read_data on an object that already holds a dataset is an operation of the "
        "model (which cached counts the source refreshes is read by the translator): C19_read_data re-establishes the "
        "class invariant from any earlier state.",
   note="theorems exact, floats compared to 1e-9; sigma is a parameter checked against the exact variance on every run; "
        "sigma = 0 is the excluded guard (the code yields NaN there, reported as an observation).",
   technique="Lean 4 proof (algebraic laws, scan invariants, update-cycle induction) + regenerated formulas/scan/call order "
             "with bridge lemmas + differential correspondence at exact rationals",
   ref="DESIGN.md §4 C19"),
 "C10": dict(
   text="The call record of lbfgs.minimise (which wrapper parameter reaches which scipy keyword, literals, the args "
        "default, the returned triple) is regenerated from the source and proved equal to the expected wiring; under "
        "the named contract LBFGSB the wrapper satisfies the property's clauses (in box, reported value = objective "
        "there, not higher than at the start, projected gradient below tolerance on the pgtol exit, args passed "
        "unchanged); projected-gradient lemmas. The contract itself is validated on real minimisations over many "
        "objectives / boxes / tolerances, and a recorder patched in from outside checks every forwarded keyword.",
   note="PARTIAL, stated plainly: nothing is proved about scipy's compiled L-BFGS-B; its contract is sampled on every run.",
   technique="Lean 4 proof of the wiring refinement and the derivation from the contract + regenerated call record; "
             "optimiser behaviour as a validated oracle contract",
   ref="DESIGN.md §4 C10"),
 "C03": dict(
   text="Lean theorems: test_same is symmetric and (for positive criteria) reflexive in absolute and box-proportional "
        "mode over every ordered field, with the exact behaviour at the criterion (< versus <= 1) and the sqrt "
        "contract; for ANY symmetric match relation and ANY stream of minimum offers, TS offers, merges and resets the "
        "gate keeps the store coherent, stored minima and stored TSs pairwise non-matching (replacement included), a "
        "matching candidate adds nothing, a non-matching one is stored, offered minima stay represented. The test_same "
        "kernels and the statement order of test_new_ts are regenerated from the source (bridge lemmas; the pre-repair "
        "order is a proved counter-example); the real classes are compared with the model after every offer on dyadic, "
        "at-criterion, float and atomic streams (the atomic relation's answers enter as oracle answers).",
   note="symmetry/reflexivity of the atomic relation depend on the alignment heuristic (C11): assumed, sampled per run; "
        "IEEE rounding only observed (near-ties skipped).",
   technique="Lean 4 proof (relation laws + stream invariant for any symmetric relation) + regenerated kernel bridge + "
             "differential correspondence",
   ref="DESIGN.md §4 C03"),
 "C05": dict(
   text="Lean theorems over the merge model: a failed search is a no-op anywhere in a round, a repeated TS is a no-op, "
        "serial and parallel rounds are the same fold up to the check_pair mask and never remove or renumber (node "
        "prefix, history prefix, connected pairs stay connected, a pair's TS changes only to one found this round), "
        "each successful non-repeated record contributes its TS on an edge whose endpoints match its two minima and the "
        "pair persists, reconvergence = reset + fold with failures skipped and never aborts (negation for the missing "
        "filter). None-filters, argument wiring and statement order regenerated from the source; the real "
        "run_connection_attempts (serial and multiprocessing) and reconverge_landscape with scripted searches, every "
        "failure subset of <= 4/6 searches.",
   note="Pool.map order and check_pair are parameters (C14 / C13); 'carries the last such record's TS' is proved as 'this "
        "record's or a later record's'.",
   technique="Lean 4 proof (fold / monotonicity lemmas) + regenerated filter/wiring bridge + scripted fault-subset "
             "correspondence",
   ref="DESIGN.md §4 C05"),
 "C04": dict(
   text="Lean theorems over the generic model of HybridEigenvectorFollowing: the convergence test holds iff every "
        "coordinate not pinned at an active bound has |gradient| below tolerance, for every dimension and pinning "
        "pattern (numpy's index-set masking modelled with the reduction axis as a parameter; negation witnesses for "
        "axis 0); the validity test refuses iff zero vector / NaN / eigenvalue 0 / every coordinate pinned, with a "
        "reason; clip and local-bounds lemmas; push-off accepted only when the energy drops; by induction over the run "
        "skeleton: every failure return carries a reason and no data, every success return is in the box, passed the "
        "test against its own mask, reports energies equal to the surface at the returned points, and has both minima "
        "below the TS unless the push-off flag is set. Axes, operators, constants and reason order are regenerated from "
        "the source (bridge lemmas); pure kernels on all 3^d pinning patterns, the real run with scripted "
        "sub-procedures, and traced real searches on surfaces with saddles in the interior, on faces and on edges.",
   note="LBFGSB (in box, f-value, monotone), sqrt/norm and determinism of the potential are oracle contracts validated "
        "per traced call; convergence of the iteration and finiteness are observed, not proved.",
   technique="Lean 4 proof (induction over the search skeleton, list-level mask semantics) + regenerated kernel bridge + "
             "scripted and trace-driven correspondence",
   ref="DESIGN.md §4 C04"),
 "C15": dict(
   text="Lean theorems: the direction handed on is +-v with non-negative overlap with the gradient for every (v, g) "
        "under the regenerated overlap rule (negation witness for the original first-component rule); projection gives "
        "a unit vector with outward components zeroed and the others positively scaled under the explicit guard that "
        "some component survives (the all-zeroed case is characterised); Rayleigh-Ritz value = v^T A v / v^T v and "
        "gradient 2(Au - fu), vanishing iff u is an eigenvector, for quadratic surfaces in any dimension, also at the "
        "displacement the source uses (rayleigh_ritz_function_gradient is read statement by statement, its literal "
        "displacement emitted: C15_bridge_rayleigh). Flip rule "
        "and sign tests regenerated from the source; correspondence on dyadic vectors x all pinning patterns, dyadic "
        "quadratics and traced eigen-solver calls; predicate against dense numpy eigh in dimensions 2-6.",
   note="global convergence of L-BFGS-B on the Rayleigh quotient and finite-difference accuracy on non-quadratic "
        "surfaces are numerical (checked against eigh on every run).",
   technique="Lean 4 proof (ordered-field list algebra) + regenerated kernel bridge + differential correspondence + eigh "
             "reference predicate",
   ref="DESIGN.md §4 C15"),
 "C09": dict(
   text="Lean theorems over a generic-field model of NudgedElasticBand (all dimensions, surfaces, densities, retry counts, "
        "histories): 10 <= n <= max; the straight-line band begins at x1, ends at x2 and stays in the box (convexity); "
        "the end rows of the band gradient are identically zero, hence (LBFGSB contract) ends fixed and all images in "
        "the box; candidates iff interior and not exceeded by either neighbour, ascending, positions = rows; interior "
        "row = spring row + perpendicular part of the true gradient, orthogonal to the unit-or-zero upwind tangent; "
        "spring row = coefficient x tangent with |coefficient| = k|d_prev - d_next|; no residue (density restored, "
        "outputs depend only on configuration and arguments, for every history). Kernels (clamp, retry "
        "factor/guards/order, candidate test and range, tangent chain, cut-off, end-row structure, sign literals) "
        "regenerated with bridge lemmas; exact-rational comparison of interpolation sequences, tangents, band gradient, "
        "candidates and trace-driven run sequences through the real L-BFGS-B.",
   note="The spring-direction clause is false of the code as written (known finding spring-sign:band_function_gradient): "
        "proved up to the sign literal read from the source, negation proved for the coded sign, clause proved for the "
        "repaired literal. L-BFGS-B behaviour is an oracle contract validated per run; dihedral interpolation: clamp only.",
   technique="Lean 4 proof (generic ordered-field model, invariants over call histories) + regenerated kernels with bridge "
             "lemmas + exact-rational differential correspondence",
   ref="DESIGN.md §4 C09"),
 "C12": dict(
   text="Lean theorems over the pair-selection model for every n, every generic distance matrix, every component "
        "function and every argsort answer satisfying its contract, every N >= 1: proposed pairs name two different "
        "existing minima and no unordered pair twice (closest_enumeration, connect_unconnected, select_minima's "
        "dispatch); nearest-neighbour enumeration proposes exactly the N closest others of each minimum; "
        "connect-unconnected proposes only pairs in different components, includes for every minimum outside the "
        "global minimum's component its closest minimum outside its own component, and proposes nothing iff connected; "
        "argsort is unique under distinct distances. Slice bounds, the [0,0] filter, the tuple sort, the f_set/s_set "
        "test and the scheme dispatch are regenerated from the source (bridge lemmas); pure correspondence on random "
        "real networks with several components and isolated minima.",
   note="connected components (networkx) and argsort (numpy) are oracles validated per run; the output order comes from a "
        "Python set and is compared as a set; generic positions as the property's domain.",
   technique="Lean 4 proof (set characterisations for all graphs and N) + regenerated kernel bridge + pure differential "
             "correspondence",
   ref="DESIGN.md §4 C12"),
 "C20": dict(
   text="Lean theorems over every ordered field: a standard displacement moves each coordinate by at most half the step "
        "and ends in the box; an atomic displacement changes exactly the sampled atoms, never atom 0, each axis by at "
        "most half the step; Q^T R_x Q is orthogonal, fixes the rotation axis and is undone by the opposite rotation; a "
        "map that is rigid on the moved fragment, identity elsewhere and fixes the axis preserves every "
        "(moved,moved), (fixed,fixed) and (axis,anything) distance - hence bond lengths and, off rings, bond angles; "
        "bond-length and bond-angle changes act rigidly; box predicates (check/at/all/active bounds, clipping) agree "
        "with direct comparison against the box. Comparison operators, constants, ranges and the rotation matrix are "
        "regenerated from the source (bridge lemmas); exact correspondence under scripted random draws and "
        "trace-driven rigid moves on every rotatable dihedral / angle / bond of the test molecules.",
   note="floating-point rigidity is numeric (1e-9); scipy's rotation for rotate_angle is an orthogonal-matrix oracle "
        "validated per run; trig functions are parameters with c^2 + s^2 = 1.",
   technique="Lean 4 proof (order and matrix algebra over ordered fields) + regenerated kernel bridge + scripted-draw and "
             "trace-driven correspondence",
   ref="DESIGN.md §4 C20"),
 "C01": dict(
   text="Assume-guarantee composition proved in Lean over the pipeline model (gate offers of minima, successful and "
        "failed search records, merges, resets, and prunings, built on the C02 store and the C03/C05 gate): for ANY "
        "sequence of such operations from the empty network, if every offered point carries its guarantee (minimum: in "
        "box and energy = surface; record: C04's post-condition), then every stored minimum and transition state is "
        "good and every stored transition state is not lower than either connected minimum by more than the matching "
        "tolerance unless its push-off was flagged - the tolerance arises exactly because a found minimum may be "
        "matched to a stored one (C01_barrier_from_matching); pruning preserves everything (survivors keep data and "
        "connections). The assumptions on offered points are discharged from the other properties' theorems: "
        "C04's post-condition => admissible record, C10's contract => good minimum, and C20 (step stays in the box) o C10 "
        "o C08 (stored = outputs of successful minimisations) => every minimum global optimisation stores is good "
        "(C01_minima_from_global_optimisation). Trace-driven tie: the real NetworkSampling pipeline (Camelback, Schwefel, random cosine surfaces "
        "in 2-5 dimensions with stationary points on and off the box faces; random order and repetition of get_minima, "
        "get_transition_states with both schemes and bounds pruning, reconverge_minima, reconverge_landscape) runs with "
        "the gate entry points, match relation, removal and reset wrapped from outside; the logged stream is replayed "
        "through the model and must reproduce the real network after every public call; every offered point is checked "
        "against the guarantee the theorem assumes; the property's clauses are re-evaluated on the real network after "
        "every call.",
   note="PARTIAL: that L-BFGS-B and the eigenvector-following iteration meet their contracts on a given surface is numerical "
        "runtime behaviour (validated on every offered point, not proved); finiteness is monitored only; atomic systems "
        "are covered by C07/C11/C14 pipelines, not by this trace.",
   technique="Lean 4 proof (invariant by induction over all pipeline operation sequences, composed from the C02/C03/C05 "
             "lemmas) + trace-driven correspondence of the real pipeline with contract validation per offered point",
   ref="DESIGN.md §4 C01"),
}

NOT_YET = {}


def main():
    props = [json.loads(l) for l in (V / "properties.jsonl").read_text().splitlines() if l.strip()]
    checks, na = [], []
    for p in props:
        pid = p["id"]
        if pid in CHECKS:
            c = CHECKS[pid]
            checks.append({
                "property_id": pid,
                "quick_cmd": f"./check {pid} --tier quick",
                "thorough_cmd": f"./check {pid} --tier thorough",
                "evidence_file": f"evidence/{pid}.json",
                "replay_cmd_template": f"./check {pid} --replay {{path}}",
                "engine": "lean4-proof+correspondence",
                "level_claimed": {"category": "proof", "text": c["text"], "design_ref": c["ref"]},
                "level_note": BASE_NOTE + c["note"],
                "technique": c["technique"],
            })
        else:
            na.append({"property_id": pid,
                       "reason": NOT_YET.get(pid, "check not built yet (work in progress; see DESIGN.md §9 build order)")})
    m = {
        "version": 1,
        "setup_cmd": "cd lean && lake build",
        "hooks": {"guard": "TOPSEARCH_VERIF", "enable": "no source hooks are needed: every observation "
                  "point is reached by wrapping objects from outside; checks import topsearch from /repo/src",
                  "baseline_off_cmd": "cd /repo && /venv/bin/python -m pytest -ra -q -p no:cacheprovider "
                  "--timeout=900 --continue-on-collection-errors",
                  "source_commits": [], "add_only": True},
        "engines": [{"name": "lean4-proof+correspondence", "path": "lean/ harness/",
                     "serves_properties": sorted(CHECKS),
                     "kind_free_text": "Lean 4 models + theorems (lake project lean/), Python-AST kernel "
                     "translator regenerating lean/TopSearch/Gen on every run (incl. transcription tie and carried-state analysis), line-protocol "
                     "correspondence drivers lean/Drivers/*.lean, direct property predicates for replays"}],
        "checks": checks,
        "not_applicable": na,
        "notes": "See DESIGN.md. known_findings.json lists repaired (fixed:) and recorded defects.",
    }
    (V / "MANIFEST.json").write_text(json.dumps(m, indent=1))
    print(f"{len(checks)} checks, {len(na)} not_applicable")


if __name__ == "__main__":
    main()
