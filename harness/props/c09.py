"""C09 — nudged elastic band: fixed ends, in-box images, exact candidates, nudged force, no residue.

Tie #1: translate.neb reads the clamp, the retry factor and its guards, the candidate test and its
range, the tangent case thresholds / selections, the perpendicular cut-off, the end-row structure
and the spring / difference literals of NudgedElasticBand from the current source into
Gen/Neb.lean (bridge lemmas `C09_bridge_*` in Props/C09.lean).
Tie #2: the real class against Model/Neb executed at Rat through Drivers/Neb.lean:
initial_interpolation over sequences of calls on one object (dyadic densities / exact distances so
that `int(density*dist)` is exact, boundaries hit on purpose), find_tangent_differences,
band_function_gradient, find_ts_candidates, perpendicular_component on dyadic bands with table-driven
energies (ties, flats, extrema, coincident images), and trace-driven `run` sequences through the
real L-BFGS-B on Camelback / quadratic surfaces.
Predicates: the statement's own clauses on the real code; the spring-direction clause fails on the
pinned tree (known finding `spring-sign:band_function_gradient`).
"""
from __future__ import annotations

from fractions import Fraction

import numpy as np

from common import REPO, Ctx, frac, run_driver
from translate import neb as neb_tr

PROP = "C09"
LEAN_MODULE = "TopSearch.Props.C09"
LEAN_FILES = ["TopSearch.Props.C09", "TopSearch.Lemmas.Neb", "TopSearch.Model.Neb"]
EXTRA_TARGETS = ["TopSearch.Model.Neb", "TopSearch.Gen.Neb", "TopSearch.Drv.Util"]
_T = "TopSearch.Props.C09."
REQUIRED = [_T + n for n in [
    "C09_bridge_clamp", "C09_bridge_retry", "C09_bridge_candidates", "C09_bridge_tangent",
    "C09_bridge_perp_cut", "C09_bridge_end_rows", "C09_bridge_spring_literals",
    "C09_image_count", "C09_image_count_object", "C09_endpoints", "C09_interp_in_box",
    "C09_end_gradient_zero", "C09_interior_row", "C09_ends_fixed_of_LBFGSB", "C09_in_box_of_LBFGSB",
    "C09_candidates_iff", "C09_candidates_ascending", "C09_candidates_positions",
    "C09_nudged_orthogonal", "C09_nudged_decomposition", "C09_spring_parallel",
    "C09_tangent_upwind", "C09_tangent_rows", "C09_tangent_unit_or_zero",
    "C09_no_residue_density", "C09_no_residue_outputs", "C09_no_residue_history",
    "C09_spring_restoring_partial", "C09_spring_restoring_of_repaired_sign",
    "C09_spring_sign_as_coded", "C09_spring_not_restoring_as_coded",
]]
RULE = ("cases = one call of the real method compared with the Rat model on the same input "
        "(initial_interpolation on an object with history, find_tangent_differences, "
        "band_function_gradient, find_ts_candidates, perpendicular_component, run with the logged "
        "optimiser result); non-trivial = accepted by the guard; distinct = distinct canonical inputs")
ASSUMPTIONS = [
    "LBFGSB oracle contract (scipy fmin_l_bfgs_b behind lbfgs.minimise): the result lies in the box; "
    "coordinates whose gradient is identically zero and that start inside the box do not move — "
    "validated on every run (ends bitwise unmoved, all images in the box), not proved",
    "np.linalg.norm = sqrt of the sum of squares with sqrt x >= 0 and sqrt x * sqrt x = x (exact "
    "arithmetic; the model executes an exact sqrt on rational squares and a 2^-120-accurate one elsewhere)",
    "int() truncates towards zero; numpy reshape/flatten of the band is a row-major bijection",
    "the potential and the optimiser are deterministic functions of their arguments (no-residue clause)",
]
PARTIAL = ("spring direction: false of the code as written (known finding spring-sign:band_function_gradient); "
           "proved up to the sign read from the source. That L-BFGS-B leaves zero-gradient coordinates "
           "fixed and stays in the box is the LBFGSB contract (observed, not proved). Dihedral "
           "interpolation: only the clamp is tied (translator); 'begins at the first minimum' is by "
           "inspection of `band[0,:] = coords1.position`. IEEE rounding: the last image equals x2 only to "
           "rounding (checked to 1e-12)")
TRUSTED_EXTRA = ["scipy.optimize.fmin_l_bfgs_b (LBFGSB contract)", "numpy diff/sign/linalg.norm semantics as modelled"]

KNOWN_SPRING_KEY = "spring-sign:band_function_gradient"
TOL = 1e-9


def regenerate(ctx: Ctx) -> None:
    ctx.gen_status.update(neb_tr.regenerate())
    from translate import transcripts as _tr
    ctx.gen_status.update(_tr.constructor_wiring(['NudgedElasticBand']))


# ----------------------------------------------------------------------------- helpers


def V(v) -> str:
    a = np.asarray(v, dtype=float).ravel()
    return ",".join(frac(float(x)) for x in a) if a.size else "-"


def M(m) -> str:
    m = np.asarray(m, dtype=float)
    return ";".join(V(r) for r in m) if len(m) else "-"


def BOX(b) -> str:
    return ",".join(f"{frac(float(lo))}:{frac(float(hi))}" for lo, hi in b)


def pvec(s: str) -> list[Fraction]:
    return [] if s == "-" else [Fraction(t) for t in s.split(",")]


def pmat(s: str) -> list[list[Fraction]]:
    return [] if s == "-" else [pvec(r) for r in s.split(";")]


def fields(line: str) -> dict[str, str]:
    return dict(w.split("=", 1) for w in line.split(" ") if "=" in w)


def close(x: float, q, tol: float = TOL) -> bool:
    return abs(float(x) - float(q)) <= tol * (1.0 + abs(float(x)))


def mat_close(a, qm, tol: float = TOL) -> bool:
    a = np.asarray(a, dtype=float)
    if a.ndim == 1:
        a = a.reshape(len(qm), -1) if len(qm) else a.reshape(0, 0)
    if len(a) != len(qm):
        return False
    return all(len(r) == len(qr) and all(close(x, q, tol) for x, q in zip(r, qr)) for r, qr in zip(a, qm))


def exc_name(e: Exception) -> str:
    return type(e).__name__


class TablePot:
    """stub potential: energy and gradient per image injected from a table keyed by position"""

    def __init__(self):
        self.tab: dict[bytes, tuple[float, np.ndarray]] = {}

    def load(self, band, energies, grads=None):
        self.tab = {}
        for i, row in enumerate(np.asarray(band, dtype=float)):
            g = np.zeros(row.size) if grads is None else np.asarray(grads[i], dtype=float)
            self.tab[np.ascontiguousarray(row).tobytes()] = (float(energies[i]), g)

    def function(self, x):
        return self.tab[np.ascontiguousarray(np.asarray(x, dtype=float)).tobytes()][0]

    work = None          # when set: every call hands back THIS array, refilled (a surface with a preallocated work array)

    def function_gradient(self, x):
        e, g = self.tab[np.ascontiguousarray(np.asarray(x, dtype=float)).tobytes()]
        if self.work is not None and self.work.shape == g.shape:
            self.work[:] = g
            return e, self.work
        return e, g.copy()


class QuadPot:
    """f(x) = sum c_i (x_i - m_i)^2 with dyadic coefficients"""

    def __init__(self, c, m):
        self.c = np.asarray(c, dtype=float)
        self.m = np.asarray(m, dtype=float)

    def function(self, x):
        return float(np.sum(self.c * (np.asarray(x) - self.m) ** 2))

    def function_gradient(self, x):
        return self.function(x), 2.0 * self.c * (np.asarray(x) - self.m)


class DoubleWell:
    """f(x) = (x_0^2 - 1)^2 + sum_{j>0} c_j x_j^2 : two minima, a saddle at the origin"""

    def __init__(self, c):
        self.c = np.asarray(c, dtype=float)

    def function(self, x):
        x = np.asarray(x)
        return float((x[0] ** 2 - 1.0) ** 2 + np.sum(self.c[1:] * x[1:] ** 2))

    def function_gradient(self, x):
        x = np.asarray(x)
        g = 2.0 * self.c * x
        g[0] = 4.0 * x[0] * (x[0] ** 2 - 1.0)
        return self.function(x), g


def new_neb(pot, k, density, max_images, conv=1e-4):
    from topsearch.transition_states.nudged_elastic_band import NudgedElasticBand
    # a density read with `np.loadtxt` from a one-number file, or produced by `np.squeeze`, is a 0-d array: a legitimate
    # number (a third of the objects get one) that an in-place update of the density would modify for everybody
    return NudgedElasticBand(pot, float(k), (density if isinstance(density, np.ndarray) else float(density)), int(max_images), conv)


def new_coords(box, x1):
    from topsearch.data.coordinates import StandardCoordinates
    c = StandardCoordinates(ndim=len(box), bounds=[(float(a), float(b)) for a, b in box])
    c.position = np.array(x1, dtype=float)
    return c


def impl_state(neb) -> str:
    n = "none" if neb.n_images is None else str(int(neb.n_images))
    nb = "none" if neb.band_bounds is None else str(len(neb.band_bounds))
    ks = "none" if neb.force_constants is None else V(neb.force_constants)
    return f"dens={frac(float(neb.image_density))} n={n} nb={nb} ks={ks} count={neb.neb_count}"


class Batch:
    """driver lines with the check to run on their answers (the driver keeps the object between lines)"""

    def __init__(self):
        self.lines: list[str] = []
        self.jobs: list[tuple[int, int, object]] = []

    def add(self, lines: list[str], check) -> None:
        self.jobs.append((len(self.lines), len(lines), check))
        self.lines.extend(lines)

    def run(self, ctx: Ctx) -> None:
        if not self.lines:
            return
        out = run_driver("Neb", self.lines)
        if len(out) != len(self.lines):
            ctx.diverge("neb-driver-length", f"driver answered {len(out)} lines for {len(self.lines)}", {})
            return
        for start, n, check in self.jobs:
            check(out[start:start + n])


# ----------------------------------------------------------------------------- generators


def dy(rng, lo, hi, step=0.25) -> float:
    """a dyadic number in [lo, hi] on the grid `step`"""
    return (rng.randrange(int(round(lo / step)), int(round(hi / step)) + 1)) * step


def gen_box(rng, d):
    return [(-rng.choice([1.0, 1.5, 2.0, 3.0, 4.0, 8.0]), rng.choice([1.0, 1.5, 2.0, 3.0, 4.0, 8.0]))
            for _ in range(d)]


def gen_pair(rng, box, style):
    """two dyadic points in the box; returns (x1, x2, exact) where exact says |x1-x2| is exact in binary64"""
    d = len(box)
    x1 = [dy(rng, lo, hi, 0.125) for lo, hi in box]
    if style == "intpt":
        # end points a caller wrote as integers (the arrays are then integer-typed, see interp_call)
        x1 = [float(rng.randint(int(np.ceil(lo)), int(np.floor(hi)))) for lo, hi in box]
        x2 = [float(rng.randint(int(np.ceil(lo)), int(np.floor(hi)))) if rng.random() < 0.5 else dy(rng, lo, hi, 0.125)
              for lo, hi in box]
        return x1, x2, False
    if style == "same":
        return x1, list(x1), True
    if style == "axis":
        j = rng.randrange(d)
        x2 = list(x1)
        while x2[j] == x1[j]:
            x2[j] = dy(rng, box[j][0], box[j][1], 0.125)
        return x1, x2, True
    if style == "pyth" and d >= 2:
        j, k = rng.sample(range(d), 2)
        for _ in range(20):
            s = rng.choice([0.125, 0.25, 0.375, 0.5, 0.75, 1.0]) * rng.choice([-1, 1])
            a, b = rng.choice([(3, 4), (4, 3), (5, 12), (12, 5), (8, 6)])
            t = rng.choice([-1, 1])
            x2 = list(x1)
            x2[j] = x1[j] + a * s
            x2[k] = x1[k] + t * b * s
            if box[j][0] <= x2[j] <= box[j][1] and box[k][0] <= x2[k] <= box[k][1]:
                return x1, x2, True
    x2 = [dy(rng, lo, hi, 0.125) for lo, hi in box]
    return x1, x2, False


ENERGY_KINDS = ["up", "down", "peak", "valley", "flat", "ties", "random", "plateau", "tiny", "tiny"]


def gen_energies(rng, n, kind):
    if kind == "up":
        e = sorted(dy(rng, -2, 2, 0.125) for _ in range(n))
    elif kind == "down":
        e = sorted((dy(rng, -2, 2, 0.125) for _ in range(n)), reverse=True)
    elif kind == "peak":
        m = rng.randrange(n)
        e = [-abs(i - m) * 0.5 + rng.choice([0, 0.125]) for i in range(n)]
    elif kind == "valley":
        m = rng.randrange(n)
        e = [abs(i - m) * 0.5 - rng.choice([0, 0.125]) for i in range(n)]
    elif kind == "tiny":
        # local extrema whose energy differences are far below any absolute threshold (2^-32 .. 2^-46):
        # the raw tangent of such an image is tiny but NOT zero and must still be normalised
        m = rng.randrange(n)
        s = 2.0 ** -rng.randrange(32, 47)
        sign = rng.choice([-1.0, 1.0])
        e = [0.5 + sign * s * (abs(i - m) + rng.choice([0, 0.5])) for i in range(n)]
    elif kind == "flat":
        e = [0.5] * n
    elif kind == "ties":
        e = [rng.choice([0.0, 1.0]) for _ in range(n)]
    elif kind == "plateau":
        e = [rng.choice([0.0, 0.5, 0.5, 1.0]) for _ in range(n)]
    else:
        e = [dy(rng, -2, 2, 0.125) for _ in range(n)]
    return [float(x) for x in e]


def gen_band(rng, n, d, style):
    """dyadic band; styles: axis (exact segment lengths), pyth (3-4-5 steps), free, line (collinear)"""
    x = [dy(rng, -2, 2, 0.25) for _ in range(d)]
    band = [list(x)]
    direction = [rng.choice([-1, 0, 1]) for _ in range(d)]
    if not any(direction):
        direction[0] = 1
    for _ in range(n - 1):
        y = list(band[-1])
        r = rng.random()
        if r < 0.12:
            pass                                              # coincident images
        elif style == "axis":
            j = rng.randrange(d)
            y[j] += rng.choice([-1, 1]) * rng.choice([0.25, 0.5, 1.0, 1.5])
        elif style == "pyth" and d >= 2:
            j, k = rng.sample(range(d), 2)
            s = rng.choice([0.125, 0.25, 0.5])
            a, b = rng.choice([(3, 4), (4, 3)])
            y[j] += rng.choice([-1, 1]) * a * s
            y[k] += rng.choice([-1, 1]) * b * s
        elif style == "line":
            s = rng.choice([0.25, 0.5, 0.75, 1.0, 1.5])
            y = [a + s * c for a, c in zip(y, direction)]
        else:
            y = [a + dy(rng, -1, 1, 0.125) for a in y]
        band.append(y)
    # consistent table: coincident positions share one energy
    return band


def consistent(band, energies, grads):
    seen = {}
    for i, row in enumerate(band):
        k = tuple(row)
        if k in seen:
            energies[i] = energies[seen[k]]
            grads[i] = list(grads[seen[k]])
        else:
            seen[k] = i


def tangent_tag(e, i) -> str:
    s0 = np.sign(e[i] - e[i - 1])
    s1 = np.sign(e[i + 1] - e[i])
    s = s0 + s1
    if s >= 1:
        return "tan:up"
    if s <= -1:
        return "tan:down"
    if s0 == 0:
        return "tan:flat"
    return "tan:max" if s0 > 0 else "tan:min"


# ----------------------------------------------------------------------------- correspondence


def correspond(ctx: Ctx) -> None:
    rng = ctx.rng
    np.random.seed(ctx.seed)
    b = Batch()
    corr_interp(ctx, rng, b)
    corr_tangents(ctx, rng, b)
    corr_gradient(ctx, rng, b)
    corr_candidates(ctx, rng, b)
    corr_perp(ctx, rng, b)
    corr_runs(ctx, rng, b)
    corr_malformed(ctx, rng, b)
    b.run(ctx)


def count_margin(eff, x1, x2):
    """(density*dist as the code computes it, whether that float is the exact real value,
    whether it is too close to an integer to compare `int()` when it is not exact)"""
    a, c = np.array(x1, dtype=float), np.array(x2, dtype=float)
    dist = float(np.linalg.norm(a - c))
    d2 = sum((Fraction(float(u)) - Fraction(float(v))) ** 2 for u, v in zip(a, c))
    p = eff * dist
    exact = Fraction(dist) ** 2 == d2 and Fraction(eff) * Fraction(dist) == Fraction(p)
    near = (not exact) and abs(p - round(p)) < 1e-7 * max(1.0, abs(p))
    return p, dist, exact, near


def interp_call(ctx, b, neb, box, x1, x2, attempts, exact, label, hist):
    """one initial_interpolation on `neb` and on the model object; compare everything it sets"""
    eff = neb.original_image_density * 1.5 * attempts if attempts > 0 else neb.image_density
    p, dist, exact, near = count_margin(eff, x1, x2)
    coords = new_coords(box, x1)
    x2a = np.array(x2, dtype=float)
    if all(float(v).is_integer() for v in x1) and hash((tuple(x1), tuple(x2), attempts)) % 2 == 0:
        coords.position = np.array([int(v) for v in x1])            # integer-typed array, as np.array([-1, 0]) gives
        if all(float(v).is_integer() for v in x2):
            x2a = np.array([int(v) for v in x2])
    band = neb.initial_interpolation(coords, x2a, attempts, None)
    st = impl_state(neb)
    n = int(neb.n_images)
    bounds = list(neb.band_bounds)
    dens = float(neb.image_density)
    band = band.copy()
    line = f"interp {attempts} {V(x1)} {V(x2)} {BOX(box)}"
    hist = list(hist)

    def check(ans):
        a, s = ans
        replay = {"ops": hist + [line], "impl_n": n, "model": a[:300]}
        if near:
            ctx.stats.near_ties += 1
            return
        ctx.stats.case({"stream": label, "op": line, "n": n}, True)
        ctx.stats.branch("interp:" + ("retry" if attempts > 0 else "first") + ":" +
                         ("low" if p < 10 else "high" if int(p) > neb.max_images else "mid"))
        if a in ("guard", "bad-op"):
            ctx.diverge("interp:refused", f"model refuses `{line}`", replay)
            return
        f = fields(a)
        if f["n"] != str(n):
            ctx.diverge("interp:n_images", f"`{line}` (density {eff}, dist {dist}): implementation "
                        f"n_images={n}, model {f['n']}", replay)
            return
        mb = pmat(f["band"])
        if not mat_close(band, mb):
            ctx.diverge("interp:band", f"`{line}`: interpolated band differs from the model", replay)
        elif [Fraction(x) for x in band[0]] != mb[0]:
            ctx.diverge("interp:first-image", f"`{line}`: first image is not x1 exactly", replay)
        if f["bounds"] != BOX(bounds):
            ctx.diverge("interp:band_bounds", f"`{line}`: band_bounds differ from box*n_images", replay)
        if Fraction(f["dens"]) != Fraction(dens):
            ctx.diverge("interp:image_density", f"`{line}`: image_density afterwards {dens}, model {f['dens']}", replay)
        if s != st:
            ctx.diverge("interp:state", f"after `{line}`: implementation {st[:120]} / model {s[:120]}", replay)

    b.add([line, "state"], check)
    return line


def corr_interp(ctx, rng, b):
    nobj = ctx.scale(60, 600)
    for oi in range(nobj):
        d = rng.choice([1, 2, 2, 3, 4])
        box = gen_box(rng, d)
        mx = rng.choice([10, 11, 12, 15, 20, 33, 50])
        dens = rng.choice([0.5, 1.0, 2.0, 2.5, 4.0, 8.0, 16.0])
        k = rng.choice([0.5, 1.0, 10.0, 50.0])
        neb = new_neb(TablePot(), k, dens, mx)
        new = f"new {frac(k)} {frac(dens)} {mx}"
        b.add([new], lambda ans: None)
        hist = [new]
        for ci in range(rng.randrange(3, 7)):
            if ci and rng.random() < 0.4:
                box = gen_box(rng, d)             # same object, same dimension, different box
            style = rng.choice(["axis", "axis", "pyth", "free", "same", "intpt"])
            x1, x2, exact = gen_pair(rng, box, style)
            attempts = rng.choice([0, 0, 1, 2, 3, 4])
            hist.append(interp_call(ctx, b, neb, box, x1, x2, attempts, exact, "interp", hist))
    # boundaries on purpose: density*dist exactly at / next to 10 and max_images, attempts = 0
    for mx in (10, 11, 15, 50):
        for target in (9.75, 10.0, 10.25, mx - 0.25, float(mx), mx + 0.25, mx + 1.0, 0.0):
            L = rng.choice([0.5, 1.0, 2.0, 4.0])
            dens = target / L if target else 3.0
            box = [(-1.0, 8.0), (-2.0, 2.0)]
            x1 = [0.0, 0.5]
            x2 = [L if target else 0.0, 0.5]
            neb = new_neb(TablePot(), 1.0, dens, mx)
            new = f"new 1 {frac(dens)} {mx}"
            b.add([new], lambda ans: None)
            interp_call(ctx, b, neb, box, x1, x2, 0, True, "interp-boundary", [new])
        # retries: 1.5*attempts*orig*L hits multiples of 3/4
        for attempts, L in ((1, 6.5), (1, 6.75), (2, mx / 3.0 if mx % 3 == 0 else 5.0), (2, 5.25), (4, 8.0), (3, 0.25)):
            neb = new_neb(TablePot(), 2.0, 1.0, mx)
            new = f"new 2 1 {mx}"
            b.add([new], lambda ans: None)
            interp_call(ctx, b, neb, [(-1.0, 9.0)], [0.0], [float(L)], attempts, L == float(np.float32(L)),
                        "interp-boundary", [new])


def corr_tangents(ctx, rng, b):
    for _ in range(ctx.scale(400, 5000)):
        n = rng.randrange(3, ctx.scale(9, 14))
        d = rng.choice([1, 2, 2, 3, 4])
        band = gen_band(rng, n, d, rng.choice(["axis", "pyth", "free", "line"]))
        e = gen_energies(rng, n, rng.choice(ENERGY_KINDS))
        consistent(band, e, [[0.0] * d for _ in range(n)])
        neb = new_neb(TablePot(), 1.0, 1.0, 50)
        neb.n_images = n
        ea = np.array(e)
        if rng.random() < 0.5:
            ea = ea.reshape(-1, 1)                # the shape band_function_gradient passes
        try:
            t = neb.find_tangent_differences(np.array(band), ea)
        except Exception as ex:
            t = exc_name(ex)
        line = f"tangents {n} {M(band)} {V(e)}"
        tags = [tangent_tag(e, i) for i in range(1, n - 1)]

        def check(ans, t=t, line=line, tags=tags, n=n):
            a = ans[0]
            ctx.stats.case({"stream": "tangents", "op": line}, True)
            for tg in tags:
                ctx.stats.branch(tg)
            replay = {"ops": [line], "impl": str(t)[:400], "model": a[:400]}
            if isinstance(t, str) or a in ("guard", "bad-op"):
                ctx.diverge("tangents:error", f"`{line[:80]}`: implementation {str(t)[:60]} / model {a[:60]}", replay)
                return
            mt = pmat(a)
            if not mat_close(t, mt):
                ctx.diverge("tangents:value", f"find_tangent_differences differs from the model on `{line[:120]}`", replay)
                return
            for r, qr in zip(np.asarray(t), mt):
                if (not np.any(r)) != all(q == 0 for q in qr):
                    ctx.diverge("tangents:zero-row", f"zero tangent rows differ on `{line[:120]}`", replay)

        b.add([line], check)


def gradient_case(rng, uniform_k=False, nmax=9):
    n = rng.randrange(3, nmax)
    d = rng.choice([1, 2, 2, 3, 4])
    band = gen_band(rng, n, d, rng.choice(["axis", "pyth", "free", "line"]))
    e = gen_energies(rng, n, rng.choice(ENERGY_KINDS))
    g = [[dy(rng, -2, 2, 0.25) for _ in range(d)] for _ in range(n)]
    consistent(band, e, g)
    if uniform_k or rng.random() < 0.4:
        ks = [rng.choice([0.5, 1.0, 2.0, 10.0])] * (n - 1)
    else:
        ks = [rng.choice([0.5, 1.0, 2.0, 4.0]) for _ in range(n - 1)]
    return n, band, e, g, ks


def impl_gradient(n, band, e, g, ks):
    pot = TablePot()
    pot.load(band, e, g)
    if (n + len(band[0])) % 2 == 0:
        pot.work = np.zeros(len(band[0]))      # half of the cases: the surface returns its one work array every time
    neb = new_neb(pot, ks[0] if ks else 1.0, 1.0, 50)
    neb.n_images = n
    neb.force_constants = np.array(ks, dtype=float)
    f, grad = neb.band_function_gradient(np.array(band, dtype=float).flatten())
    return float(f), np.asarray(grad, dtype=float).reshape(n, -1), neb


def corr_gradient(ctx, rng, b):
    cases = [(4, [[0.0], [1.0], [1.5], [3.0]], [0.0] * 4, [[0.0]] * 4, [1.0] * 3)]   # the §6 witness
    cases += [gradient_case(rng, nmax=ctx.scale(9, 14)) for _ in range(ctx.scale(400, 5000))]
    for n, band, e, g, ks in cases:
        try:
            f, grad, _ = impl_gradient(n, band, e, g, ks)
            res = (f, grad)
        except Exception as ex:
            res = exc_name(ex)
        line = f"grad {n} {V(ks)} {M(band)} {V(e)} {M(g)}"
        tags = [tangent_tag(e, i) for i in range(1, n - 1)]

        def check(ans, res=res, line=line, tags=tags, n=n):
            a = ans[0]
            ctx.stats.case({"stream": "gradient", "op": line}, True)
            for tg in tags:
                ctx.stats.branch("grad:" + tg)
            replay = {"ops": [line], "impl": str(res)[:600], "model": a[:600]}
            if isinstance(res, str) or a in ("guard", "bad-op"):
                ctx.diverge("gradient:error", f"band_function_gradient: implementation {str(res)[:60]} / model {a[:60]}", replay)
                return
            fm = fields(a)
            if not close(res[0], Fraction(fm["f"])):
                ctx.diverge("gradient:function", f"band function value {res[0]} / model {float(Fraction(fm['f']))}", replay)
            mg = pmat(fm["g"])
            if not mat_close(res[1], mg):
                ctx.diverge("gradient:value", f"band gradient differs from the model on `{line[:120]}`", replay)
            elif np.any(res[1][0]) or np.any(res[1][-1]) or any(mg[0]) or any(mg[-1]):
                ctx.diverge("gradient:end-rows", f"end rows of the band gradient are not zero on `{line[:120]}`", replay)

        b.add([line], check)


def corr_candidates(ctx, rng, b):
    for _ in range(ctx.scale(250, 3000)):
        m = rng.randrange(2, ctx.scale(10, 16))
        d = rng.choice([1, 2, 3])
        band = gen_band(rng, m, d, "free")
        e = gen_energies(rng, m, rng.choice(ENERGY_KINDS))
        consistent(band, e, [[0.0] * d for _ in range(m)])
        n = m if rng.random() < 0.8 else rng.randrange(0, m + 1)       # n_images <= rows is legal
        pot = TablePot()
        pot.load(band, e)
        neb = new_neb(pot, 1.0, 1.0, 50)
        neb.n_images = n
        try:
            c, p = neb.find_ts_candidates(np.array(band, dtype=float))
            res = (",".join(str(int(i)) for i in c) or "-", p.copy())
        except Exception as ex:
            res = exc_name(ex)
        line = f"cands {n} {M(band)} {V(e)}"

        def check(ans, res=res, line=line):
            a = ans[0]
            ctx.stats.case({"stream": "candidates", "op": line}, True)
            replay = {"ops": [line], "impl": str(res)[:300], "model": a[:300]}
            if isinstance(res, str) or a in ("guard", "bad-op"):
                ctx.diverge("candidates:error", f"find_ts_candidates: implementation {str(res)[:60]} / model {a[:60]}", replay)
                return
            fm = fields(a)
            ctx.stats.branch("cands:" + ("none" if fm["cands"] == "-" else "some"))
            if fm["cands"] != res[0]:
                ctx.diverge("candidates:indices", f"candidates {res[0]} / model {fm['cands']} on `{line[:100]}`", replay)
            elif fm["pos"] != M(res[1]):
                ctx.diverge("candidates:positions", f"candidate positions differ on `{line[:100]}`", replay)

        b.add([line], check)


def corr_perp(ctx, rng, b):
    neb = new_neb(TablePot(), 1.0, 1.0, 50)
    cases = [([1.0, 2.0], [0.0, 0.0]), ([1.0, 2.0], [2.0 ** -22, 0.0]), ([1.0, 2.0], [2.0 ** -21, 0.0]),
             ([1.0], [2.0 ** -23]), ([3.0, -1.0, 0.5], [0.0, 1.0, 0.0])]
    for _ in range(ctx.scale(100, 1500)):
        d = rng.randrange(1, 5)
        v = [dy(rng, -3, 3, 0.125) for _ in range(d)]
        t = [dy(rng, -2, 2, 0.25) for _ in range(d)] if rng.random() < 0.85 else [0.0] * d
        cases.append((v, t))
    for v, t in cases:
        r = neb.perpendicular_component(np.array(v), np.array(t))
        line = f"perp {V(v)} {V(t)}"

        def check(ans, r=r, line=line):
            ctx.stats.case({"stream": "perp", "op": line}, True)
            ctx.stats.branch("perp:" + ("cut" if not np.any(r) else "computed"))
            a = ans[0]
            if a in ("guard", "bad-op") or not mat_close(np.asarray(r).reshape(1, -1), [pvec(a)]):
                ctx.diverge("perp:value", f"perpendicular_component differs from the model on `{line}`",
                            {"ops": [line], "impl": str(r), "model": a[:200]})

        b.add([line], check)


SURFACES = ["camel", "quad2", "quad3", "well2", "well3"]


def surface(name):
    if name == "camel":
        from topsearch.potentials.test_functions import Camelback
        return Camelback(), [(-3.0, 3.0), (-2.0, 2.0)]
    if name == "quad2":
        return QuadPot([1.0, 0.5], [0.25, -0.5]), [(-2.0, 2.0), (-3.0, 1.0)]
    if name == "quad3":
        return QuadPot([1.0, 2.0, 0.25], [0.0, 0.5, -0.25]), [(-2.0, 2.0), (-2.0, 2.0), (-1.0, 4.0)]
    if name == "well2":
        return DoubleWell([0.0, 2.0]), [(-2.0, 2.0), (-1.0, 1.5)]
    return DoubleWell([0.0, 1.0, 0.5]), [(-2.0, 2.0), (-1.0, 1.0), (-1.5, 1.0)]


def traced_run(neb, pot, box, x1, x2, attempts):
    """neb.run with minimise_interpolation wrapped from outside; returns everything observable"""
    cap = {}
    orig = type(neb).minimise_interpolation

    def wrapped(band):
        cap["band0"] = np.array(band, dtype=float, copy=True)
        cap["n"] = int(neb.n_images)
        cap["bounds"] = list(neb.band_bounds)
        cap["ks"] = np.array(neb.force_constants, copy=True)
        cap["dens_during"] = float(neb.image_density)
        out = orig(neb, band)
        cap["opt"] = np.array(out, dtype=float, copy=True)
        return out

    neb.minimise_interpolation = wrapped
    try:
        coords = new_coords(box, x1)
        c, p = neb.run(coords, np.array(x2, dtype=float), attempts)
    finally:
        del neb.minimise_interpolation
    cap["cands"] = [int(i) for i in c]
    cap["pos"] = np.array(p, dtype=float, copy=True)
    cap["energies"] = [float(pot.function(r)) for r in cap["opt"]]
    cap["x1_after"] = np.array(coords.position, copy=True)
    return cap


def gen_run_sequence(rng, quick_len):
    name = rng.choice(SURFACES)
    pot, box = surface(name)
    cfg = {"surface": name, "k": rng.choice([1.0, 10.0, 50.0]), "density": rng.choice([2.0, 5.0, 10.0, 16.0]),
           "max": rng.choice([10, 12, 15, 20, 30]), "calls": []}
    for _ in range(quick_len):
        x1 = [dy(rng, lo + 0.125, hi - 0.125, 0.125) for lo, hi in box]
        x2 = [dy(rng, lo + 0.125, hi - 0.125, 0.125) for lo, hi in box]
        if rng.random() < 0.3 and cfg["calls"]:
            x1, x2 = cfg["calls"][0][0], cfg["calls"][0][1]           # the same pair again later
        cfg["calls"].append((x1, x2, rng.choice([0, 0, 1, 2, 3, 4])))
    return cfg


def corr_runs(ctx, rng, b):
    for _ in range(ctx.scale(12, 150)):
        cfg = gen_run_sequence(rng, rng.randrange(3, 6))
        pot, box = surface(cfg["surface"])
        neb = new_neb(pot, cfg["k"], cfg["density"], cfg["max"])
        new = f"new {frac(cfg['k'])} {frac(cfg['density'])} {cfg['max']}"
        b.add([new], lambda ans: None)
        hist = [new]
        for (x1, x2, attempts) in cfg["calls"]:
            try:
                cap = traced_run(neb, pot, box, x1, x2, attempts)
            except Exception as ex:
                ctx.diverge("run:raises", f"run raised {exc_name(ex)}: {str(ex)[:120]} (the model accepts the call)",
                            {"ops": hist + [f"interp {attempts} {V(x1)} {V(x2)} {BOX(box)}"]})
                break
            ctx.stats.traces += 1
            # the same call on a fresh object: bit-for-bit equal outputs (the model is a function
            # of configuration and arguments only)
            fresh = traced_run(new_neb(pot, cfg["k"], cfg["density"], cfg["max"]), pot, box, x1, x2, attempts)
            st = impl_state(neb)
            l1 = f"interp {attempts} {V(x1)} {V(x2)} {BOX(box)}"
            l2 = f"finish {M(cap['opt'])} {V(cap['energies'])}"
            eff = cfg["density"] * 1.5 * attempts if attempts > 0 else cfg["density"]
            p, _dist, _exact, near = count_margin(eff, x1, x2)
            same = (fresh["cands"] == cap["cands"] and fresh["pos"].tobytes() == cap["pos"].tobytes()
                    and fresh["opt"].tobytes() == cap["opt"].tobytes())
            hist = hist + [l1, l2]

            def check(ans, cap=cap, st=st, near=near, same=same, l1=l1, hist=list(hist), cfg=cfg):
                a1, a2, s = ans
                if near:
                    ctx.stats.near_ties += 1
                    return
                ctx.stats.case({"stream": "run", "surface": cfg["surface"], "op": l1, "n": cap["n"]}, True)
                ctx.stats.branch("run:" + ("retry" if "interp 0 " not in l1 else "first"))
                replay = {"ops": hist, "impl_cands": cap["cands"], "model": a2[:300]}
                if not same:
                    ctx.diverge("run:fresh-vs-history", "the same search on a fresh object and on an object "
                                "with history gives different results (the model says they are equal)", replay)
                if a1 in ("guard", "bad-op") or a2 in ("guard", "bad-op"):
                    ctx.diverge("run:refused", f"model refuses the traced run: {a1[:40]} / {a2[:40]}", replay)
                    return
                f1, f2 = fields(a1), fields(a2)
                if f1["n"] != str(cap["n"]):
                    ctx.diverge("run:n_images", f"n_images {cap['n']} / model {f1['n']}", replay)
                    return
                if not mat_close(cap["band0"], pmat(f1["band"])):
                    ctx.diverge("run:initial-band", "band handed to the optimiser differs from the model", replay)
                if f1["bounds"] != BOX(cap["bounds"]):
                    ctx.diverge("run:bounds", "bounds handed to the optimiser differ from the model", replay)
                if f2["cands"] != (",".join(map(str, cap["cands"])) or "-"):
                    ctx.diverge("run:candidates", f"candidates {cap['cands']} / model {f2['cands']}", replay)
                elif f2["pos"] != M(cap["pos"]):
                    ctx.diverge("run:positions", "candidate positions differ from the model", replay)
                if s != st:
                    ctx.diverge("run:state", f"object after run: {st[:100]} / model {s[:100]}", replay)

            b.add([l1, l2, "state"], check)


def corr_malformed(ctx, rng, b):
    """operations outside the guard: the model answers `guard`, the implementation must raise"""
    neb = new_neb(TablePot(), 1.0, 4.0, 20)
    b.add(["new 1 4 20"], lambda ans: None)
    for x1, x2 in (([0.0, 0.0], [1.0, 1.0, 1.0]), ([0.0, 0.0, 0.5], [1.0, 1.0])):
        box = [(-2.0, 2.0)] * len(x1)
        try:
            neb.initial_interpolation(new_coords(box, x1), np.array(x2), 0, None)
            res = "accepted"
        except Exception as ex:
            res = exc_name(ex)
        line = f"interp 0 {V(x1)} {V(x2)} {BOX(box)}"

        def check(ans, res=res, line=line):
            ctx.stats.case({"stream": "malformed", "op": line}, False)
            ctx.stats.branch("malformed:interp")
            if (ans[0] == "guard") != (res != "accepted"):
                ctx.diverge("malformed:interp", f"`{line}`: implementation {res} / model {ans[0][:40]}", {"ops": [line]})

        b.add([line], check)
    # candidate scan with n_images beyond the band
    band = [[0.0], [1.0], [2.0]]
    pot = TablePot()
    pot.load(band, [0.0, 1.0, 0.0])
    neb2 = new_neb(pot, 1.0, 1.0, 20)
    neb2.n_images = 6
    try:
        neb2.find_ts_candidates(np.array(band))
        res = "accepted"
    except Exception as ex:
        res = exc_name(ex)
    line = f"cands 6 {M(band)} 0,1,0"

    def check2(ans, res=res, line=line):
        ctx.stats.case({"stream": "malformed", "op": line}, False)
        ctx.stats.branch("malformed:cands")
        if (ans[0] == "guard") != (res != "accepted"):
            ctx.diverge("malformed:cands", f"`{line}`: implementation {res} / model {ans[0][:40]}", {"ops": [line]})

    b.add([line], check2)


# ----------------------------------------------------------------------------- direct predicates
# Written from the statement.  Each returns a list of (key, what) failures for one concrete input.


def in_box(band, box, tol=0.0) -> bool:
    lo = np.array([b[0] for b in box]) - tol
    hi = np.array([b[1] for b in box]) + tol
    return bool(np.all(band >= lo) and np.all(band <= hi))


def pred_gradient(n, band, e, g, ks) -> list[tuple[str, str]]:
    """force on interior images = true gradient minus its along-band part + a spring purely along the
    tangent that pulls towards equal spacing; end rows zero.  Uniform k (as every real object has)."""
    out = []
    band_a = np.array(band, dtype=float)
    f, total, neb = impl_gradient(n, band, e, g, ks)
    _, spring, _ = impl_gradient(n, band, e, [[0.0] * band_a.shape[1]] * n, ks)    # flat copy: spring alone
    tau = neb.find_tangent_differences(band_a, np.array(e, dtype=float).reshape(-1, 1))
    if np.any(total[0]) or np.any(total[-1]):
        out.append(("end-gradient:band_function_gradient", "the band gradient of an end image is not zero"))
    scale = 1.0 + float(np.max(np.abs(total))) + float(np.max(np.abs(np.array(g))))
    for i in range(1, n - 1):
        t = tau[i - 1]
        tt = float(t @ t)
        if tt == 0.0:
            # a tangent may vanish only where images coincide; on a straight stretch with distinct
            # neighbours every upwind choice points along the band, however small the energy differences
            up, un = band_a[i - 1] - band_a[i], band_a[i + 1] - band_a[i]
            lp, ln = float(np.linalg.norm(up)), float(np.linalg.norm(un))
            if lp > 0 and ln > 0 and float(up @ un) < -0.999999 * lp * ln:
                gi = np.array(g[i], dtype=float)
                along = un / ln
                if float(np.max(np.abs(gi - (gi @ along) * along))) > 1e-9 * scale:
                    out.append(("tangent-vanishes:find_tangent_differences",
                                f"image {i} lies on a straight stretch between distinct neighbours but its tangent is "
                                f"the zero vector: the whole true gradient is dropped instead of its along-band part"))
            continue
        if abs(tt - 1.0) > 1e-9:
            out.append(("tangent-unit:find_tangent_differences", f"tangent of image {i} has squared length {tt}"))
            continue
        # the tangent itself, judged by the documented upwind scheme (Henkelman & Jonsson 2000) written here: towards
        # the higher neighbour on a slope; at a strict extremum both neighbours, the LARGER energy step weighting the
        # side of the higher neighbour.  Only where the scheme is unambiguous (no equal energies / equal steps), up to sign.
        ef = [float(x) for x in e]
        dn_, dp_ = ef[i + 1] - ef[i], ef[i] - ef[i - 1]
        ref_t = None
        if dn_ > 0 and dp_ > 0:
            ref_t = band_a[i + 1] - band_a[i]
        elif dn_ < 0 and dp_ < 0:
            ref_t = band_a[i] - band_a[i - 1]
        elif dn_ * dp_ < 0 and ef[i + 1] != ef[i - 1] and abs(dn_) != abs(dp_):
            big, small = max(abs(dn_), abs(dp_)), min(abs(dn_), abs(dp_))
            wp, wm = (big, small) if ef[i + 1] > ef[i - 1] else (small, big)
            ref_t = (band_a[i + 1] - band_a[i]) * wp + (band_a[i] - band_a[i - 1]) * wm
        if ref_t is not None and float(np.linalg.norm(ref_t)) > 1e-9 * (1.0 + float(np.max(np.abs(band_a)))) * max(1e-300, max(abs(dn_), abs(dp_), 1.0) if dn_ * dp_ < 0 else 1.0):
            rn = ref_t / float(np.linalg.norm(ref_t))
            if abs(float(rn @ t)) < 1.0 - 1e-9:
                out.append(("tangent-upwind:find_tangent_differences",
                            f"image {i} (energies {ef[i - 1]!r}, {ef[i]!r}, {ef[i + 1]!r}): the tangent used in the band "
                            f"gradient is {t.tolist()}, the upwind energy-weighted tangent is +-{rn.tolist()}"))
                continue
        gi = np.array(g[i], dtype=float)
        nonspring = total[i] - spring[i]
        if abs(float(nonspring @ t)) > 1e-9 * scale:
            out.append(("nudged-orthogonal:band_function_gradient",
                        f"image {i}: the non-spring part of the band gradient has component "
                        f"{float(nonspring @ t):.3g} along the tangent"))
        elif float(np.max(np.abs(nonspring + (gi @ t) * t - gi))) > 1e-9 * scale:
            out.append(("nudged-perpendicular:band_function_gradient",
                        f"image {i}: non-spring part plus the removed along-band part is not the true gradient"))
        s = float(spring[i] @ t)
        if float(np.max(np.abs(spring[i] - s * t))) > 1e-9 * scale:
            out.append(("spring-parallel:band_function_gradient", f"image {i}: spring term is not along the tangent"))
            continue
        # direction: on (nearly) straight stretches the force -spring must point to the farther neighbour
        u_prev, u_next = band_a[i - 1] - band_a[i], band_a[i + 1] - band_a[i]
        dp, dn = float(np.linalg.norm(u_prev)), float(np.linalg.norm(u_next))
        if dp == 0.0 or dn == 0.0:
            continue
        if float(u_prev @ u_next) > -0.7 * dp * dn:
            continue                                          # bend sharper than ~45 degrees: not judged
        if abs(dp - dn) <= 1e-9:
            if abs(s) > 1e-9 * scale:
                out.append(("spring-equal-spacing:band_function_gradient",
                            f"image {i} is equally spaced but feels a spring force {-s:.3g}"))
            continue
        far = u_next if dn > dp else u_prev
        towards = float((-spring[i]) @ far)
        if not towards > 0.0:
            out.append((KNOWN_SPRING_KEY,
                        f"image {i} (spacings {dp:g} before, {dn:g} after): the spring force has component "
                        f"{towards:.3g} towards the farther neighbour (must be positive)"))
    return out


def pred_candidates(n, band, e) -> list[tuple[str, str]]:
    pot = TablePot()
    pot.load(band, e)
    neb = new_neb(pot, 1.0, 1.0, 50)
    neb.n_images = n
    band_a = np.array(band, dtype=float)
    c, p = neb.find_ts_candidates(band_a)
    return judge_candidates([int(i) for i in c], np.asarray(p), band_a, e, "find_ts_candidates")


def judge_candidates(c, p, band, e, site) -> list[tuple[str, str]]:
    out = []
    n = len(band)
    want = [i for i in range(1, n - 1) if e[i] >= e[i - 1] and e[i] >= e[i + 1]]
    if c != want:
        tie = any(e[i] == e[i - 1] or e[i] == e[i + 1] for i in set(c) ^ set(want) if 0 < i < n - 1)
        out.append((f"candidates-{'tie' if tie else 'set'}:{site}",
                    f"candidates {c}, but the interior images not exceeded by a neighbour are {want} "
                    f"(energies {[float(x) for x in e]})"))
    elif p.shape != (len(c), band.shape[1]) or p.tobytes() != np.ascontiguousarray(band[c]).tobytes():
        out.append((f"candidate-positions:{site}", "returned positions are not the rows of the band at the candidates"))
    return out


def pred_interp(k, density, mx, box, calls, as_array: bool = False) -> list[tuple[str, str]]:
    """image count bounds, ends, images in the box, density restored — over a sequence on one object"""
    out = []
    # `as_array`: the density arrives as a 0-d numpy array (np.loadtxt on a one-number file, np.squeeze): a legitimate
    # number, and the caller's own object — an in-place update of the density would change it for everybody
    given = np.array(float(density)) if as_array else density
    neb = new_neb(TablePot(), k, given, mx)
    box0 = box
    for call in calls:
        x1, x2, attempts = call[0], call[1], call[2]
        box = call[3] if len(call) > 3 else box0        # the same object searched in a different box
        coords = new_coords(box, x1)
        if all(float(v).is_integer() for v in x1):
            coords.position = np.array([int(v) for v in x1])        # an end point written as integers
        band = neb.initial_interpolation(coords, np.array(x2, dtype=float), attempts, None)
        n = neb.n_images
        line_pts = np.array(x1, dtype=float) + np.outer(np.arange(n), (np.array(x2, dtype=float) - np.array(x1, dtype=float)) / max(n - 1, 1))
        if len(band) == n and float(np.max(np.abs(np.asarray(band, dtype=float) - line_pts))) > 1e-9 * (1.0 + float(np.max(np.abs(line_pts)))):
            out.append(("straight-line:linear_interpolation", "the interpolated images are not evenly spaced on the "
                        "straight line between the two minima"))
        if not (10 <= n <= mx) or len(band) != n:
            out.append(("image-count:initial_interpolation", f"{n} images (rows {len(band)}) with max_images={mx}, attempts={attempts}"))
        if as_array:
            dist = float(np.linalg.norm(np.array(x1, dtype=float) - np.array(x2, dtype=float)))
            eff = float(density) * 1.5 * attempts if attempts > 0 else float(density)
            want = min(max(int(eff * dist), 10), mx)
            if n != want:
                out.append(("image-count:density-given-as-array", f"{n} images for a band of length {dist:g} at the configured "
                            f"density {float(density)} (attempts={attempts}): the configured density asks for {want}"))
            if float(given) != float(density):
                out.append(("no-residue:callers-density", f"the caller's density array now holds {float(given)} (was {float(density)})"))
        if band[0].tobytes() != np.array(x1, dtype=float).tobytes():
            out.append(("first-image:linear_interpolation", "the band does not begin at the first minimum"))
        if float(np.max(np.abs(band[-1] - np.array(x2)))) > 1e-12:
            out.append(("last-image:linear_interpolation", f"the band ends at {band[-1]}, not at {x2}"))
        if not in_box(band, box, 1e-12):
            out.append(("interp-in-box:linear_interpolation", "an interpolated image is outside the box"))
        if neb.image_density != density:
            out.append(("no-residue:image_density", f"image_density is {neb.image_density} after a call with attempts={attempts} (configured {density})"))
        if list(neb.band_bounds) != [tuple(b) for b in box] * n or len(neb.force_constants) != n - 1 \
                or np.any(neb.force_constants != k):
            out.append(("band-attributes:initial_interpolation", "band_bounds / force_constants do not match the band"))
    return out


def pred_runs(cfg) -> list[tuple[str, str]]:
    """a sequence of searches on one object: ends fixed, in the box, candidates exact, no residue
    (the same call on a fresh object and on an object with junk in its caches gives the same answer)"""
    out = []
    pot, box = surface(cfg["surface"])
    neb = new_neb(pot, cfg["k"], cfg["density"], cfg["max"])
    for (x1, x2, attempts) in cfg["calls"]:
        cap = traced_run(neb, pot, box, x1, x2, attempts)
        n, b0, opt = cap["n"], cap["band0"], cap["opt"]
        if not (10 <= n <= cfg["max"]):
            out.append(("image-count:run", f"{n} images with max_images={cfg['max']}"))
        if b0[0].tobytes() != np.array(x1, dtype=float).tobytes():
            out.append(("first-image:run", "the band does not begin at the first minimum"))
        if float(np.max(np.abs(b0[-1] - np.array(x2)))) > 1e-12:
            out.append(("last-image:run", "the band does not end at the second minimum"))
        if not in_box(b0, box, 1e-12):
            out.append(("interp-in-box:run", "an interpolated image is outside the box"))
        if opt.shape != b0.shape or not in_box(opt, box, 1e-12):
            out.append(("optimised-in-box:minimise_interpolation", "optimisation took an image outside the box"))
        elif in_box(b0[[0, -1]], box):
            if opt[0].tobytes() != b0[0].tobytes() or opt[-1].tobytes() != b0[-1].tobytes():
                out.append(("ends-moved:minimise_interpolation",
                            f"optimisation moved an end image by {float(np.max(np.abs(opt[[0, -1]] - b0[[0, -1]]))):.3g}"))
        out += judge_candidates(cap["cands"], cap["pos"], opt, cap["energies"], "run")
        if neb.image_density != cfg["density"]:
            out.append(("no-residue:image_density", f"image_density is {neb.image_density} after run(attempts={attempts})"))
        if cap["x1_after"].tobytes() != np.array(x1, dtype=float).tobytes():
            out.append(("no-residue:coords", "run changed the position of the first minimum"))
        fresh = new_neb(pot, cfg["k"], cfg["density"], cfg["max"])
        junk = new_neb(pot, cfg["k"], cfg["density"], cfg["max"])
        junk.n_images, junk.band_bounds, junk.force_constants, junk.neb_count = 3, [(0.0, 0.0)], np.full(2, 99.0), 7
        for other, nm in ((fresh, "fresh"), (junk, "stale-cache")):
            o = traced_run(other, pot, box, x1, x2, attempts)
            if o["cands"] != cap["cands"] or o["pos"].tobytes() != cap["pos"].tobytes():
                out.append(("no-residue:run", f"run(attempts={attempts}) on the object with history gives candidates "
                            f"{cap['cands']}, on a {nm} object {o['cands']}"))
    return out


def pred_band_layout(name: str, x1, x2, bow: float) -> list[tuple[str, str]]:
    """the public `minimise_interpolation` on a caller's own initial guess (a bowed band), handed over once as a
    row-major array and once as a column-major one holding the same numbers (`np.array([xs, ys]).T` is such a view):
    the optimised band is the same, its end images have not moved, every image is in the box"""
    out = []
    pot, box = surface(name)
    neb = new_neb(pot, 10.0, 6.0, 20, conv=1e-3)
    cap = traced_run(neb, pot, box, x1, x2, 0)             # sets the image count, the band's box and the spring constants
    band0 = cap["band0"]
    n, d = band0.shape
    perp = np.zeros(d)
    perp[(int(np.argmax(np.abs(band0[-1] - band0[0]))) + 1) % d] = 1.0
    guess = band0 + bow * np.sin(np.linspace(0.0, np.pi, n))[:, None] * perp
    lo, hi = np.array([b[0] for b in box]), np.array([b[1] for b in box])
    guess = np.clip(guess, lo, hi)
    g_c, g_f = np.ascontiguousarray(guess), np.asfortranarray(guess)
    if not np.array_equal(g_c, g_f):
        return out
    o_c = np.array(neb.minimise_interpolation(g_c.copy()), dtype=float)
    o_f = np.array(neb.minimise_interpolation(g_f), dtype=float)
    for lab, o in (("row-major", o_c), ("column-major", o_f)):
        if o.shape != guess.shape or not (np.array_equal(o[0], guess[0]) and np.array_equal(o[-1], guess[-1])):
            out.append(("ends-moved:minimise_interpolation",
                        f"{name}: an end image of a {lab} initial guess moved during optimisation "
                        f"({guess[0].tolist()} -> {o[0].tolist() if o.shape == guess.shape else o.shape}, "
                        f"{guess[-1].tolist()} -> {o[-1].tolist() if o.shape == guess.shape else ''})"))
        elif np.any(o < lo) or np.any(o > hi):
            out.append(("optimised-in-box:minimise_interpolation", f"{name}: optimisation of a {lab} guess left the box"))
    if not out and not np.array_equal(o_c, o_f):
        out.append(("layout-dependent:minimise_interpolation",
                    f"{name}: the same initial guess gives different optimised bands depending on the memory layout of the "
                    f"array it is handed over in (largest difference {float(np.max(np.abs(o_c - o_f))):.3g})"))
    return out


def _report(ctx, fails, replay):
    for key, what in fails:
        ctx.fail(key, what, replay)


def _run_pred(ctx, fn, args, site, replay):
    """evaluate one predicate; an exception of the real code on an input of the property's domain
    is a failure with that input as its replay"""
    try:
        fails = fn(*args)
    except Exception as ex:
        fails = [(f"raises-{exc_name(ex)}:{site}", f"{site} raised {exc_name(ex)}: {str(ex)[:160]}")]
    _report(ctx, fails, replay)
    return fails


def molecular_pair(name: str, moves: list):
    """(labels, first end point, second end point): a molecule of the test data and the same molecule after a few
    bond-length / bond-angle / dihedral changes of its own move routines"""
    import ase.io
    from topsearch.data.coordinates import MolecularCoordinates
    a = ase.io.read(str(REPO / "tests" / "test_data" / name))
    lab, pos = list(a.get_chemical_symbols()), a.get_positions().flatten()
    c2 = MolecularCoordinates(lab, pos.copy())
    bonds, _, angles, _, dihs, _ = c2.get_bond_angle_info()
    for kind, idx, amount in moves:
        if kind == "bond" and bonds:
            c2.change_bond_lengths([bonds[idx % len(bonds)]], [amount], c2.reference_bonds)
        elif kind == "angle" and angles:
            c2.change_bond_angles([angles[idx % len(angles)]], [amount], c2.reference_bonds)
        elif kind == "dihedral" and dihs:
            c2.change_dihedral_angles([dihs[idx % len(dihs)]], [amount], c2.reference_bonds)
    return lab, pos, c2.position.copy()


def pred_molecular_interp(name: str, moves: list, density: float, mx: int, attempts: list) -> list[tuple[str, str]]:
    """interpolation in bond lengths / angles / dihedrals (molecules): image count bounds, the band begins at the
    first minimum, the caller's first end point is left where it was, and the same call gives the same band
    again — over a sequence of calls on one band object and one coordinates object"""
    from topsearch.data.coordinates import MolecularCoordinates
    out = []
    lab, pos, end2 = molecular_pair(name, moves)
    neb = new_neb(TablePot(), 10.0, density, mx)
    c = MolecularCoordinates(lab, pos.copy())
    perm = np.arange(len(lab))
    first = {}
    for n_call, att in enumerate(attempts):
        before = c.position.copy()
        band = np.array(neb.initial_interpolation(c, end2.copy(), att, perm), dtype=float)
        n = neb.n_images
        where = f"call {n_call + 1} (attempts={att}) on {name} after {moves}"
        if not (10 <= n <= mx) or len(band) != n:
            out.append(("image-count:dihedral_interpolation", f"{where}: {n} images (rows {len(band)}) with max_images={mx}"))
        if np.abs(band[0] - pos).max() > 1e-12:
            out.append(("first-image:dihedral_interpolation", f"{where}: the band begins {np.abs(band[0] - pos).max():.3g} "
                        "away from the first minimum"))
        if np.abs(c.position - before).max() > 1e-12:
            out.append(("no-residue:coords:dihedral_interpolation", f"{where}: the call displaced the caller's first end "
                        f"point by {np.abs(c.position - before).max():.3g}"))
            c.position = pos.copy()
        if neb.image_density != density:
            out.append(("no-residue:image_density", f"{where}: image_density is {neb.image_density} afterwards (configured {density})"))
        if att in first and (first[att].shape != band.shape or np.abs(first[att] - band).max() > 1e-9):
            out.append(("no-residue:band:dihedral_interpolation", f"{where}: the same pair at the same retry count gave a "
                        "different band than before"))
        first.setdefault(att, band)
    return out


def predicates(ctx: Ctx) -> None:
    rng = ctx.rng
    np.random.seed(ctx.seed + 1)
    deep = 4 if getattr(ctx, "deep_search", False) else 1
    # molecules: corpus (the repaired displacement of the first end point: one stretched bond), then random pairs
    mol_cases = [("ethanol.xyz", [("bond", 0, 0.3)], 8.0, 20, [0, 0]),
                 ("ethanol.xyz", [("dihedral", 0, 40.0), ("bond", 1, -0.1)], 8.0, 30, [0, 1, 0])]
    for _ in range(ctx.scale(4, 20) * deep):
        moves = [(rng.choice(["bond", "angle", "dihedral"]), rng.randrange(8),
                  rng.uniform(-0.15, 0.3)) for _ in range(rng.randrange(1, 4))]
        moves = [(k, i, a if k == "bond" else a * 100.0) for k, i, a in moves]
        mol_cases.append((rng.choice(["ethanol.xyz", "hexane.xyz", "ethanol2.xyz"]), moves, rng.choice([4.0, 8.0, 20.0]),
                          rng.choice([12, 20, 30]), [rng.choice([0, 0, 1, 2]) for _ in range(rng.randrange(2, 5))]))
    for case in mol_cases:
        ctx.stats.case({"stream": "predicate-molecular-interp", "molecule": case[0], "moves": len(case[1])}, True)
        _run_pred(ctx, pred_molecular_interp, case, "dihedral_interpolation", {"pred": "molinterp", "case": list(case)})
    for name, x1, x2 in (("camel", [-1.7036, 0.7961], [1.7036, -0.7961]), ("quad2", [-1.5, 0.5], [1.5, -2.0]),
                         ("well2", [-1.0, 0.0], [1.0, 1.0])):
        case = (name, x1, x2, rng.choice([0.3, 0.6]))
        ctx.stats.case({"stream": "predicate-band-layout", "surface": name}, True)
        _run_pred(ctx, pred_band_layout, case, "minimise_interpolation", {"pred": "layout", "case": list(case)})
    # corpus first: the §6 witness and boundary inputs
    corpus_g = [
        (4, [[0.0], [1.0], [1.5], [3.0]], [0.0] * 4, [[0.0]] * 4, [1.0] * 3),
        (5, [[0.0, 0.0], [1.0, 0.0], [1.5, 0.0], [3.0, 0.0], [4.0, 0.0]], [0.0, 1.0, 2.0, 1.0, 0.0],
         [[1.0, 1.0]] * 5, [2.0] * 4),
        (4, [[0.0, 0.0], [1.0, 0.0], [2.0, 0.0], [3.0, 0.0]], [0.0, 1.0, 1.0, 0.0], [[0.5, -1.0]] * 4, [1.0] * 3),
    ]
    for case in corpus_g:
        ctx.stats.case({"stream": "predicate-corpus", "n": case[0]}, True)
        _run_pred(ctx, pred_gradient, case, "band_function_gradient", {"pred": "gradient", "case": list(case)})
    corpus_c = [(5, [[0.0], [1.0], [2.0], [3.0], [4.0]], [0.0, 1.0, 1.0, 0.0, 0.0]),
                (3, [[0.0], [1.0], [2.0]], [1.0, 1.0, 1.0]),
                (4, [[0.0], [1.0], [2.0], [3.0]], [0.0, 1.0, 2.0, 3.0])]
    for case in corpus_c:
        ctx.stats.case({"stream": "predicate-corpus", "cands": case[0]}, True)
        _run_pred(ctx, pred_candidates, case, "find_ts_candidates", {"pred": "candidates", "case": list(case)})
    corpus_i = [(1.0, 1.0, 10, [(-1.0, 9.0)], [([0.0], [8.0], 0), ([0.0], [8.0], 2), ([0.0], [8.0], 0)]),
                # one object, same band size, two different boxes (stale cached bounds)
                (1.0, 1.0, 10, [(-4.0, 4.0), (-4.0, 4.0)], [([-1.0, 0.0], [1.0, 0.0], 0, [(-4.0, 4.0), (-4.0, 4.0)]),
                                                           ([-1.0, 0.0], [1.0, 0.0], 0, [(-2.0, 2.0), (-1.0, 0.5)])]),
                (1.0, 10.0, 50, [(-3.0, 3.0), (-2.0, 2.0)], [([-3.0, -2.0], [3.0, 2.0], 3), ([0.5, 0.5], [0.5, 0.5], 0)])]
    for case in corpus_i:
        ctx.stats.case({"stream": "predicate-corpus", "interp": case[2]}, True)
        _run_pred(ctx, pred_interp, case, "initial_interpolation", {"pred": "interp", "case": list(case)})
    corpus_r = [{"surface": "camel", "k": 10.0, "density": 10.0, "max": 15,
                 "calls": [([-1.7036, 0.79608], [1.7036, -0.79608], 0), ([-1.7036, 0.79608], [0.0898, -0.7126], 2),
                           ([-1.7036, 0.79608], [1.7036, -0.79608], 0)]}]
    for cfg in corpus_r:
        ctx.stats.case({"stream": "predicate-corpus", "run": cfg["surface"]}, True)
        _run_pred(ctx, pred_runs, (cfg,), "run", {"pred": "runs", "case": cfg})
    # seeded
    for _ in range(ctx.scale(300, 4000) * deep):
        case = gradient_case(rng, uniform_k=True, nmax=ctx.scale(9, 14))
        ctx.stats.case({"stream": "predicate-gradient", "n": case[0]}, True)
        _run_pred(ctx, pred_gradient, case, "band_function_gradient", {"pred": "gradient", "case": list(case)})
    for _ in range(ctx.scale(300, 3000) * deep):
        m = rng.randrange(3, ctx.scale(10, 16))
        band = gen_band(rng, m, rng.choice([1, 2, 3]), "free")
        e = gen_energies(rng, m, rng.choice(ENERGY_KINDS))
        consistent(band, e, [[0.0]] * m)
        ctx.stats.case({"stream": "predicate-candidates", "n": m}, True)
        _run_pred(ctx, pred_candidates, (m, band, e), "find_ts_candidates", {"pred": "candidates", "case": [m, band, e]})
    for _ in range(ctx.scale(100, 1500) * deep):
        d = rng.choice([1, 2, 3, 4])
        box = gen_box(rng, d)
        calls = []
        box0 = box
        for _ in range(rng.randrange(2, 6)):
            if calls and rng.random() < 0.35:                    # same object, other box of the same dimension
                box = gen_box(rng, d)
            x1, x2, _e = gen_pair(rng, box, rng.choice(["axis", "pyth", "free", "same", "intpt"]))
            if rng.random() < 0.2:                               # ends on the faces of the box
                x1 = [rng.choice(bb) for bb in box]
                x2 = [rng.choice(bb) for bb in box]
            calls.append((x1, x2, rng.choice([0, 0, 1, 2, 3, 4]), box))
        box = box0
        case = (rng.choice([1.0, 50.0]), rng.choice([0.5, 1.0, 3.0, 7.3, 10.0, 40.0]),
                rng.choice([10, 11, 15, 20, 50]), box, calls)
        if rng.random() < 0.3:
            case = case + (True,)                               # the density arrives as a 0-d array
        ctx.stats.case({"stream": "predicate-interp", "d": d, "density_as_array": len(case) > 5}, True)
        _run_pred(ctx, pred_interp, case, "initial_interpolation", {"pred": "interp", "case": list(case)})
    for _ in range(ctx.scale(10, 150) * deep):
        cfg = gen_run_sequence(rng, rng.randrange(2, 5))
        ctx.stats.case({"stream": "predicate-runs", "surface": cfg["surface"]}, True)
        ctx.contract("LBFGSB", True)
        fails = _run_pred(ctx, pred_runs, (cfg,), "run", {"pred": "runs", "case": cfg})
        if any(k.startswith(("ends-moved", "optimised-in-box")) for k, _ in fails):
            ctx.contracts["LBFGSB"]["failed"] += 1


def replay(ctx: Ctx, data: dict) -> bool:
    kind = data.get("pred")
    case = data.get("case")
    def guarded(fn, args, site):
        try:
            return fn(*args)
        except Exception as ex:
            return [(f"raises-{exc_name(ex)}:{site}", f"{site} raised {exc_name(ex)}: {str(ex)[:160]}")]

    if kind == "gradient":
        fails = guarded(pred_gradient, case, "band_function_gradient")
    elif kind == "candidates":
        fails = guarded(pred_candidates, case, "find_ts_candidates")
    elif kind == "interp":
        k, density, mx, box, calls = case[:5]
        fails = guarded(pred_interp, (k, density, mx, [tuple(b) for b in box], [tuple(c) for c in calls],
                                      bool(case[5]) if len(case) > 5 else False), "initial_interpolation")
    elif kind == "molinterp":
        name, moves, density, mx, attempts = case
        fails = guarded(pred_molecular_interp, (name, [tuple(m) for m in moves], density, mx, list(attempts)),
                        "dihedral_interpolation")
    elif kind == "layout":
        fails = guarded(pred_band_layout, tuple(case), "minimise_interpolation")
    elif kind == "runs":
        case["calls"] = [tuple(c) for c in case["calls"]]
        fails = guarded(pred_runs, (case,), "run")
    else:
        print("  replay of a model/implementation divergence or broken obligation: re-run ./check C09")
        return False
    want = data.get("key")
    fails = [f for f in fails if want is None or f[0] == want] or fails
    for k, w in fails:
        print(f"  {k}: {w}")
    return not fails
