"""C18 — graph analyses agree with reference graph algorithms.

Tie #1: translate.graph reads the removal test of remove_edges_threshold, the scan constants of
disconnected_height (510 / 10 / 530 / sentinel), argmin-vs-argmax and the roughness guard and
clamp test into Gen/Graph.lean (bridge lemma `C18_bridge_cfg : Gen.Graph.cfg = stdCfg`).
Tie #2 (pure correspondence): REAL KineticTransitionNetwork objects (add_minimum / add_ts) are
handed to the real functions and the same graph to Drivers/Graph.lean: unconnected_component,
are_nodes_connected, get_connections, disconnected_height (exact on dyadic windows where every
threshold is a binary64 number, tolerance + near-tie skip elsewhere), the whole hierarchy of
get_connectivity_graph (partition of every level + parent relation) and roughness_metric (the
np.exp populations are oracle inputs of the model).
Predicates (from the statement, on the real code): unconnected set vs an independent search from
the first arg-min; height vs an independent union-find minimax inside the window; partition and
nesting of every level; roughness >= 0, = 0 below two minima, invariant under renumbering and
shift, proportional under scaling.
"""
from __future__ import annotations

from fractions import Fraction

import numpy as np

from common import Ctx, run_driver, frac
from translate import graph as graph_tr

PROP = "C18"
LEAN_MODULE = "TopSearch.Props.C18Minimax"
LEAN_FILES = ["TopSearch.Props.C18", "TopSearch.Props.C18Minimax", "TopSearch.Lemmas.Graph", "TopSearch.Model.Graph"]
EXTRA_TARGETS = ["TopSearch.Gen.Graph", "TopSearch.Model.Batch"]
_P = "TopSearch.Props.C18."
REQUIRED = [_P + n for n in [
    "C18_connAt_iff_walk", "C18_minimax_is_min_over_walks", "C18_minimax_exists", "C18_minimax_unique",
    "C18_height_of_connected",
    "C18_bridge_cfg",
    "reach_iff",
    "C18_argmin_first",
    "C18_unconnected",
    "C18_scan_is_filter",
    "C18_conn_iff_path",
    "C18_height_minimax",
    "C18_height_sentinel",
    "C18_hierarchy_partition",
    "C18_hierarchy_nested",
    "C18_roughness_nonneg",
    "C18_roughness_zero_small",
    "C18_roughness_perm_invariant",
    "C18_roughness_shift_invariant",
    "C18_roughness_scale",
]]
RULE = ("cases = (network, analysis call) pairs compared model-vs-implementation on real "
        "KineticTransitionNetwork objects; non-trivial = the network has at least one transition "
        "state and the answer is not the guard; distinct = distinct (network, call, answer)")
ASSUMPTIONS = [
    "networkx node_connected_component / connected_components = reachability along edges "
    "(modelled by `reach`, proved = ReflTransGen; validated against networkx on every case); "
    "connected_components lists groups in order of their first node in insertion order",
    "networkx 3.x G.edges() tolerates edge removal during iteration (every edge is visited once)",
    "np.argmin returns the first index on ties",
    "np.exp >= 0 (population is an abstract non-negative input of the roughness model; the real "
    "populations are fed to the driver as oracle values)",
    "one transition state per unordered pair (C02) so get_ts_energy(i, ts) is the edge's own energy",
]
TRUSTED_EXTRA = ["oracle contracts: nx-components (= reachability), np.argmin first-on-ties, np.exp >= 0"]
PARTIAL = ("theorems are exact-arithmetic; binary64 rounding of the scan thresholds is observed by the "
           "correspondence only (exact on dyadic windows, tolerance elsewhere)")


def regenerate(ctx: Ctx) -> None:
    ctx.gen_status.update(graph_tr.regenerate())


# ----------------------------------------------------------------------------- networks


def build(spec: dict):
    """a REAL KineticTransitionNetwork from a spec {E, coords, ts=[(u, v, e, coords)]}"""
    from topsearch.data.kinetic_transition_network import KineticTransitionNetwork
    k = KineticTransitionNetwork()
    order = spec.get("file_order")
    if order and len(order) == len(spec["E"]) and len(spec["E"]) >= 1:
        # the same network read from files whose rows are not listed in index order (every row of min.data carries its own
        # index; a file sorted by energy or edited by hand is a legitimate input of read_network)
        import tempfile
        d = tempfile.mkdtemp(dir=".") + "/"
        dim = len(spec["coords"][0])
        with open(d + "min.data", "w") as f:
            f.writelines(f"{i} {float(spec['E'][i])!r}\n" for i in order)
        with open(d + "min.coords", "w") as f:
            f.writelines(" ".join(repr(float(x)) for x in spec["coords"][i]) + "\n" for i in order)
        with open(d + "ts.data", "w") as f:
            f.writelines(f"{int(u)} {int(v)} {float(e)!r}\n" for u, v, e, _ in spec["ts"])
        with open(d + "ts.coords", "w") as f:
            f.writelines(" ".join(repr(float(x)) for x in (list(c) + [0.0] * dim)[:dim]) + "\n" for _, _, _, c in spec["ts"])
        open(d + "pairlist", "w").close()
        import warnings
        with warnings.catch_warnings():
            warnings.simplefilter("ignore")
            k.read_network(text_path=d)
        import shutil
        shutil.rmtree(d, ignore_errors=True)
        return k
    if spec.get("scratch"):
        # a caller that assembles the network through ONE work array (a loop over a table, a walker's position updated in
        # place): what the network stores must not follow the array
        dim = len(spec["coords"][0]) if spec["coords"] else 1
        buf = np.zeros(dim)
        for c, e in zip(spec["coords"], spec["E"]):
            buf[:] = np.array(c, dtype=float)
            k.add_minimum(buf, float(e))
        for u, v, e, c in spec["ts"]:
            buf[:] = (list(c) + [0.0] * dim)[:dim]
            k.add_ts(buf, float(e), int(u), int(v))
        buf[:] = 9.75e8
        return k
    for i, (c, e) in enumerate(zip(spec["coords"], spec["E"])):
        if i == 0 and spec.get("int_first"):
            # a minimum typed by hand as integers (the origin, a lattice point): coordinates are coordinates
            k.add_minimum(np.array([int(round(x)) for x in c], dtype=np.int64), float(e))
        else:
            k.add_minimum(np.array(c, dtype=float), float(e))
    for u, v, e, c in spec["ts"]:
        k.add_ts(np.array(c, dtype=float), float(e), int(u), int(v))
    return k


def net_line(spec: dict) -> str:
    n = len(spec["E"])
    en = ",".join(frac(float(e)) for e in spec["E"]) if n else "-"
    es = ",".join(f"{u}:{v}:{frac(float(e))}" for u, v, e, _ in spec["ts"]) if spec["ts"] else "-"
    return f"net {n} {en} {es}"


def random_spec(rng, nmax: int = 12, grid: float = 0.125, span: int = 32, allow_below: bool = True,
                nmin: int = 1) -> dict:
    """random labelled graph: trees / cycles / several components / isolated minima / self-loops,
    degenerate energies; TS energies mostly above both minima, some below; all on a dyadic grid"""
    n = rng.randint(nmin, nmax)
    levels = rng.choice([2, 3, span])            # few levels -> many degenerate energies
    E = [rng.randrange(0, levels) * grid * (span // levels if levels < span else 1) for _ in range(n)]
    if rng.random() < 0.3:
        E = [e - 2.0 for e in E]
    style = rng.choice(["tree", "cyclic", "pieces", "sparse", "dense"])
    pairs = set()
    if n >= 2:
        if style in ("tree", "cyclic"):
            for v in range(1, n):
                pairs.add((rng.randrange(v), v))
            if style == "cyclic":
                for _ in range(rng.randint(1, n)):
                    a, b = rng.randrange(n), rng.randrange(n)
                    if a != b:
                        pairs.add((min(a, b), max(a, b)))
        elif style == "pieces":
            cut = sorted(rng.sample(range(1, n), min(n - 1, rng.randint(1, 3))))
            blocks, lo = [], 0
            for c in cut + [n]:
                blocks.append(list(range(lo, c))); lo = c
            for bl in blocks:
                for idx in range(1, len(bl)):
                    pairs.add((bl[rng.randrange(idx)], bl[idx]))
                if len(bl) > 2 and rng.random() < 0.5:
                    pairs.add((bl[0], bl[-1]))
        else:
            p = 0.15 if style == "sparse" else 0.5
            for a in range(n):
                for b in range(a + 1, n):
                    if rng.random() < p:
                        pairs.add((a, b))
    for a in range(n):
        if rng.random() < 0.12:
            pairs.add((a, a))
    perm = list(range(n))
    rng.shuffle(perm)                            # labels carry no structure
    edges = []
    for a, b in sorted(pairs):
        u, v = perm[a], perm[b]
        if rng.random() < 0.5:
            u, v = v, u
        top = max(E[u], E[v])
        r = rng.random()
        if allow_below and r < 0.12:
            e = min(E[u], E[v]) - rng.randrange(0, 6) * grid
        elif allow_below and r < 0.2:
            e = top                                # degenerate with its higher minimum
        else:
            e = top + rng.randrange(1, 3 * span) * grid * rng.choice([1, 1, 4])
        edges.append([u, v, e])
    rng.shuffle(edges)
    coords = [[rng.randrange(-8, 9) * 0.25, rng.randrange(-8, 9) * 0.25] for _ in range(n)]
    ts = []
    for u, v, e in edges:
        c = [0.5 * (coords[u][0] + coords[v][0]) + rng.randrange(-4, 5) * 0.125,
             0.5 * (coords[u][1] + coords[v][1]) + rng.randrange(-4, 5) * 0.125]
        ts.append([u, v, e, c])
    return {"E": E, "coords": coords, "ts": ts}


# independent reference algorithms (written from the definitions) -----------------------------


def ref_component(n: int, edges, start: int) -> set:
    seen, todo = {start}, [start]
    while todo:
        a = todo.pop()
        for u, v in edges:
            for x, y in ((u, v), (v, u)):
                if x == a and y not in seen:
                    seen.add(y); todo.append(y)
    return seen


def ref_minimax(n: int, ts, i: int, j: int):
    """lowest achievable highest TS on a path i..j: union-find over edges sorted by energy"""
    if i == j:
        return None
    parent = list(range(n))

    def find(a):
        while parent[a] != a:
            parent[a] = parent[parent[a]]
            a = parent[a]
        return a
    for u, v, e, *_ in sorted(ts, key=lambda t: t[2]):
        parent[find(u)] = find(v)
        if find(i) == find(j):
            return e
    return None


# ----------------------------------------------------------------------------- correspondence


def canon_hier(cg, levels: int) -> str:
    by_level: dict[int, list] = {}
    for node, d in cg.nodes(data=True):
        by_level.setdefault(d["level"], []).append((sorted(int(x) for x in d["members"]), node))
    out = []
    index_prev: dict = {}
    for lv in range(levels + 1):
        groups = sorted(by_level.get(lv, []))
        idx = {node: k for k, (_, node) in enumerate(groups)}
        parts = []
        for mem, node in groups:
            if lv == 0:
                par = "_"
            else:
                ps = [x for x in cg.neighbors(node) if cg.nodes[x]["level"] == lv - 1]
                par = str(index_prev[ps[0]]) if len(ps) == 1 else f"?{len(ps)}"
            parts.append(".".join(map(str, mem)) + ">" + par)
        out.append(";".join(parts))
        index_prev = idx
    return "|".join(out)


def pops_of(k, spec, lengthscale=0.8):
    from topsearch.analysis.roughness import get_population
    ps = []
    for u, v, _, _ in spec["ts"]:
        pu = float(get_population(k, u, v, lengthscale ** 2))
        pv = float(get_population(k, v, u, lengthscale ** 2))
        ps.append((pu, pv))
    return ps


def _exc(f):
    try:
        return f()
    except Exception as e:          # noqa: BLE001 - exceptions are mapped to their class name
        return f"raise:{type(e).__name__}"


def near_tie(thresholds, energies, tol=1e-9) -> bool:
    th = np.asarray(thresholds, dtype=float)
    for e in energies:
        if np.any(np.abs(th - e) <= tol * max(1.0, abs(e))):
            return True
    return False


def correspond(ctx: Ctx) -> None:
    from topsearch.analysis import graph_properties as gp, roughness
    from topsearch.plotting import disconnectivity as dc
    rng = ctx.rng
    lines = ["cfg gen"]
    expect: list = [("ok", None, None, None)]     # (impl answer, kind, spec, info)

    def add(line, ans, kind, spec, info=None):
        lines.append(line)
        expect.append((ans, kind, spec, info))

    specs = [
        {"E": [0.0], "coords": [[0.0, 0.0]], "ts": []},
        {"E": [0.0], "coords": [[0.0, 0.0]], "ts": [[0, 0, 1.0, [0.5, 0.5]]]},
        {"E": [1.0, 1.0], "coords": [[0.0, 0.0], [1.0, 0.0]], "ts": []},
        {"E": [1.0, 1.0, 0.5], "coords": [[0.0, 0.0], [1.0, 0.0], [2.0, 0.0]],
         "ts": [[1, 0, 2.0, [0.5, 0.0]], [2, 2, 0.25, [2.0, 0.5]]]},
        {"E": [], "coords": [], "ts": []},
    ]
    for _ in range(ctx.scale(70, 500)):
        specs.append(random_spec(rng, nmax=rng.choice([3, 6, 12])))
    for spec in specs:
        n = len(spec["E"])
        k = build(spec)
        add(net_line(spec), "ok", "net", spec)
        # unconnected component ------------------------------------------------------------
        add("unconn", _exc(lambda: _fmt(sorted(int(x) for x in gp.unconnected_component(k)))), "unconn", spec)
        if n == 0:
            add("rough", frac(float(roughness.roughness_metric(k))), "rough", spec)
            continue
        # connectivity and neighbours ------------------------------------------------------
        for _ in range(min(4, n)):
            i, j = rng.randrange(n), rng.randrange(n)
            add(f"conn {i} {j}", "1" if gp.are_nodes_connected(k, i, j) else "0", "conn", spec)
        i = rng.randrange(n)
        add(f"nbrs {i}", _fmt(sorted(int(x) for x in gp.get_connections(k, i))), "nbrs", spec,
            {"sorted": True})
        if rng.random() < 0.1:
            add(f"conn {n + 2} 0", _exc(lambda: str(gp.are_nodes_connected(k, n + 2, 0) and 1 or 0)),
                "conn-malformed", spec)
        # disconnected_height -----------------------------------------------------------------
        ts_e = [t[2] for t in spec["ts"]]
        top = max(ts_e) if ts_e else 1.0
        comp_pairs = [(a, b) for a in range(n) for b in range(n)
                      if a != b and gp.are_nodes_connected(k, a, b)]
        for _ in range(3):
            i, j = rng.randrange(n), rng.randrange(n)
            if comp_pairs and rng.random() < 0.85:
                i, j = rng.choice(comp_pairs)
            if rng.random() < 0.7:
                # exact window: delta dyadic, e_range = 510*delta, max_ts on the grid:
                # every threshold is a binary64 number and hits TS energies exactly
                delta = rng.choice([1 / 64, 1 / 16, 1 / 8, 1 / 8, 1 / 4, 1 / 4])
                e_range = 510 * delta
                max_ts = top + rng.choice([0, 0, 0.125, -0.25, 1.0, -2.0])
                mode = "exact"
            else:
                e_range = rng.choice([0.0, rng.uniform(0.1, 12.0)])
                max_ts = top + rng.choice([0.0137, -0.4211, 2.3])
                mode = "float"
            h = float(gp.disconnected_height(k, i, j, max_ts, e_range))
            step = e_range / 510
            ths = [(max_ts + 10 * step) - kk * step for kk in range(530)]
            info = {"mode": mode, "h": h, "i": i, "j": j, "max_ts": max_ts, "e_range": e_range}
            if mode == "float" and near_tie(ths, ts_e):
                ctx.stats.near_ties += 1
                continue
            add(f"height {i} {j} {frac(max_ts)} {frac(e_range)}", "none" if h == 1e10 else frac(h),
                "height", spec, info)
        if rng.random() < 0.1:
            add(f"height {n + 1} 0 1 1", _exc(lambda: str(gp.disconnected_height(k, n + 1, 0, 1.0, 1.0))),
                "height-malformed", spec)
        # hierarchy ----------------------------------------------------------------------------
        lo = min(spec["E"])
        for _ in range(2):
            if rng.random() < 0.7:
                levels = rng.choice([1, 2, 4, 8])
                start = top + rng.choice([0.0, 0.5, 1.0, -0.5])
                finish = lo - rng.choice([0.0, 0.5, 1.0, -1.0])
                mode = "exact"
            else:
                levels = rng.randint(1, 9)
                start = top + 0.05 * (top - lo) + 0.0123
                finish = lo - 0.1 * (top - lo)
                mode = "float"
            spacing = (start - finish) / levels
            ths = [start] + [start - (q * spacing) for q in range(1, levels + 1)]
            if mode == "float" and near_tie(ths, ts_e):
                ctx.stats.near_ties += 1
                continue
            cg = dc.get_connectivity_graph(k, start, finish, levels)
            add(f"hier {frac(start)} {frac(finish)} {levels}", canon_hier(cg, levels), "hier", spec,
                {"mode": mode, "start": start, "finish": finish, "levels": levels})
        if rng.random() < 0.1:
            add("hier 1 0 0", _exc(lambda: canon_hier(dc.get_connectivity_graph(k, 1.0, 0.0, 0), 0)),
                "hier-malformed", spec)
        # roughness ----------------------------------------------------------------------------
        ps = pops_of(k, spec)
        add("pops " + (",".join(f"{frac(a)}:{frac(b)}" for a, b in ps) if ps else "-"), "ok", "pops", spec)
        add("rough", float(roughness.roughness_metric(k)), "rough", spec)

    out = run_driver("Graph", lines)
    if len(out) != len(expect):
        ctx.diverge("graph-driver-length", f"driver answered {len(out)} lines for {len(expect)}", {})
        return
    for (ans, kind, spec, info), got, line in zip(expect, out, lines):
        if kind in (None, "net", "pops"):
            if got != ans:
                ctx.diverge(f"c18:{kind}", f"driver refused `{line}`: {got}", {"spec": spec, "line": line})
            continue
        if ans == "skip":
            continue
        nontrivial = bool(spec["ts"]) and got not in ("guard", "bad-op")
        same = True
        tag = kind
        if kind == "rough":
            model = float(Fraction(got)) if got not in ("guard", "bad-op") else None
            impl = float(Fraction(ans)) if isinstance(ans, str) else ans
            same = model is not None and abs(model - impl) <= 1e-9 * max(1.0, abs(impl))
            tag = "rough:zero" if impl == 0 else "rough:positive"
        elif kind == "height":
            if info["mode"] == "exact":
                same = got == ans
            else:
                same = (got == "none") == (ans == "none") and (
                    got == "none" or abs(float(Fraction(got)) - info["h"]) <= 1e-9 * max(1.0, abs(info["h"])))
            tag = f"height:{info['mode']}:" + ("sentinel" if ans == "none" else "found") + \
                  (":i=j" if info["i"] == info["j"] else "")
        elif isinstance(ans, str) and ans.startswith("raise:"):
            same = got == "guard"
            tag = kind + ":raises"
        else:
            if info and info.get("sorted") and got not in ("guard", "bad-op", "-"):
                got = _fmt(sorted(int(x) for x in got.split(",")))
            same = got == ans
            if kind == "unconn":
                tag = "unconn:" + ("all-connected" if ans == "-" else "some-unconnected")
            elif kind == "hier":
                tag = f"hier:{info['mode']}:levels={info['levels']}"
            elif kind == "conn":
                tag = "conn:" + ans
        ctx.stats.case({"call": line, "net": net_line(spec), "answer": got}, nontrivial)
        ctx.stats.branch(tag)
        if not same:
            ctx.diverge(f"c18:{kind}", f"`{line}` on {net_line(spec)}: implementation {ans} / model {got}",
                        {"spec": spec, "line": line, "impl": ans, "model": got, "info": info})


def _fmt(l) -> str:
    l = list(l)
    return ",".join(map(str, l)) if l else "-"


# ----------------------------------------------------------------------------- predicates


def pred_unconnected(spec) -> tuple | None:
    from topsearch.analysis import graph_properties as gp
    n = len(spec["E"])
    k = build(spec)
    got = {int(x) for x in gp.unconnected_component(k)}
    gmin = min(range(n), key=lambda i: (spec["E"][i], i))
    want = set(range(n)) - ref_component(n, [(t[0], t[1]) for t in spec["ts"]], gmin)
    if got != want:
        return ("unconnected_component:set", f"reported {sorted(got)}, complement of the global minimum's "
                f"component (minimum {gmin}) is {sorted(want)}", {"pred": "unconnected", "spec": spec})
    return None


def pred_height(spec, i, j, max_ts, e_range, stats=None) -> tuple | None:
    from topsearch.analysis import graph_properties as gp
    n = len(spec["E"])
    if i == j or e_range <= 0:
        return None
    m = ref_minimax(n, spec["ts"], i, j)
    if m is None:
        return None                                   # not connected: outside the clause
    k = build(spec)
    h = float(gp.disconnected_height(k, i, j, max_ts, e_range))
    step = e_range / 510
    e0 = max_ts + 10 * step
    e529 = e0 - 529 * step
    tol = 1e-9 * max(1.0, abs(m), abs(e0))
    inside = e529 + tol < m and (m <= e0 - tol or (m <= e0 and _dyadic(step) and _dyadic(max_ts)))
    if not inside:
        if stats is not None:
            stats.branch("pred-height:outside-window")
        return None
    if stats is not None:
        stats.branch("pred-height:inside-window")
    rep = {"pred": "height", "spec": spec, "i": i, "j": j, "max_ts": max_ts, "e_range": e_range}
    if h == 1e10:
        return ("disconnected_height:sentinel-inside-window", f"minimax {m} lies inside the scanned window "
                f"({e529}, {e0}] but the sentinel was returned", rep)
    if not (h < m and m - step - tol <= h):
        return ("disconnected_height:not-within-one-step", f"height {h} is not within one scan step "
                f"({step}) below the minimax value {m}", rep)
    return None


def _dyadic(x: float) -> bool:
    return Fraction(x).denominator <= 1 << 12


def pred_hierarchy(spec, start, finish, levels) -> tuple | None:
    from topsearch.plotting import disconnectivity as dc
    n = len(spec["E"])
    k = build(spec)
    edges_before = sorted((min(int(u), int(v)), max(int(u), int(v)), float(k.get_ts_energy(u, v))) for u, v in k.G.edges())
    cg = dc.get_connectivity_graph(k, start, finish, levels)
    rep = {"pred": "hierarchy", "spec": spec, "start": start, "finish": finish, "levels": levels}
    # the hierarchy is computed on a copy: the network handed in is the network the next analysis (another window,
    # unconnected_component, disconnected_height) works on
    edges_after = sorted((min(int(u), int(v)), max(int(u), int(v)), float(k.get_ts_energy(u, v))) for u, v in k.G.edges())
    if edges_after != edges_before or k.G.number_of_nodes() != n:
        return ("get_connectivity_graph:changes-the-network", f"window [{finish}, {start}] with {levels} levels: the network "
                f"handed in had {len(edges_before)} transition states and has {len(edges_after)} after the call, so every later "
                "analysis of it (connected components, disconnection heights, another window) is about a different landscape",
                rep)
    for lv in range(levels + 1):
        groups = [(node, {int(x) for x in d["members"]}) for node, d in cg.nodes(data=True) if d["level"] == lv]
        allm = sorted(x for _, g in groups for x in g)
        if allm != list(range(n)) or any(not g for _, g in groups):
            return ("get_connectivity_graph:not-a-partition", f"level {lv} does not partition the minima: "
                    f"{[sorted(g) for _, g in groups]}", rep)
        if lv > 0:
            for node, g in groups:
                ps = [x for x in cg.neighbors(node) if cg.nodes[x]["level"] == lv - 1]
                if len(ps) != 1 or not g <= {int(x) for x in cg.nodes[ps[0]]["members"]}:
                    return ("get_connectivity_graph:not-nested", f"level {lv} group {sorted(g)} is not "
                            f"contained in a single parent group", rep)
    if {d["level"] for _, d in cg.nodes(data=True)} - set(range(levels + 1)):
        return ("get_connectivity_graph:levels", "unexpected level numbers", rep)
    return None


def relabel(spec, perm) -> dict:
    n = len(spec["E"])
    E = [0.0] * n
    C = [None] * n
    for i in range(n):
        E[perm[i]] = spec["E"][i]
        C[perm[i]] = spec["coords"][i]
    return {"E": E, "coords": C, "ts": [[perm[u], perm[v], e, c] for u, v, e, c in spec["ts"]]}


def build_via_gate(spec: dict):
    """the same landscape registered the way the samplers register it: every transition state is offered to
    `StandardSimilarity.test_new_ts` together with the two minima it leads to (in the order of the list, so that a
    minimum may first be met through a self-connection), then every minimum through `test_new_minimum`.  Returns None
    when two stationary points of the spec would match each other (the gate is then right to merge them)."""
    from topsearch.data.coordinates import StandardCoordinates
    from topsearch.data.kinetic_transition_network import KineticTransitionNetwork
    from topsearch.similarity.similarity import StandardSimilarity
    E, X, ts = spec["E"], [np.array(c, dtype=float) for c in spec["coords"]], spec["ts"]
    if not X:
        return None
    dim = len(X[0])
    T = [np.array((list(c) + [0.0] * dim)[:dim], dtype=float) for _, _, _, c in ts]
    for pts in (X, T):
        for a in range(len(pts)):
            for b in range(a + 1, len(pts)):
                if float(np.linalg.norm(pts[a] - pts[b])) < 0.05:
                    return None
    if len({(min(int(u), int(v)), max(int(u), int(v))) for u, v, _, _ in ts}) != len(ts):
        return None                                    # a second transition state for a pair replaces the first
    lim = 10.0 + max([float(np.max(np.abs(p))) for p in X + T])
    coords = StandardCoordinates(ndim=dim, bounds=[(-lim, lim)] * dim)
    sim = StandardSimilarity(0.01, 1e-3)
    k = KineticTransitionNetwork()
    for (u, v, e, _c), t in zip(ts, T):
        coords.position = t.copy()
        sim.test_new_ts(k, coords, float(e), X[int(u)].copy(), float(E[int(u)]), X[int(v)].copy(), float(E[int(v)]))
    for x, e in zip(X, E):
        coords.position = x.copy()
        sim.test_new_minimum(k, coords, float(e))
    return k


def pred_roughness(spec, perm, shift, lam, order) -> tuple | None:
    from topsearch.analysis.roughness import roughness_metric
    n = len(spec["E"])
    if sorted(perm) != list(range(n)):
        perm = list(range(n))
    if sorted(order) != list(range(len(spec["ts"]))):
        order = list(range(len(spec["ts"])))
    r = float(roughness_metric(build(spec)))
    rep = {"pred": "roughness", "spec": spec, "perm": perm, "shift": shift, "lam": lam, "order": order}
    scale = max(1.0, abs(r), max((abs(t[2]) for t in spec["ts"]), default=0.0))
    # a landscape is what it is however it was registered: through the samplers' gate the same stationary points give
    # the same number of minima and the same roughness (numbering follows the order of discovery; the metric does not
    # depend on it)
    kg = build_via_gate(spec) if not (spec.get("file_order") or spec.get("scratch") or spec.get("int_first")) else None
    if kg is not None:
        touched = n
        if kg.n_minima != touched or kg.n_ts != len(spec["ts"]):
            return ("roughness_metric:landscape-through-gate", f"{n} distinct minima and {len(spec['ts'])} transition states "
                    f"registered through test_new_ts / test_new_minimum give a network of {kg.n_minima} minima and {kg.n_ts} "
                    "transition states", rep)
        rg = float(roughness_metric(kg))
        if abs(rg - r) > 1e-9 * scale:
            return ("roughness_metric:landscape-through-gate", f"roughness {r} of the landscape becomes {rg} when the same "
                    "stationary points are registered through test_new_ts / test_new_minimum", rep)
    if not r >= 0:
        return ("roughness_metric:negative", f"roughness {r} < 0", rep)
    if n < 2 and r != 0:
        return ("roughness_metric:nonzero-small", f"roughness {r} with {n} minima", rep)
    s2 = relabel(spec, perm)
    s2["ts"] = [s2["ts"][q] for q in order]
    r2 = float(roughness_metric(build(s2)))
    if abs(r2 - r) > 1e-9 * scale:
        return ("roughness_metric:renumbering", f"roughness {r} becomes {r2} after renumbering {perm}", rep)
    s3 = {"E": [e + shift for e in spec["E"]], "coords": spec["coords"],
          "ts": [[u, v, e + shift, c] for u, v, e, c in spec["ts"]]}
    r3 = float(roughness_metric(build(s3)))
    if abs(r3 - r) > 1e-9 * (scale + abs(shift)):
        return ("roughness_metric:shift", f"roughness {r} becomes {r3} after shifting energies by {shift}", rep)
    s4 = {"E": [e * lam for e in spec["E"]], "coords": spec["coords"],
          "ts": [[u, v, e * lam, c] for u, v, e, c in spec["ts"]]}
    r4 = float(roughness_metric(build(s4)))
    if abs(r4 - lam * r) > 1e-9 * scale * max(1.0, lam):
        return ("roughness_metric:scale", f"roughness {r} becomes {r4} after scaling energies by {lam} "
                f"(expected {lam * r})", rep)
    return None


def float_spec(rng, nmax=10) -> dict:
    """like random_spec but with generic (non-grid) energies; TS above their minima"""
    s = random_spec(rng, nmax=nmax, allow_below=False)
    n = len(s["E"])
    if rng.random() < 0.7:
        s["E"] = [e + rng.uniform(-0.05, 0.05) for e in s["E"]]
        s["ts"] = [[u, v, max(s["E"][u], s["E"][v]) + rng.uniform(0.01, 5.0), c] for u, v, e, c in s["ts"]]
        s["coords"] = [[rng.uniform(-2, 2), rng.uniform(-2, 2)] for _ in range(n)]
    return s


CORPUS = [
    # arg-min tie: minimum 1 ties with 0 and sits in another component (first index wins)
    ("unconnected", {"spec": {"E": [0.5, 0.5, 1.0], "coords": [[0, 0], [1, 0], [2, 0]],
                              "ts": [[1, 2, 2.0, [1.5, 0]]]}}),
    # threshold exactly on a TS energy: `>` keeps the edge one step longer than `>=`
    ("height", {"spec": {"E": [0.0, 1.0], "coords": [[0, 0], [1, 0]], "ts": [[0, 1, 2.0, [0.5, 0]]]},
                "i": 0, "j": 1, "max_ts": 2.0, "e_range": 510 / 64}),
    ("height", {"spec": {"E": [0.0, 1.0, 0.5], "coords": [[0, 0], [1, 0], [2, 0]],
                         "ts": [[0, 1, 2.0, [0.5, 0]], [1, 2, 10.0, [1.5, 0]]]},
                "i": 0, "j": 1, "max_ts": 10.0, "e_range": 10.0}),
    ("hierarchy", {"spec": {"E": [0.0, 1.0, 0.5, 0.25], "coords": [[0, 0], [1, 0], [2, 0], [3, 0]],
                            "ts": [[0, 1, 2.0, [0.5, 0]], [1, 2, 3.0, [1.5, 0]], [3, 3, 1.0, [3, 1]]]},
                   "start": 3.0, "finish": 0.0, "levels": 3}),
    # fewer than two minima: zero, also when the lone minimum carries a self-connection
    ("roughness", {"spec": {"E": [0.5], "coords": [[0, 0]], "ts": [[0, 0, 2.0, [0.5, 0.5]]]},
                   "perm": [0], "shift": 3.5, "lam": 2.5, "order": [0]}),
    ("roughness", {"spec": {"E": [0.5], "coords": [[0, 0]], "ts": []}, "perm": [0], "shift": 1.0, "lam": 2.0, "order": []}),
    ("roughness", {"spec": {"E": [0.0, 1.0, 0.5], "coords": [[0, 0], [1, 0], [2, 0]],
                            "ts": [[0, 1, 2.0, [0.5, 0]], [1, 2, 0.75, [1.5, 0]], [2, 2, 3.0, [2, 1]]]},
                   "perm": [2, 0, 1], "shift": 3.5, "lam": 2.5, "order": [2, 0, 1]}),
]


def shrink_spec(spec: dict, fails) -> dict:
    """greedy minimisation of a failing network: drop transition states, then unused
    highest-numbered minima, while `fails(spec)` keeps returning True"""
    def ok(s2):
        try:
            return bool(fails(s2))
        except Exception:      # noqa: BLE001 - a shrunk input outside the call's domain is not a witness
            return False
    changed = True
    while changed:
        changed = False
        for q in range(len(spec["ts"])):
            s2 = {**spec, "ts": spec["ts"][:q] + spec["ts"][q + 1:]}
            if ok(s2):
                spec, changed = s2, True
                break
        else:
            n = len(spec["E"])
            if n > 1 and all(n - 1 not in (t[0], t[1]) for t in spec["ts"]):
                s2 = {"E": spec["E"][:-1], "coords": spec["coords"][:-1], "ts": spec["ts"]}
                if spec.get("int_first"):
                    s2["int_first"] = True
                if spec.get("file_order"):
                    s2["file_order"] = [i for i in spec["file_order"] if i != n - 1]
                if ok(s2):
                    spec, changed = s2, True
    return spec


def shrunk(data: dict, r: tuple, runner) -> tuple:
    """re-run the failing predicate on a minimised network (same failure key)"""
    spec = shrink_spec(data["spec"], lambda s2: (runner({**data, "spec": s2}) or (None,))[0] == r[0])
    return runner({**data, "spec": spec}) or r


def run_pred(data: dict, stats=None) -> tuple | None:
    kind = data["pred"]
    spec = data["spec"]
    if kind == "unconnected":
        return pred_unconnected(spec)
    if kind == "height":
        return pred_height(spec, data["i"], data["j"], data["max_ts"], data["e_range"], stats)
    if kind == "hierarchy":
        return pred_hierarchy(spec, data["start"], data["finish"], data["levels"])
    if kind == "roughness":
        return pred_roughness(spec, data["perm"], data["shift"], data["lam"], data["order"])
    raise ValueError(kind)


def refused_read(ctx: Ctx) -> None:
    """the analyses on a network restored the way a restart script does it: the newest checkpoint is incomplete and
    refused, the older one is read into the same object — the component of the lowest minimum and the hierarchy must be
    those of the older checkpoint (minima left behind by the refused read would show up in both)"""
    from props import c06
    from topsearch.analysis import graph_properties as gp
    for i in range(ctx.scale(6, 30)):
        why, k, spec_b, rep = c06.failed_read_case(ctx.rng, missing=c06.TABLE_FILES[i % 5] if i < 5 else None, into_fresh=True)
        ctx.stats.case({"stream": "predicate-refused-read", "missing": rep["failed_read"]["missing"]}, True)
        if not why:
            # the analysis itself, against a flood fill written here
            n = spec_b["n"]
            adj = {i_: set() for i_ in range(n)}
            for u, v, _c, _e in spec_b["ts"]:
                adj[u].add(v); adj[v].add(u)
            en = [round(e, 5) for _c, e in spec_b["minima"]]
            if len(set(en)) == len(en):
                lowest = min(range(n), key=lambda q: en[q])
                seen, todo = {lowest}, [lowest]
                while todo:
                    a = todo.pop()
                    for b in adj[a]:
                        if b not in seen:
                            seen.add(b); todo.append(b)
                got = {int(x) for x in gp.unconnected_component(k)}
                if got != set(range(n)) - seen:
                    why = (f"unconnected_component on the restored network gives {sorted(got)}, the minima not connected to "
                           f"the lowest one are {sorted(set(range(n)) - seen)}")
        if why:
            ctx.fail("analyses:after-refused-read", why, rep)
            return


def predicates(ctx: Ctx) -> None:
    rng = ctx.rng
    refused_read(ctx)
    for kind, data in CORPUS:
        r = run_pred({"pred": kind, **data}, ctx.stats)
        ctx.stats.case({"stream": "predicate-corpus", "kind": kind}, True)
        if r:
            ctx.fail(*r)
    n = ctx.scale(60, 500) * (4 if getattr(ctx, "deep_search", False) else 1)
    for it in range(n):
        spec = float_spec(rng) if it % 2 else random_spec(rng, nmax=10)
        if it % 5 == 3 and all(len(t[3]) == len(spec["coords"][0]) for t in spec["ts"]):
            spec = dict(spec, scratch=True)
        if it % 3 == 2:
            # the zero of energy is arbitrary (total energies of order 1e4-1e5): every statement of C18 is about
            # energy differences, so the same landscape shifted by a constant must behave the same
            off = rng.choice([-7400.0, 52000.0, 3.0e5, -2.5e6])
            spec = {"E": [e + off for e in spec["E"]], "coords": spec["coords"],
                    "ts": [[u, v, e + off, c] for u, v, e, c in spec["ts"]]}
        if it % 4 == 1 and len(spec["E"]) >= 2:
            perm = list(range(len(spec["E"])))
            rng.shuffle(perm)
            spec = dict(spec, file_order=perm)
        nn = len(spec["E"])
        ts_e = [t[2] for t in spec["ts"]]
        top = max(ts_e) if ts_e else 1.0
        lo = min(spec["E"])
        todo = [{"pred": "unconnected", "spec": spec}]
        for _ in range(3):
            i, j = rng.randrange(nn), rng.randrange(nn)
            if rng.random() < 0.5:
                e_range, max_ts = max(spec["E"]) - lo, top           # the window batch selection used
            elif rng.random() < 0.5:
                e_range, max_ts = max(top, max(spec["E"])) - lo, top  # the window it uses now
            else:
                e_range, max_ts = rng.choice([510 / 64, 510 / 16, rng.uniform(0.5, 20)]), top + rng.choice([0, 0.25, -1.0])
            todo.append({"pred": "height", "spec": spec, "i": i, "j": j, "max_ts": max_ts, "e_range": e_range})
        levels = rng.randint(1, 12)
        if rng.random() < 0.5:
            start, finish = top + 0.05 * (top - lo), lo - 0.1 * (top - lo)
        else:
            start, finish = top + rng.uniform(-1, 1), lo + rng.uniform(-1, 1)
        todo.append({"pred": "hierarchy", "spec": spec, "start": start, "finish": finish, "levels": levels})
        perm = list(range(nn)); rng.shuffle(perm)
        order = list(range(len(spec["ts"]))); rng.shuffle(order)
        todo.append({"pred": "roughness", "spec": spec, "perm": perm, "shift": rng.choice([0.5, -3.25, 7.0]),
                     "lam": rng.choice([0.5, 2.0, 3.0, 0.125]), "order": order})
        for d in todo:
            r = run_pred(d, ctx.stats)
            ctx.stats.case({"stream": "predicate", "kind": d["pred"], "n": nn, "ts": len(spec["ts"])}, True)
            if r:
                if not any(f.key == r[0] for f in ctx.failures):
                    r = shrunk(d, r, run_pred)
                ctx.fail(*r)


def replay(ctx: Ctx, data: dict) -> bool:
    if "failed_read" in data:
        from props import c06
        return c06.replay(ctx, data)
    if data.get("pred") not in ("unconnected", "height", "hierarchy", "roughness") or "spec" not in data:
        # a model/implementation divergence or a broken obligation: re-run the whole check
        print("  (not a property-failure replay; run ./check C18)")
        return True
    r = run_pred(data)
    if r:
        print(f"  {r[0]}: {r[1]}")
    return r is None
