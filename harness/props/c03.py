"""C03 — each distinct stationary point is stored exactly once.

Tie #1: translate.similarity reads the comparison operators / boolean structure / constants of
`StandardSimilarity.test_same` (both modes), the statement order of `test_new_ts` and the None
filters of exploration.py into Gen/Similarity.lean (bridge lemmas `C03_bridge_*`).
Tie #2: the real StandardSimilarity + KineticTransitionNetwork against Model/Merge through
Drivers/Merge.lean after *every* offer: streams of test_new_minimum / test_new_ts / add_network
on a dyadic grid (binary64 arithmetic exact) with exact repeats, near-repeats on both sides of
each criterion and exactly-at-criterion points (3-4-5 triangles scaled by powers of two), both
distance modes; a second family on generic floats where decisions with an exact-arithmetic margin
below 1e-9 are skipped; atomic systems through the real MolecularSimilarity.test_same whose
answers are passed to the model as oracle answers.
"""
from __future__ import annotations

import copy
import itertools
import math
from fractions import Fraction

import numpy as np

from common import Ctx, frac, run_driver
from translate import ktn_cfg, similarity as sim_tr

PROP = "C03"
LEAN_MODULE = "TopSearch.Props.C03Order"
LEAN_FILES = ["TopSearch.Props.C03", "TopSearch.Props.C03Order", "TopSearch.Lemmas.Merge", "TopSearch.Model.Merge"]
EXTRA_TARGETS = ["TopSearch.Model.Merge", "TopSearch.Gen.Ktn", "TopSearch.Gen.Similarity",
                 "TopSearch.Drv.Util"]
_P = "TopSearch.Props.C03."
REQUIRED = [_P + n for n in [
    "C03_same_symm", "C03_same_refl", "C03_zero_criterion_never_matches",
    "C03_abs_iff", "C03_prop_iff", "C03_abs_at_criterion_not_same", "C03_prop_at_criterion_same",
    "C03_energy_at_criterion_not_same", "C03_sqrt_contract", "C03_testSameSqrt_eq",
    "C03_bridge_abs", "C03_bridge_prop", "C03_bridge_propTerm", "C03_bridge_norm",
    "C03_bridge_steps", "C03_bridge_counter",
    "C03_match_adds_nothing", "C03_new_minimum_is_stored", "C03_new_ts_is_stored",
    "C03_gate_stream", "C03_gate_stream_from_empty", "C03_minima_stream_any_relation",
    "C03_offered_minimum_represented", "C03_ts_minima_represented", "C03_standard_similarity",
    "C03_both_lookups_first_stores_twice", "C03_symmetry_needed",
]] + ["TopSearch.Props.C03Order." + n for n in
      ("reps_length_le", "representatives_same_size", "order_matters_without_transitivity", "fold_nodes_subset",
       "stored_count_order_independent")]
RULE = ("cases = (network state, offer) transitions compared model-vs-implementation after the offer "
        "(test_new_minimum / test_new_ts / add_network / direct test_same and is_new_* queries); a case is "
        "non-trivial when the network is non-empty, i.e. the offer is decided by at least one comparison; "
        "distinct = distinct (mode, canonical state after, offer) triples")
ASSUMPTIONS = [
    "sqrt contract: np.linalg.norm returns r >= 0 with r*r = sum of squares (theorem C03_sqrt_contract "
    "turns `r < c` into `0 <= c and s < c*c`); exact on the dyadic inputs of the correspondence",
    "the atomic / molecular match relation (MolecularSimilarity.test_same) is symmetric and reflexive: "
    "ASSUMED in C03_gate_stream (hypothesis hsym / hrefl), sampled at run time (oracle_contracts)",
    "networkx Graph semantics as in C02 (add_edge on an existing pair replaces its attributes); "
    "iteration order of other.G.edges() in add_network is an input of the model",
]
PARTIAL = ("symmetry / reflexivity of the atomic relation depend on the randomised alignment heuristic "
           "(C11): assumed in the theorems, sampled at run time; IEEE rounding observed, not proved")
TRUSTED_EXTRA = ["MolecularSimilarity.test_same enters the model as an oracle (its answers are inputs)"]


def regenerate(ctx: Ctx) -> None:
    ctx.gen_status.update(ktn_cfg.regenerate(["add_minimum", "add_ts", "__init__", "reset_network"]))
    ctx.gen_status.update(sim_tr.regenerate())
    from translate import transcripts as _tr
    ctx.gen_status.update(_tr.constructor_wiring(['StandardSimilarity', 'MolecularSimilarity']))


# ----------------------------------------------------------------------------- shared machinery


class Spec:
    """one configuration of StandardSimilarity + the coordinate box"""

    def __init__(self, kind: str, dc: float, ec: float, bounds: list[tuple[float, float]], ebase: float = 0.0):
        self.kind, self.dc, self.ec, self.bounds = kind, float(dc), float(ec), [(float(a), float(b)) for a, b in bounds]
        self.dim = len(bounds)
        self.ebase = float(ebase)       # where the zero of energy sits (the criterion is an absolute difference)

    def mode_line(self) -> str:
        if self.kind == "abs":
            return f"mode abs {frac(self.dc)} {frac(self.ec)}"
        los = ",".join(frac(a) for a, _ in self.bounds)
        his = ",".join(frac(b) for _, b in self.bounds)
        return f"mode prop {frac(self.dc)} {frac(self.ec)} {los} {his}"

    def make(self):
        from topsearch.data.coordinates import StandardCoordinates
        from topsearch.similarity.similarity import StandardSimilarity
        coords = StandardCoordinates(ndim=self.dim, bounds=list(self.bounds))
        sim = StandardSimilarity(self.dc, self.ec, proportional_distance=(self.kind == "prop"))
        return sim, coords

    def criterion(self, p, q) -> bool:
        """the stated criterion evaluated independently in exact rational arithmetic"""
        (c1, e1), (c2, e2) = p, q
        de = abs(Fraction(float(e1)) - Fraction(float(e2)))
        if self.kind == "abs":
            s = sum((Fraction(float(x)) - Fraction(float(y))) ** 2 for x, y in zip(c1, c2))
            return s < Fraction(self.dc) ** 2 and Fraction(self.dc) > 0 and de < Fraction(self.ec)
        s = sum(((Fraction(float(x)) - Fraction(float(y))) / ((Fraction(b) - Fraction(a)) * Fraction(self.dc))) ** 2
                for x, y, (a, b) in zip(c1, c2, self.bounds))
        return s <= 1 and de < Fraction(self.ec)

    def other_box(self, rng) -> "Spec":
        """same criteria, same dimension, a differently shaped box (dyadic factors)"""
        return Spec(self.kind, self.dc, self.ec,
                    [(a * f, b * f) for (a, b), f in ((bb, rng.choice([0.25, 0.5, 2.0, 4.0, 16.0])) for bb in self.bounds)],
                    self.ebase)

    def allowed(self) -> list[float]:
        return [(b - a) * self.dc for a, b in self.bounds]

    def as_dict(self) -> dict:
        return {"kind": self.kind, "dc": self.dc, "ec": self.ec, "bounds": self.bounds, "ebase": self.ebase}

    @staticmethod
    def from_dict(d: dict) -> "Spec":
        return Spec(d["kind"], d["dc"], d["ec"], [tuple(b) for b in d["bounds"]], d.get("ebase", 0.0))

    def exact_margin(self, p, q) -> float:
        """smallest relative distance of a comparison of test_same(p, q) from its threshold, in
        exact rational arithmetic (0 = exactly at a criterion)"""
        (c1, e1), (c2, e2) = p, q
        if self.kind == "abs":
            s = sum((Fraction(float(x)) - Fraction(float(y))) ** 2 for x, y in zip(c1, c2))
            thr = Fraction(self.dc) ** 2
        else:
            s = sum(((Fraction(float(x)) - Fraction(float(y))) / ((Fraction(b) - Fraction(a)) * Fraction(self.dc))) ** 2
                    for x, y, (a, b) in zip(c1, c2, self.bounds))
            thr = Fraction(1)
        m1 = abs(s - thr) / thr
        de = abs(Fraction(float(e1)) - Fraction(float(e2)))
        m2 = abs(de - Fraction(self.ec)) / Fraction(self.ec)
        return float(min(m1, m2))


SETUP_OPS = {"mode", "new", "pt", "onew", "omin", "ots", "ohist", "oracle", "addmin", "addts", "hist",
             "script", "scriptclear"}


class Batch:
    """lines for one driver run, each with what the implementation said"""

    def __init__(self, driver: str = "Merge"):
        self.driver = driver
        self.lines: list[str] = []
        self.exp: list[tuple[str | None, dict | None]] = []

    def send(self, line: str, expect: str | None = None, meta: dict | None = None) -> None:
        self.lines.append(line)
        self.exp.append((expect, meta))

    def run(self, ctx: Ctx) -> None:
        if not self.lines:
            return
        out = run_driver(self.driver, self.lines)
        if len(out) != len(self.lines):
            ctx.diverge("merge-driver-length", f"driver answered {len(out)} lines for {len(self.lines)}", {})
            return
        dead: set = set()
        for line, (expect, meta), got in zip(self.lines, self.exp, out):
            if expect is None:
                continue
            meta = meta or {}
            sid = meta.get("stream")
            if sid in dead:
                continue
            op = line.split(" ")[0]
            nontrivial = bool(meta.get("nontrivial", True)) and got not in ("guard", "bad-op")
            if op in SETUP_OPS:
                if got != expect:
                    dead.add(sid)
                    ctx.diverge(f"{meta.get('label', '?')}:setup:{op}",
                                f"set-up line `{line}`: implementation {expect} / model {got}", {"line": line})
                continue
            ctx.stats.case({"stream": meta.get("label", "?"), "mode": meta.get("mode", ""), "op": line,
                            "answer": got}, nontrivial)
            ctx.stats.branch(f"{meta.get('label', '?')}:{op}" + (":" + meta["tag"] if meta.get("tag") else ""))
            if got != expect:
                dead.add(sid)           # later states of this stream would only repeat the difference
                ctx.diverge(f"{meta.get('label', '?')}:{op}",
                            f"after `{line}`: implementation {expect} / model {got}",
                            {"replay_ops": meta.get("replay"), "impl": expect, "model": got, "line": line})


class Impl:
    """Drives the real classes for one stream; payloads identified bit-for-bit by a token table."""

    def __init__(self, spec: Spec, batch: Batch | None, meta: dict, sim=None):
        from topsearch.data.kinetic_transition_network import KineticTransitionNetwork
        self.spec = spec
        self.batch = batch
        self.meta = dict(meta)
        self.meta["mode"] = spec.kind
        self.sim, self.coords = spec.make()
        if sim is not None:
            # the SAME similarity object as an earlier stream (same criteria), now used with another
            # box: nothing about the earlier landscape may leak into this one
            self.sim = sim
        self.ktn = KineticTransitionNetwork()
        self.tok: dict[bytes, str] = {}
        self.sent: set = set()
        self.ops_done: list = []
        if batch is not None:
            batch.send(spec.mode_line(), "ok", {**self.meta, "nontrivial": False})
            batch.send("new", "ok", {**self.meta, "nontrivial": False})

    # -- payloads
    def t(self, p) -> str:
        c, e = p
        c = np.asarray(c, dtype=float)
        key = c.tobytes() + np.float64(e).tobytes()
        if key not in self.tok:
            self.tok[key] = f"p{len(self.tok)}"
        if self.batch is not None and key not in self.sent:      # registered with the model on first use
            self.sent.add(key)
            self.batch.send(f"pt {self.tok[key]} {frac(float(e))} " + ",".join(frac(float(x)) for x in c),
                            "ok", {**self.meta, "nontrivial": False})
        return self.tok[key]

    def token_of(self, coords, energy) -> str:
        return self.tok.get(np.asarray(coords, dtype=float).tobytes() + np.float64(energy).tobytes(), "?")

    def state(self, k=None) -> str:
        k = k or self.ktn
        nodes = []
        for lab in k.G.nodes:
            d = k.G.nodes[lab]
            nodes.append(f"{int(lab) if lab is not None else '!'}:"
                         f"{self.token_of(d.get('coords'), d.get('energy')) if 'coords' in d else '!'}")
        es = []
        for u, v in k.G.edges():
            d = k.G[u][v]
            es.append((min(int(u), int(v)), max(int(u), int(v)), self.token_of(d['coords'], d['energy'])))
        es.sort()
        edges = [f"{a}:{b}:{t}" for a, b, t in es]
        pl = [f"{int(a)}:{int(b)}" for a, b in np.asarray(k.pairlist).reshape(-1, 2)]
        sl = lambda l: ",".join(l) if l else "-"
        return f"n={k.n_minima} ts={k.n_ts} nodes={sl(nodes)} edges={sl(edges)} pl={sl(pl)}"

    def _send(self, line: str, expect: str, tag: str = "") -> None:
        if self.batch is not None:
            self.batch.send(line, expect, {**self.meta, "tag": tag, "nontrivial": self.ktn.n_minima > 0,
                                           "replay": {"spec": self.spec.as_dict(), "ops": list(self.ops_done)}})

    # -- operations (each applies the op to the real code and emits the model line)
    def offer_min(self, p, tag="") -> None:
        self.ops_done.append(["min", _plain(p)])
        t = self.t(p)
        self.coords.position = np.array(p[0], dtype=float)
        self.sim.test_new_minimum(self.ktn, self.coords, float(p[1]))
        self.coords.position += 12345.678          # the caller goes on using its work array (the library's own moves do)
        self._send(f"min {t}", self.state(), tag)

    def offer_ts(self, ts, plus, minus, tag="") -> None:
        self.ops_done.append(["ts", _plain(ts), _plain(plus), _plain(minus)])
        a, b, c = self.t(ts), self.t(plus), self.t(minus)
        self.coords.position = np.array(ts[0], dtype=float)
        pa, ma = np.array(plus[0], dtype=float), np.array(minus[0], dtype=float)
        self.sim.test_new_ts(self.ktn, self.coords, float(ts[1]), pa, float(plus[1]), ma, float(minus[1]))
        for arr in (self.coords.position, pa, ma):  # the caller goes on using its work arrays
            arr += 12345.678
        self._send(f"ts {a} {b} {c}", self.state(), tag)

    def build_other(self, mins, tss, hist):
        """a second network built with the raw store operations (not through the gate)"""
        from topsearch.data.kinetic_transition_network import KineticTransitionNetwork
        other = KineticTransitionNetwork()
        if self.batch is not None:
            self.batch.send("onew", "ok", {**self.meta, "nontrivial": False})
        for p in mins:
            other.add_minimum(np.array(p[0], dtype=float), float(p[1]))
            if self.batch is not None:
                self.batch.send(f"omin {self.t(p)}", self.state(other), {**self.meta, "nontrivial": False})
        for p, u, v in tss:
            other.add_ts(np.array(p[0], dtype=float), float(p[1]), u, v)
            if self.batch is not None:
                self.batch.send(f"ots {self.t(p)} {u} {v}", self.state(other), {**self.meta, "nontrivial": False})
        other.pairlist = np.array(hist, dtype=int).reshape(-1, 2)
        if self.batch is not None:
            self.batch.send("ohist " + (",".join(f"{a}:{b}" for a, b in hist) if hist else "-"),
                            self.state(other), {**self.meta, "nontrivial": False})
        return other

    def offer_network(self, mins, tss, hist, tag="") -> None:
        self.ops_done.append(["addnet", [_plain(p) for p in mins], [[_plain(p), u, v] for p, u, v in tss],
                              [list(h) for h in hist]])
        other = self.build_other(mins, tss, hist)
        order = [(int(u), int(v)) for u, v in other.G.edges()]
        self.ktn.add_network(other, self.sim, self.coords)
        self._send("addnet " + (",".join(f"{u}:{v}" for u, v in order) if order else "-"), self.state(), tag)

    def query_same(self, p, q, tag="") -> None:
        a, b = self.t(p), self.t(q)
        self.coords.position = np.array(p[0], dtype=float)
        r = self.sim.test_same(self.coords, np.array(q[0], dtype=float), float(p[1]), float(q[1]))
        if self.batch is not None:
            self.batch.send(f"same {a} {b}", "1" if r else "0",
                            {**self.meta, "tag": tag, "replay": {"spec": self.spec.as_dict(),
                                                                 "same": [_plain(p), _plain(q)]}})

    def query_isnew(self, p, tag="") -> None:
        t = self.t(p)
        self.coords.position = np.array(p[0], dtype=float)
        new, idx = self.sim.is_new_minimum(self.ktn, self.coords, float(p[1]))
        self._send(f"isnewmin {t}", "none" if new else str(int(idx)), tag)
        self.coords.position = np.array(p[0], dtype=float)
        r = self.sim.is_new_ts(self.ktn, self.coords, float(p[1]))[0]
        self._send(f"isnewts {t}", "1" if r else "0", tag)


def _plain(p):
    return [[float(x) for x in p[0]], float(p[1])]


def _pt(p):
    return (np.array(p[0], dtype=float), float(p[1]))


# ----------------------------------------------------------------------------- generators

GRID = 1.0 / 16
EPS = 1.0 / 256


def dyadic_specs() -> list[Spec]:
    out = []
    for dim in (1, 2, 3):
        for k in (2, 3):
            out.append(Spec("abs", 5.0 / 2 ** k, 1.0 / 2 ** (k - 1), [(-4.0, 4.0)] * dim))
    out.append(Spec("prop", 1.0 / 8, 0.25, [(-4.0, 4.0)]))
    out.append(Spec("prop", 1.0 / 16, 0.5, [(-4.0, 4.0), (-1.0, 1.0)]))
    out.append(Spec("prop", 1.0 / 8, 0.25, [(-2.0, 2.0), (0.0, 8.0), (-8.0, 8.0)]))
    # the same criteria with the zero of energy far away (total energies of order 1e5; dyadic, so still exact)
    out.append(Spec("abs", 5.0 / 4, 0.5, [(-4.0, 4.0)] * 2, ebase=-131072.0))
    out.append(Spec("prop", 1.0 / 8, 0.25, [(-4.0, 4.0), (-1.0, 1.0)], ebase=262144.0))
    return out


def offsets(spec: Spec, rng) -> list[tuple[str, np.ndarray]]:
    """coordinate offsets relative to a stored point: inside / exactly at / outside the distance
    criterion (all dyadic, so the float decisions are exact)"""
    d = spec.dim
    out: list[tuple[str, np.ndarray]] = [("exact", np.zeros(d))]
    if spec.kind == "abs":
        u = spec.dc / 5.0
        if d == 1:
            base = [np.array([spec.dc])]
        else:
            base = []
            for i, j in itertools.permutations(range(d), 2):
                v = np.zeros(d); v[i] = 3 * u; v[j] = 4 * u
                base.append(v)
            v = np.zeros(d); v[0] = spec.dc
            base.append(v)
        for v in base:
            sg = np.array([rng.choice((-1.0, 1.0)) for _ in range(d)])
            v = v * sg
            nz = [i for i in range(d) if v[i] != 0]
            i = rng.choice(nz)
            shrink = v.copy(); shrink[i] -= math.copysign(EPS, v[i])
            grow = v.copy(); grow[i] += math.copysign(EPS, v[i])
            out += [("at", v), ("in", shrink), ("out", grow)]
    else:
        al = spec.allowed()
        for i in range(d):
            v = np.zeros(d); v[i] = al[i] * rng.choice((-1.0, 1.0))
            shrink = v.copy(); shrink[i] -= math.copysign(EPS, v[i])
            grow = v.copy(); grow[i] += math.copysign(EPS, v[i])
            out += [("at", v), ("in", shrink), ("out", grow)]
        if d >= 2:
            for fr, tag in (((0.5, 0.5), "in"), ((0.75, 0.75), "out"), ((0.75, 0.625), "in"),
                            ((0.75, 0.6875), "out")):
                i, j = rng.sample(range(d), 2)
                v = np.zeros(d); v[i] = al[i] * fr[0]; v[j] = -al[j] * fr[1]
                out.append((tag, v))
    return out


def energy_offsets(spec: Spec) -> list[tuple[str, float]]:
    ec = spec.ec
    return [("e-exact", 0.0), ("e-in", ec - EPS), ("e-in", -(ec - EPS)), ("e-at", ec), ("e-at", -ec),
            ("e-out", ec + EPS), ("e-out", -(ec + EPS))]


def grid_point(spec: Spec, rng):
    c = np.array([rng.randrange(-32, 33) * GRID for _ in range(spec.dim)])
    e = spec.ebase + rng.randrange(-64, 65) * GRID / 2
    return (c, e)


def candidate(spec: Spec, rng, seen: list) -> tuple[tuple, str]:
    """fresh point, exact repeat or near-repeat of a point offered before"""
    r = rng.random()
    if not seen or r < 0.22:
        return grid_point(spec, rng), "fresh"
    q = rng.choice(seen)
    if r < 0.34:
        return (q[0].copy(), q[1]), "repeat"
    tag, off = rng.choice(offsets(spec, rng))
    if rng.random() < 0.6:
        etag, eo = "e-exact", 0.0
    else:
        etag, eo = rng.choice(energy_offsets(spec))
    return (q[0] + off, q[1] + eo), f"{tag}/{etag}"


def gen_stream(spec: Spec, rng, length: int, with_merge: bool = True) -> list:
    """a list of abstract ops on payloads: ("min", p) | ("ts", t, p, m) | ("addnet", mins, tss, hist)
    | ("same", p, q) | ("isnew", p)"""
    seen: list = []
    ops: list = []
    for _ in range(length):
        r = rng.random()
        if r < 0.45:
            p, tag = candidate(spec, rng, seen)
            ops.append(("min", p, tag)); seen.append(p)
        elif r < 0.80:
            t, tt = candidate(spec, rng, seen)
            p, tp = candidate(spec, rng, seen)
            x = rng.random()
            if x < 0.2:
                m, tm = (p[0].copy(), p[1]), "minus=plus"          # both sides reach the same minimum
            elif x < 0.35:
                tag, off = rng.choice(offsets(spec, rng))
                m, tm = (p[0] + off, p[1]), "minus~plus:" + tag     # the two sides nearly coincide
            else:
                m, tm = candidate(spec, rng, seen + [p])
            ops.append(("ts", t, p, m, f"{tt}|{tp}|{tm}")); seen += [t, p, m]
        elif r < 0.86 and with_merge:
            n = rng.randrange(0, 5)
            mins = []
            for _ in range(n):
                p, _ = candidate(spec, rng, seen + mins)
                mins.append(p)
            tss = []
            if n:
                for _ in range(rng.randrange(0, 4)):
                    t, _ = candidate(spec, rng, seen)
                    tss.append((t, rng.randrange(n), rng.randrange(n)))
            hist = [(rng.randrange(n), rng.randrange(n)) for _ in range(rng.randrange(0, 3))] if n else []
            ops.append(("addnet", mins, tss, hist, f"n{n}")); seen += mins + [t for t, _, _ in tss]
        elif r < 0.94:
            p, tp = candidate(spec, rng, seen)
            q = rng.choice(seen) if seen else grid_point(spec, rng)
            ops.append(("same", p, q, tp))
        else:
            p, tp = candidate(spec, rng, seen)
            ops.append(("isnew", p, tp))
    return ops


def apply_op(impl: Impl, op) -> None:
    k = op[0]
    if k == "min":
        impl.offer_min(op[1], op[2] if len(op) > 2 else "")
    elif k == "ts":
        impl.offer_ts(op[1], op[2], op[3], op[4] if len(op) > 4 else "")
    elif k == "addnet":
        impl.offer_network(op[1], op[2], op[3], op[4] if len(op) > 4 else "")
    elif k == "same":
        impl.query_same(op[1], op[2], op[3] if len(op) > 3 else "")
        impl.query_same(op[2], op[1], "swapped")
    elif k == "isnew":
        impl.query_isnew(op[1], op[2] if len(op) > 2 else "")


def near_tie(spec: Spec, impl: Impl, op, thr: float = 1e-9) -> bool:
    """would any comparison this op can trigger be within `thr` of a criterion?"""
    stored_min = [(impl.ktn.get_minimum_coords(i), impl.ktn.get_minimum_energy(i)) for i in range(impl.ktn.n_minima)]
    stored_ts = [(impl.ktn.G[u][v]['coords'], impl.ktn.G[u][v]['energy']) for u, v in impl.ktn.G.edges()]
    def close(p, pool):
        return any(spec.exact_margin(p, q) < thr for q in pool)
    k = op[0]
    if k == "min":
        return close(op[1], stored_min)
    if k == "ts":
        return close(op[1], stored_ts) or close(op[2], stored_min) or close(op[3], stored_min + [op[2]])
    if k == "same":
        return spec.exact_margin(op[1], op[2]) < thr
    if k == "isnew":
        return close(op[1], stored_min) or close(op[1], stored_ts)
    return True


# ----------------------------------------------------------------------------- atomic systems


def random_cluster(rs, labels):
    n = len(labels)
    while True:
        pos = rs.uniform(-1.6, 1.6, size=(n, 3))
        d = np.linalg.norm(pos[:, None] - pos[None], axis=-1)[np.triu_indices(n, 1)]
        if d.min() > 0.7:
            return pos


def sorted_dists(pos):
    n = len(pos)
    return np.sort(np.linalg.norm(pos[:, None] - pos[None], axis=-1)[np.triu_indices(n, 1)])


def rigid_copy(rs, pos, labels):
    """rotated, translated, like-atom-permuted copy"""
    from scipy.spatial.transform import Rotation
    R = Rotation.random(random_state=rs.randint(1 << 30)).as_matrix()
    out = pos @ R.T + rs.uniform(-2, 2, size=3)
    perm = np.arange(len(labels))
    for el in set(labels):
        idx = [i for i, l in enumerate(labels) if l == el]
        sh = list(idx)
        rs.shuffle(sh)
        perm[idx] = sh
    return out[perm]


class AtomicImpl:
    """MolecularSimilarity + AtomicCoordinates; payloads carry a unique energy (identification),
    every answer of the real test_same is logged and handed to the model as an oracle answer."""

    DC, EC = 0.01, 0.05

    def __init__(self, labels, batch: Batch | None, meta: dict):
        from topsearch.data.coordinates import AtomicCoordinates
        from topsearch.data.kinetic_transition_network import KineticTransitionNetwork
        from topsearch.similarity.molecular_similarity import MolecularSimilarity
        self.labels = labels
        self.batch, self.meta = batch, {**meta, "mode": "oracle"}
        self.ktn = KineticTransitionNetwork()
        self.sim = MolecularSimilarity(self.DC, self.EC)
        self.coords = AtomicCoordinates(labels, np.zeros(3 * len(labels)))
        self.by_energy: dict[bytes, str] = {}
        self.offered: dict[str, np.ndarray] = {}
        self.log: list[tuple[str, str, bool]] = []
        self.cache: dict[tuple[str, str], bool] = {}
        real = self.sim.test_same
        def logged(coords1, coords2, energy1, energy2):
            a = self.by_energy.get(np.float64(energy1).tobytes(), "?")
            b = self.by_energy.get(np.float64(energy2).tobytes(), "?")
            if (a, b) in self.cache:          # a consistent relation: the first answer stands
                return self.cache[(a, b)]
            r = real(coords1, coords2, energy1, energy2)
            self.cache[(a, b)] = r
            self.log.append((a, b, r))
            return r
        self.sim.test_same = logged
        if batch is not None:
            batch.send("mode oracle", "ok", {**self.meta, "nontrivial": False})
            batch.send("new", "ok", {**self.meta, "nontrivial": False})

    def t(self, pos, e) -> str:
        key = np.float64(e).tobytes()
        if key not in self.by_energy:
            self.by_energy[key] = f"a{len(self.by_energy)}"
            self.offered[self.by_energy[key]] = np.array(pos, dtype=float)
            if self.batch is not None:
                self.batch.send(f"pt {self.by_energy[key]} 0 0", "ok", {**self.meta, "nontrivial": False})
        return self.by_energy[key]

    def state(self) -> str:
        k = self.ktn
        nodes = [f"{int(l)}:{self.by_energy.get(np.float64(k.G.nodes[l]['energy']).tobytes(), '?')}" for l in k.G.nodes]
        es = sorted((min(int(u), int(v)), max(int(u), int(v)),
                     self.by_energy.get(np.float64(k.G[u][v]['energy']).tobytes(), '?')) for u, v in k.G.edges())
        sl = lambda l: ",".join(l) if l else "-"
        return (f"n={k.n_minima} ts={k.n_ts} nodes={sl(nodes)} "
                f"edges={sl([f'{a}:{b}:{t}' for a, b, t in es])} pl=-")

    def flush_oracle(self) -> None:
        if self.log and self.batch is not None:
            self.batch.send("oracle " + ",".join(f"{a}:{b}:{int(r)}" for a, b, r in self.log), "ok",
                            {**self.meta, "nontrivial": False})
        self.log = []

    def stored_geometry_ok(self) -> bool:
        """every stored array is the offered one up to the translation the alignment applies"""
        k = self.ktn
        def c(x):
            x = np.asarray(x).reshape(-1, 3)
            return x - x.mean(axis=0)
        for l in k.G.nodes:
            t = self.by_energy.get(np.float64(k.G.nodes[l]['energy']).tobytes())
            if t is None:
                return False
            w = self.coords.atom_weights
            a, b = np.asarray(k.G.nodes[l]['coords']).reshape(-1, 3), self.offered[t].reshape(-1, 3)
            a = a - np.average(a, axis=0, weights=w); b = b - np.average(b, axis=0, weights=w)
            if not np.allclose(a, b, atol=1e-8):
                return False
        return True

    def offer_min(self, pos, e, tag="") -> None:
        t = self.t(pos, e)
        self.coords.position = np.array(pos, dtype=float).flatten()
        self.sim.test_new_minimum(self.ktn, self.coords, float(e))
        self.flush_oracle()
        if self.batch is not None:
            self.batch.send(f"min {t}", self.state(), {**self.meta, "tag": tag, "nontrivial": self.ktn.n_minima > 1})

    def offer_ts(self, ts, plus, minus, tag="") -> None:
        a, b, c = self.t(*ts), self.t(*plus), self.t(*minus)
        self.coords.position = np.array(ts[0], dtype=float).flatten()
        self.sim.test_new_ts(self.ktn, self.coords, float(ts[1]), np.array(plus[0], dtype=float).flatten(),
                             float(plus[1]), np.array(minus[0], dtype=float).flatten(), float(minus[1]))
        self.flush_oracle()
        if self.batch is not None:
            self.batch.send(f"ts {a} {b} {c}", self.state(), {**self.meta, "tag": tag})


def atomic_streams(ctx: Ctx, batch: Batch, n_streams: int, length: int) -> None:
    rng = ctx.rng
    for si in range(n_streams):
        rs = np.random.RandomState(rng.randrange(1 << 30))
        np.random.seed(rng.randrange(1 << 30))          # random_rotation() draws from the global state
        labels = rng.choice([["C"] * 5, ["C", "C", "C", "O", "O"], ["C"] * 4 + ["O"] * 3, ["C"] * 7])
        clusters = []
        while len(clusters) < 4:
            pos = random_cluster(rs, labels)
            sd = sorted_dists(pos)
            # any alignment of two clusters has distance >= max|sorted distance difference| / sqrt 2
            if all(np.max(np.abs(sd - sorted_dists(c))) > 20 * AtomicImpl.DC for c in clusters):
                clusters.append(pos)
        impl = AtomicImpl(labels, batch, {"stream": f"atomic{si}", "label": "atomic"})
        counter = [0]
        def payload(kind_offset=0.0):
            ci = rng.randrange(len(clusters))
            counter[0] += 1
            far = rng.random() < 0.2                      # same geometry, energy beyond the criterion
            e = 10.0 * ci + kind_offset + (0.5 if far else 0.0) + counter[0] * 1e-6
            return (rigid_copy(rs, clusters[ci], labels).flatten(), e), (ci, far)
        for _ in range(length):
            if rng.random() < 0.6:
                (pos, e), info = payload()
                impl.offer_min(pos, e, f"c{info[0]}")
            else:
                ts, _ = payload(100.0)
                plus, _ = payload()
                minus = plus if rng.random() < 0.2 else payload()[0]
                if minus is plus:
                    counter[0] += 1
                    minus = (rigid_copy(rs, plus[0].reshape(-1, 3), labels).flatten(), plus[1] + 1e-6 * 0.5)
                impl.offer_ts(ts, plus, minus)
            ok = impl.stored_geometry_ok()
            ctx.contract("atomic-stored-geometry", ok)
            if not ok:
                ctx.diverge("atomic:stored-geometry", "a stored atomic structure is not the offered one up "
                            "to translation", {"stream": si})
        # direct sampling of symmetry / reflexivity of the real relation (assumed by the theorems)
        from topsearch.similarity.molecular_similarity import MolecularSimilarity
        from topsearch.data.coordinates import AtomicCoordinates
        fresh = MolecularSimilarity(AtomicImpl.DC, AtomicImpl.EC)
        for _ in range(ctx.scale(6, 20)):
            i, j = rng.randrange(4), rng.randrange(4)
            A = rigid_copy(rs, clusters[i], labels).flatten()
            B = rigid_copy(rs, clusters[j], labels).flatten()
            ab = fresh.test_same(AtomicCoordinates(labels, A.copy()), B.copy(), 0.0, 0.01)
            ba = fresh.test_same(AtomicCoordinates(labels, B.copy()), A.copy(), 0.01, 0.0)
            aa = fresh.test_same(AtomicCoordinates(labels, A.copy()), A.copy(), 0.0, 0.0)
            ctx.contract("atomic-symmetry", ab == ba)
            ctx.contract("atomic-reflexivity", bool(aa))
            ctx.contract("atomic-copy-recognised", (ab and ba) if i == j else True)
            if i != j and (ab or ba):
                # impossible for any alignment: the sorted distance lists differ by >> the criterion
                ctx.fail("MolecularSimilarity.test_same:distinct-clusters-match",
                         "two clusters whose sorted interatomic distances differ by more than 20x the "
                         "criterion were reported as the same structure",
                         {"labels": labels, "A": A.tolist(), "B": B.tolist()})
            elif ab != ba or not aa or (i == j and not ab):
                ctx.stats.near_ties += 1      # alignment heuristic miss (C11's subject): counted, not reported


# ----------------------------------------------------------------------------- correspondence


def correspond(ctx: Ctx) -> None:
    rng = ctx.rng
    np.random.seed(rng.randrange(1 << 30))
    batch = Batch()
    sid = 0
    # (1) corpus: the minimal histories of past / boundary failures
    for name, spec, ops in corpus():
        impl = Impl(spec, batch, {"stream": f"corpus-{name}", "label": "corpus"})
        for op in ops:
            apply_op(impl, op)
    # (2) every offset class against a single stored point, both roles, both modes (systematic)
    for spec in dyadic_specs():
        base = grid_point(spec, rng)
        for tag, off in offsets(spec, rng):
            for etag, eo in energy_offsets(spec):
                sid += 1
                impl = Impl(spec, batch, {"stream": f"sys{sid}", "label": "boundary"})
                cand = (base[0] + off, base[1] + eo)
                impl.offer_min(base, "base")
                impl.query_same(cand, base, f"{tag}/{etag}")
                impl.query_same(base, cand, f"{tag}/{etag}/swapped")
                impl.offer_min(cand, f"{tag}/{etag}")
                impl.offer_ts((base[0] + 1.0, base[1] + 4.0), base, cand, f"ts:{tag}/{etag}")
                impl.offer_ts((base[0] + 1.0 + off, base[1] + 4.0 + eo), cand, base, f"ts-repeat:{tag}/{etag}")
    # (3) random dyadic streams
    for _ in range(ctx.scale(30, 200)):
        spec = rng.choice(dyadic_specs())
        sid += 1
        impl = Impl(spec, batch, {"stream": f"dy{sid}", "label": "dyadic"})
        for op in gen_stream(spec, rng, ctx.scale(25, 60)):
            apply_op(impl, op)
        if rng.random() < 0.5:
            spec2 = spec.other_box(rng)
            sid += 1
            impl2 = Impl(spec2, batch, {"stream": f"dy{sid}", "label": "dyadic-reused-similarity"}, sim=impl.sim)
            for op in gen_stream(spec2, rng, ctx.scale(12, 30)):
                apply_op(impl2, op)
    # (4) generic floats: decisions closer than 1e-9 (exact arithmetic) to a criterion are skipped
    for _ in range(ctx.scale(10, 60)):
        dim = rng.randrange(1, 5)
        kind = rng.choice(("abs", "prop"))
        bounds = [(-rng.uniform(1, 4), rng.uniform(1, 4)) for _ in range(dim)]
        spec = Spec(kind, rng.uniform(0.05, 0.6) if kind == "abs" else rng.uniform(0.02, 0.2),
                    rng.uniform(0.05, 0.5), bounds)
        sid += 1
        impl = Impl(spec, batch, {"stream": f"fl{sid}", "label": "float"})
        seen: list = []
        for _ in range(ctx.scale(20, 40)):
            def cand():
                if seen and rng.random() < 0.6:
                    q = rng.choice(seen)
                    scale = spec.dc if kind == "abs" else spec.dc * 3
                    v = np.array([rng.gauss(0, 1) for _ in range(dim)])
                    v = v / np.linalg.norm(v) * scale * rng.choice((0.3, 0.9, 0.999, 1.001, 1.1, 2.0))
                    return (q[0] + v, q[1] + rng.choice((0.0, 0.5, 0.99, 1.01)) * spec.ec * rng.choice((-1, 1)))
                return (np.array([rng.uniform(a, b) for a, b in bounds]), rng.uniform(-2, 2))
            r = rng.random()
            if r < 0.5:
                op = ("min", cand(), "float")
            elif r < 0.85:
                p = cand()
                op = ("ts", cand(), p, (p[0].copy(), p[1]) if rng.random() < 0.2 else cand(), "float")
            else:
                op = ("same", cand(), rng.choice(seen) if seen else cand(), "float")
            if near_tie(spec, impl, op):
                ctx.stats.near_ties += 1
                continue
            apply_op(impl, op)
            seen += [x for x in op[1:] if isinstance(x, tuple)]
    # (5) atomic systems through the real MolecularSimilarity, answers as oracle
    atomic_streams(ctx, batch, ctx.scale(3, 12), ctx.scale(14, 30))
    ctx.stats.notes["streams"] = sid
    batch.run(ctx)


def corpus() -> list[tuple[str, Spec, list]]:
    s2 = Spec("abs", 0.625, 0.125, [(-3.0, 3.0), (-3.0, 3.0)])
    sp = Spec("prop", 0.125, 0.25, [(-4.0, 4.0), (-1.0, 1.0)])
    m = (np.array([1.0, 1.0]), 1.0)
    a = (np.array([0.0, 0.0]), 0.0)
    b = (np.array([2.0, 0.0]), 0.5)
    t1 = (np.array([0.5, 0.5]), 2.0)
    t2 = (np.array([1.0, -0.5]), 3.0)
    at = (np.array([0.375, 0.5]), 0.0)           # exactly 0.625 from a
    return [
        # (a) a TS whose two sides reach the same new minimum (was stored twice)
        ("ts-same-new-minimum", s2, [("ts", t1, m, (m[0].copy(), m[1]))]),
        ("ts-same-new-minimum-prop", sp, [("min", a), ("ts", t1, m, (m[0].copy(), m[1]))]),
        # (c) second TS on a connected pair (count drift)
        ("second-ts-on-pair", s2, [("min", a), ("min", b), ("ts", t1, a, b), ("ts", t2, b, a)]),
        # exactly at the criterion: not a match (abs) / a match (prop)
        ("at-criterion-abs", s2, [("min", a), ("same", at, a), ("min", at), ("ts", t1, at, a)]),
        ("at-criterion-prop", sp, [("min", a), ("same", (np.array([1.0, 0.0]), 0.0), a),
                                   ("min", (np.array([1.0, 0.0]), 0.0)), ("min", (np.array([0.0, 0.25]), 0.0)),
                                   ("min", (np.array([1.0, 0.015625]), 0.0))]),
        # merging a network into itself-like copy: nothing new, history mapped
        ("merge-repeat", s2, [("min", a), ("min", b), ("ts", t1, a, b),
                              ("addnet", [b, a, m], [(t1, 0, 1), (t2, 2, 2)], [(0, 1), (2, 0)])]),
        # a non-matching TS for a self-connection and an empty merge
        ("self-loop", s2, [("ts", t1, a, (a[0] + 0.0625, a[1])), ("addnet", [], [], [])]),
    ]


# ----------------------------------------------------------------------------- direct predicates


def check_stream(spec: Spec, ops: list, exact: bool, ctx: Ctx | None = None, sim=None) -> tuple[str, str, dict] | None:
    """The property's own predicate on the real code, written from the statement: after every
    offer (i) a candidate matching a stored point was not stored again and the network is unchanged,
    (ii) a candidate matching none was stored, (iii) no two stored minima / transition states match,
    (iv) every minimum offered so far matches a stored one; plus symmetry / reflexivity of the
    relation on the pairs met.  With `exact=False` comparisons nearer than 1e-9 to a criterion are
    skipped."""
    impl = Impl(spec, None, {}, sim=sim)
    k, sim = impl.ktn, impl.sim
    offered_min: list = []
    wrong: list = []

    def same(p, q) -> bool | None:
        if not exact and spec.exact_margin(p, q) < 1e-9:
            return None
        c = copy.deepcopy(impl.coords)
        c.position = np.array(p[0], dtype=float)
        r = bool(sim.test_same(c, np.array(q[0], dtype=float), float(p[1]), float(q[1])))
        # the relation itself against the stated criterion (skipped within 1e-9 of a threshold unless
        # the inputs are dyadic, where binary64 is exact)
        if (exact or spec.exact_margin(p, q) >= 1e-9) and r != spec.criterion(p, q) and not wrong:
            wrong.append((r, _plain(p), _plain(q)))
        return r

    def stored_min():
        return [(np.array(k.get_minimum_coords(i)), float(k.get_minimum_energy(i))) for i in range(k.n_minima)]

    def stored_ts():
        return [(np.array(k.G[u][v]['coords']), float(k.G[u][v]['energy']), int(u), int(v)) for u, v in k.G.edges()]

    def snapshot():
        return impl_state_raw(k)

    for step, op in enumerate(ops):
        if wrong:
            r, pp, qq = wrong[0]
            return ("test_same:criterion", f"test_same returned {r} for a pair that the stated "
                    f"{'box-proportional' if spec.kind == 'prop' else 'absolute'} criterion "
                    f"{'rejects' if r else 'accepts'}", {"step": step, "p": pp, "q": qq, "bounds": spec.bounds})
        kind = op[0]
        if kind in ("same", "isnew"):
            if kind == "same":
                a, b = same(op[1], op[2]), same(op[2], op[1])
                if a is not None and b is not None and a != b:
                    return ("test_same:asymmetric", f"test_same(p,q)={a} but test_same(q,p)={b}",
                            {"step": step, "p": _plain(op[1]), "q": _plain(op[2])})
                if spec.dc > 0 and spec.ec > 0 and same(op[1], op[1]) is False:
                    return ("test_same:not-reflexive", "an identical point is not accepted",
                            {"step": step, "p": _plain(op[1])})
            continue
        before = snapshot()
        mins0, tss0 = stored_min(), stored_ts()
        try:
            apply_op(impl, op)
        except Exception as e:
            return (f"{kind}:raises", f"offer raised {type(e).__name__}: {e}", {"step": step})
        after = snapshot()
        mins1, tss1 = stored_min(), stored_ts()
        if kind == "min":
            p = op[1]
            offered_min.append(p)
            ans = [same(p, q) for q in mins0]
            if None not in ans:
                if any(ans) and after != before:
                    return ("test_new_minimum:match-stored-again",
                            "a candidate minimum matching a stored one changed the network", {"step": step})
                if not any(ans) and not (len(mins1) == len(mins0) + 1 and _eq(mins1[-1], p)
                                         and _prefix(mins0, mins1)):
                    return ("test_new_minimum:new-not-stored",
                            "a candidate minimum matching no stored one was not appended", {"step": step})
        elif kind == "ts":
            t, p, m = op[1], op[2], op[3]
            ans = [same(t, (c, e)) for c, e, _, _ in tss0]
            if None not in ans:
                if any(ans) and after != before:
                    return ("test_new_ts:repeat-changes-network",
                            "a transition state matching a stored one changed the network", {"step": step})
                if not any(ans):
                    offered_min += [p, m]
                    hit = [(u, v) for c, e, u, v in tss1 if _eq((c, e), t)]
                    if len(hit) != 1:
                        return ("test_new_ts:new-not-stored", f"a new transition state is stored {len(hit)} times",
                                {"step": step})
                    u, v = hit[0]
                    ends = [mins1[u], mins1[v]]
                    def rep(x, y):
                        return _eq(x, y) or same(y, x) in (True, None)
                    if not ((rep(ends[0], p) and rep(ends[1], m)) or (rep(ends[0], m) and rep(ends[1], p))):
                        return ("test_new_ts:wrong-endpoints",
                                "the new transition state does not join minima matching the two it descended to",
                                {"step": step})
                    if not _prefix(mins0, mins1) or len(mins1) > len(mins0) + 2:
                        return ("test_new_ts:minima-disturbed", "stored minima were changed or renumbered",
                                {"step": step})
        elif kind == "addnet":
            offered_min += list(op[1])
            if not _prefix(mins0, mins1):
                return ("add_network:minima-disturbed", "stored minima were changed or renumbered", {"step": step})
        # (iii) pairwise distinctness of what is stored now
        for (i, a), (j, b) in itertools.permutations(enumerate(mins1), 2):
            if same(a, b):
                key = "ts-same-new-minimum-twice" if kind == "ts" else f"{_site(kind)}:stored-minima-match"
                return (key, f"stored minima {i} and {j} match each other after a {_site(kind)} offer",
                        {"step": step, "i": i, "j": j})
        tsl = [(c, e) for c, e, _, _ in tss1]
        for (i, a), (j, b) in itertools.permutations(enumerate(tsl), 2):
            if same(a, b):
                return (f"{_site(kind)}:stored-ts-match", f"two stored transition states match each other "
                        f"after a {_site(kind)} offer", {"step": step})
        # counts
        if k.n_minima != k.G.number_of_nodes() or k.n_ts != k.G.number_of_edges():
            return (f"{_site(kind)}:counts", f"n_minima={k.n_minima}/{k.G.number_of_nodes()} "
                    f"n_ts={k.n_ts}/{k.G.number_of_edges()}", {"step": step})
        # (iv) representation of every minimum offered so far
        if spec.dc > 0 and spec.ec > 0:
            for p in offered_min:
                ans = [same(p, q) for q in mins1]
                if not any(a in (True, None) for a in ans):
                    return (f"{_site(kind)}:offered-minimum-not-represented",
                            "an offered minimum matches no stored minimum afterwards",
                            {"step": step, "p": _plain(p)})
    return None


def _site(kind: str) -> str:
    return {"min": "test_new_minimum", "ts": "test_new_ts", "addnet": "add_network"}.get(kind, kind)


def _eq(a, b) -> bool:
    return np.asarray(a[0], dtype=float).tobytes() == np.asarray(b[0], dtype=float).tobytes() and \
        np.float64(a[1]).tobytes() == np.float64(b[1]).tobytes()


def _prefix(old, new) -> bool:
    return len(new) >= len(old) and all(_eq(a, b) for a, b in zip(old, new))


def impl_state_raw(k) -> tuple:
    nodes = tuple((int(l), np.asarray(k.G.nodes[l]['coords']).tobytes(), np.float64(k.G.nodes[l]['energy']).tobytes())
                  for l in k.G.nodes)
    edges = tuple(sorted((min(int(u), int(v)), max(int(u), int(v)), np.asarray(k.G[u][v]['coords']).tobytes(),
                          np.float64(k.G[u][v]['energy']).tobytes()) for u, v in k.G.edges()))
    return (k.n_minima, k.n_ts, nodes, edges, np.asarray(k.pairlist).tobytes())


def _ops_json(ops: list) -> list:
    out = []
    for op in ops:
        k = op[0]
        if k == "min":
            out.append(["min", _plain(op[1])])
        elif k == "ts":
            out.append(["ts", _plain(op[1]), _plain(op[2]), _plain(op[3])])
        elif k == "addnet":
            out.append(["addnet", [_plain(p) for p in op[1]], [[_plain(p), u, v] for p, u, v in op[2]],
                        [list(h) for h in op[3]]])
        elif k == "same":
            out.append(["same", _plain(op[1]), _plain(op[2])])
        elif k == "isnew":
            out.append(["isnew", _plain(op[1])])
    return out


def _ops_from_json(js: list) -> list:
    out = []
    for op in js:
        k = op[0]
        if k == "min":
            out.append(("min", _pt(op[1])))
        elif k == "ts":
            out.append(("ts", _pt(op[1]), _pt(op[2]), _pt(op[3])))
        elif k == "addnet":
            out.append(("addnet", [_pt(p) for p in op[1]], [(_pt(p), int(u), int(v)) for p, u, v in op[2]],
                        [tuple(h) for h in op[3]]))
        elif k == "same":
            out.append(("same", _pt(op[1]), _pt(op[2])))
        elif k == "isnew":
            out.append(("isnew", _pt(op[1])))
    return out


def _shrink(spec: Spec, ops: list, key: str, exact: bool) -> list:
    def fails(o):
        try:
            r = check_stream(spec, o, exact)
        except Exception:
            return False
        return r is not None and r[0] == key
    for n in range(1, len(ops) + 1):
        if fails(ops[:n]):
            ops = ops[:n]
            break
    i = 0
    while i < len(ops) - 1 and len(ops) > 1:
        cand = ops[:i] + ops[i + 1:]
        if fails(cand):
            ops = cand
        else:
            i += 1
    return ops


def refused_read(ctx: Ctx) -> None:
    """a fresh network on which the read of an incomplete checkpoint was refused, then filled from the older checkpoint
    (or by offers): it must hold exactly what it was given — minima left behind by the refused read would sit in the
    graph next to, or under the labels of, the ones stored afterwards"""
    from props import c06
    for i in range(ctx.scale(6, 30)):
        why, _k, _spec, rep = c06.failed_read_case(ctx.rng, missing=c06.TABLE_FILES[i % 5] if i < 5 else None, into_fresh=True)
        ctx.stats.case({"stream": "predicate-refused-read", "missing": rep["failed_read"]["missing"]}, True)
        if why:
            ctx.fail("stored-once:after-refused-read", why, rep)
            return


def predicates(ctx: Ctx) -> None:
    rng = ctx.rng
    np.random.seed(rng.randrange(1 << 30))
    refused_read(ctx)
    for name, spec, ops in corpus():
        r = check_stream(spec, ops, True)
        ctx.stats.case({"stream": "predicate-corpus", "name": name}, True)
        if r:
            ctx.fail(r[0], f"[{name}] {r[1]}", {"spec": spec.as_dict(), "ops": _ops_json(ops), "exact": True, **r[2]})
    atomic_copies(ctx)
    reconvergence_route(ctx)
    n = ctx.scale(25, 150) * (4 if getattr(ctx, "deep_search", False) else 1)
    for i in range(n):
        spec = rng.choice(dyadic_specs())
        ops = gen_stream(spec, rng, ctx.scale(18, 40))
        shared = None
        if i % 3 == 2:
            # one similarity object used for two landscapes with different boxes, one after the other
            first = spec.other_box(rng)
            shared = first.make()[0]
            r0 = check_stream(first, gen_stream(first, rng, 8), True, sim=shared)
            if r0:
                ctx.fail(r0[0], r0[1], {"spec": first.as_dict(), "exact": True, **r0[2]})
                continue
        r = check_stream(spec, ops, True, sim=shared)
        if r and shared is not None:
            ctx.stats.case({"stream": "predicate-dyadic-reused-similarity", "mode": spec.kind}, True)
            ctx.fail(r[0] + ":reused-similarity-object", r[1] + " (similarity object previously used with the box "
                     f"{first.bounds})", {"spec": spec.as_dict(), "first_box": first.bounds, "ops": _ops_json(ops),
                                          "exact": True, **r[2]})
            continue
        ctx.stats.case({"stream": "predicate-dyadic", "mode": spec.kind, "len": len(ops)}, True)
        if r:
            ops = _shrink(spec, ops, r[0], True)
            r2 = check_stream(spec, ops, True) or r
            ctx.fail(r[0], r2[1], {"spec": spec.as_dict(), "ops": _ops_json(ops), "exact": True, **r2[2]})


def atomic_copies(ctx: Ctx) -> None:
    """rotated / translated / like-atom-permuted copies of densely packed 18-30 atom clusters offered to
    the real gate through the real MolecularSimilarity: each structure must be stored exactly once.  (For
    clusters of this size the random restarts of the alignment cannot rescue a broken identity test; on
    the unchanged tree the deterministic path recognises every such copy.)"""
    from topsearch.data.coordinates import AtomicCoordinates
    from topsearch.data.kinetic_transition_network import KineticTransitionNetwork
    from topsearch.similarity.molecular_similarity import MolecularSimilarity
    rng = ctx.rng

    def ball(n, radius=3.0, sep=0.9):
        pts = []
        while len(pts) < n:
            t = np.array([rng.uniform(-radius, radius) for _ in range(3)])
            if np.linalg.norm(t) <= radius and all(np.linalg.norm(t - q) > sep for q in pts):
                pts.append(t)
        return np.array(pts)

    def rot():
        a = np.array([[rng.gauss(0, 1) for _ in range(3)] for _ in range(3)])
        q, r = np.linalg.qr(a)
        q = q * np.sign(np.diag(r))
        if np.linalg.det(q) < 0:
            q[:, 0] *= -1
        return q
    for it in range(ctx.scale(6, 30)):
        n = rng.choice([18, 24, 30])
        labels = (["C", "C", "O"] * 10)[:n] if rng.random() < 0.5 else [rng.choice(["Au", "Ag"]) for _ in range(n)]
        structures = [ball(n), ball(n)]
        # the energy zero is arbitrary (total electronic energies are of order -5e4): the criterion is an absolute
        # difference, so the same geometry 6 criteria higher is a different stationary point at every magnitude
        base = [-101.25, -54321.0, 2.5e5][it % 3]
        ec = 0.05
        classes = [(0, base), (1, base + 3.75), (0, base + 6 * ec)]
        mirror = it % 2 == 1            # every other case: mirror images count as the same structure (allow_inversion)
        sim = MolecularSimilarity(0.1, ec, allow_inversion=True) if mirror else MolecularSimilarity(0.1, ec)
        k = KineticTransitionNetwork()
        coords = AtomicCoordinates(labels, structures[0].flatten().copy())
        offers = []
        for ci in (0, 1, 0, 2, 1, 0, 2):
            si, energy = classes[ci]
            perm = list(range(n))
            for sp in set(labels):
                idx = [i for i in range(n) if labels[i] == sp]
                sh = idx[:]; rng.shuffle(sh)
                for a, b in zip(idx, sh):
                    perm[a] = b
            sign = -1.0 if (mirror and offers and rng.random() < 0.6) else 1.0
            x = (sign * structures[si][perm] @ rot().T + np.array([rng.uniform(-2, 2) for _ in range(3)])).flatten()
            offers.append((ci, x, energy))
        with np.errstate(all="ignore"):
            import warnings
            with warnings.catch_warnings():
                warnings.simplefilter("ignore")
                for ci, x, energy in offers:
                    coords.position = x.copy()
                    sim.test_new_minimum(k, coords, energy)
        ctx.stats.case({"stream": "predicate-atomic-copies", "n": n, "energy_scale": abs(base)}, True)
        if k.n_minima != 3:
            ctx.fail("atomic-copy-stored-again" if k.n_minima > 3 else "atomic-distinct-not-stored",
                     f"{len(offers)} rotated/translated/like-atom-permuted copies of 3 distinct stationary points "
                     f"({n} atoms: two geometries, one of them at two energies {6 * ec} apart, criterion {ec}, energies "
                     f"near {base}) were offered; {k.n_minima} minima are stored",
                     {"labels": labels, "offers": [[ci, x.tolist(), energy] for ci, x, energy in offers], "mirror": mirror})
            return


def reconvergence_route(ctx: Ctx) -> None:
    """the reconvergence route of the statement: every transition state (and minimum) a re-search hands back is offered
    to the emptied network — whichever of the other re-searches failed — so each is represented afterwards, once.  The
    scenarios and the judge are those of C05 (scripted re-search objects substituted from outside, every failure subset
    of up to four stored transition states)."""
    import itertools
    from props import c05
    rng = ctx.rng
    for i in range(ctx.scale(6, 30)):
        rs = c05.gen_rescenario(rng, 4)
        for m in itertools.product((0, 1), repeat=len(rs.research)):
            fail = {j for j, bit in enumerate(m) if bit}
            r = c05.check_reconverge(rs, fail, "landscape")
            ctx.stats.case({"stream": "predicate-reconvergence-route", "ts": len(rs.research), "fail": len(fail)}, True)
            if r:
                ctx.fail("reconvergence:" + r[0], r[1], {"reconvergence_route": {**rs.as_dict(fail), "what": "landscape"}, **r[2]})
                return


def replay(ctx: Ctx, data: dict) -> bool:
    if "reconvergence_route" in data:
        from props import c05
        return c05.replay(ctx, data["reconvergence_route"])
    if "failed_read" in data:
        from props import c06
        return c06.replay(ctx, data)
    if "spec" not in data or "ops" not in data:
        rep = data.get("divergences") or []
        for d in rep:
            if d.get("replay_ops"):
                data = {"spec": d["replay_ops"]["spec"], "ops": d["replay_ops"]["ops"], "exact": False}
                break
        else:
            print("  nothing to replay on the real code (proof obligation / correspondence record)")
            return True
    spec = Spec.from_dict(data["spec"])
    ops = _ops_from_json(data["ops"])
    r = check_stream(spec, ops, bool(data.get("exact", True)))
    if r:
        print(f"  {r[0]}: {r[1]}")
    return r is None
