"""C06 — saving a network and reading it back reproduces it.

Tie #1: translate.io_spec reads the `ndmin=` / dtype / reshape of every np.loadtxt call of
read_network, its index patterns, and the savetxt formats of dump_network into Gen/IOSpec.lean;
C06_roundtrip is stated about that generated spec (bridge: it equals the repaired spec).
Tie #2: the real dump_network -> read_network (files in the scratch cwd) against Model/IO through
Drivers/IO.lean for ALL shapes n in 1..4, m in 0..3 (incl. self-loops), k in 1..3, |history| in
0..2, random larger ones, suffix / path variants, and the failure cases (empty network, mixed
dimensions); numpy's loadtxt shape rules are validated table-by-table against the model's
`loadtxt` (oracle contract).
"""
from __future__ import annotations

import itertools
import os
import random
import shutil
import warnings
from fractions import Fraction

import numpy as np

from common import Ctx, frac, run_driver
from translate import io_spec, ktn_cfg

PROP = "C06"
LEAN_MODULE = "TopSearch.Props.C06Reachable"
LEAN_FILES = ["TopSearch.Props.C06", "TopSearch.Props.C06Reachable", "TopSearch.Lemmas.IO", "TopSearch.Model.IO", "TopSearch.Gen.IOSpec",
              "TopSearch.Model.Ktn", "TopSearch.Lemmas.Ktn"]
EXTRA_TARGETS = ["TopSearch.Gen.IOSpec", "TopSearch.Model.IO", "TopSearch.Gen.Ktn"]
REQUIRED = [
    "TopSearch.Props.C06.C06_roundtrip_reachable", "TopSearch.Props.C06.C06_restored_coherent",
    "TopSearch.Props.C02.C02_inv",
    "TopSearch.Props.C06.C06_bridge_spec",
    "TopSearch.Props.C06.C06_roundtrip",
    "TopSearch.Props.C06.C06_roundtrip_contents",
    "TopSearch.Props.C06.C06_roundtrip_twice",
    "TopSearch.Props.C06.C06_not_roundtrip_single_row",
    "TopSearch.Props.C06.C06_not_roundtrip_original_cases",
    "TopSearch.Props.C06.C06_dump_needs_minimum",
]
RULE = ("cases = (network shape and content) round trips compared model-vs-implementation (outcome "
        "class, numbering, coordinates exactly, energies, transition states per pair, counts, history) "
        "plus (table, ndmin) loads compared shape-by-shape; a case is non-trivial when it is a round "
        "trip of a non-empty network or a load of a non-empty table; distinct = distinct canonical "
        "inputs")
ASSUMPTIONS = [
    "numpy text I/O: `%.18e` followed by float() is the identity on binary64; `%8.5f` followed by "
    "float() is rounding to five decimals (model: exact round-half-even of the binary value); `%i` "
    "then float()/int() is the identity on indices — validated on every value written in every run",
    "np.loadtxt shape rules (numpy 1.26.4: blank lines skipped; ndmin=0 squeezes 1x1 -> 0-d, 1xc -> "
    "(c,), rx1 -> (r,); empty file -> (0,) resp. (0,1) for ndmin=2) — validated table-by-table",
    "networkx: G.edges() lists each edge once; add_edge / add_node on a fresh graph insert in call order",
]
PARTIAL = "decimal formatting / parsing of floats is numpy+libc (contract, validated per run)"
TRUSTED_EXTRA = ["exact round-half-even `round5` of Drivers/IO.lean standing for `%8.5f`"]

warnings.filterwarnings("ignore", message="loadtxt: input contained no data")
TABLE_FILES = ("min.data", "min.coords", "ts.data", "ts.coords", "pairlist")


def regenerate(ctx: Ctx) -> None:
    ctx.gen_status.update(io_spec.regenerate())
    # C06_roundtrip_reachable rests on the mutators as they are in the current source (C02)
    ctx.gen_status.update(ktn_cfg.regenerate(["add_minimum", "add_ts", "remove_minimum", "remove_minima", "remove_ts",
                                              "remove_tss", "reset_network", "__init__"]))


# ----------------------------------------------------------------------------- networks


def K():
    from topsearch.data.kinetic_transition_network import KineticTransitionNetwork
    return KineticTransitionNetwork()


def rand_float(rng: random.Random) -> float:
    r = rng.random()
    if r < 0.55:
        return rng.uniform(-10.0, 10.0)
    if r < 0.7:
        return rng.choice([0.0, 1.0, -1.0, 0.5, -2.25, 1.0 / 3.0, 0.1, 1e-7, -3e-9, 123456.789, 2.0 ** -40])
    if r < 0.85:
        return rng.uniform(-1.0, 1.0) * 10.0 ** rng.randrange(-12, 9)
    return round(rng.uniform(-50, 50), rng.randrange(0, 7))


def rand_energy(rng: random.Random) -> float:
    r = rng.random()
    if r < 0.6:
        return rng.uniform(-100.0, 100.0)
    if r < 0.8:
        return round(rng.uniform(-100, 100), rng.randrange(0, 6))      # already short decimals
    return rng.choice([0.0, -0.0, 1e-6, 4.9e-6, 5.1e-6, -7.5e-6, 12345.678901, -0.000004, 99999.999994])


def spec_network(rng, n: int, edges: list[tuple[int, int]], k: int, hist: list[tuple[int, int]]) -> dict:
    return {"n": n, "k": k,
            "minima": [([rand_float(rng) for _ in range(k)], rand_energy(rng)) for _ in range(n)],
            "ts": [(u, v, [rand_float(rng) for _ in range(k)], rand_energy(rng)) for u, v in edges],
            "hist": [tuple(sorted(p)) for p in hist]}


def build(spec: dict):
    k = K()
    for c, e in spec["minima"]:
        k.add_minimum(np.array(c, dtype=float), e)
    for u, v, c, e in spec["ts"]:
        k.add_ts(np.array(c, dtype=float), e, u, v)
    k.pairlist = np.array(spec["hist"], dtype=int).reshape(-1, 2)
    return k


def to_hex(spec: dict) -> dict:
    return {"n": spec["n"], "k": spec["k"],
            "minima": [([float(x).hex() for x in c], float(e).hex()) for c, e in spec["minima"]],
            "ts": [(u, v, [float(x).hex() for x in c], float(e).hex()) for u, v, c, e in spec["ts"]],
            "hist": [list(p) for p in spec["hist"]], "edits": [list(o) for o in spec.get("edits", [])],
            "analyses": spec.get("analyses", 0)}


def from_hex(d: dict) -> dict:
    return {"n": d["n"], "k": d["k"],
            "minima": [([float.fromhex(x) for x in c], float.fromhex(e)) for c, e in d["minima"]],
            "ts": [(u, v, [float.fromhex(x) for x in c], float.fromhex(e)) for u, v, c, e in d["ts"]],
            "hist": [tuple(p) for p in d["hist"]], "edits": [tuple(o) for o in d.get("edits", [])],
            "analyses": d.get("analyses", 0)}


def roundtrip(k, suffix: str, path: str):
    """real dump -> read; returns (outcome, fresh network or None)"""
    try:
        k.dump_network(suffix)
    except Exception as e:
        return f"err:{type(e).__name__}", None
    try:
        if path:
            # `text_path` is whatever stands in front of the standard file names: a directory (with its separator) or
            # a label such as `archive/run1_`
            if os.path.dirname(path):
                os.makedirs(os.path.dirname(path), exist_ok=True)
            for f in TABLE_FILES:
                shutil.move(f + suffix, path + f + suffix)
        k2 = K()
        k2.read_network(text_path=path, text_string=suffix)
        return "ok", k2
    except Exception as e:
        return f"err:{type(e).__name__}", None
    finally:
        for f in TABLE_FILES:
            for p in (f + suffix, path + f + suffix if path else None):
                if p and os.path.exists(p):
                    os.remove(p)


def sl(l):
    return ",".join(l) if l else "-"


def model_lines(k, spec: dict) -> list[str]:
    """the network handed to the model: transition states in the G.edges() order dump uses"""
    lines = ["new"]
    for c, e in spec["minima"]:
        lines.append(f"addmin {sl([frac(x) for x in c])} {frac(e)}")
    for u, v in k.G.edges():
        d = k.G[u][v]
        lines.append(f"addts {int(u)} {int(v)} {sl([frac(float(x)) for x in d['coords']])} {frac(float(d['energy']))}")
    lines.append("hist " + sl([f"{a}:{b}" for a, b in spec["hist"]]))
    lines.append("rt")
    return lines


def parse_model(ans: str):
    """`ok n=.. ts=.. nodes=.. edges=.. pl=..` -> dict"""
    f = dict(x.split("=", 1) for x in ans.split(" ")[1:])
    q = lambda s: [] if s == "-" else [Fraction(x) for x in s.split(",")]
    nodes = [] if f["nodes"] == "-" else [n.split("|") for n in f["nodes"].split(";")]
    edges = [] if f["edges"] == "-" else [e.split("|") for e in f["edges"].split(";")]
    return {"n": int(f["n"]), "ts": int(f["ts"]),
            "nodes": [(int(a), q(c), Fraction(e)) for a, c, e in nodes],
            "edges": sorted((int(a), int(b), q(c), Fraction(e)) for a, b, c, e in edges),
            "pl": [] if f["pl"] == "-" else [tuple(int(x) for x in p.split(":")) for p in f["pl"].split(",")]}


def impl_state(k2):
    nodes = []
    for lab in k2.G.nodes:
        d = k2.G.nodes[lab]
        nodes.append((int(lab), [Fraction(float(x)) for x in np.atleast_1d(d["coords"])], float(d["energy"])))
    edges = []
    for u, v in k2.G.edges():
        d = k2.G[u][v]
        edges.append((min(int(u), int(v)), max(int(u), int(v)),
                      [Fraction(float(x)) for x in np.atleast_1d(d["coords"])], float(d["energy"])))
    pl = np.asarray(k2.pairlist)
    return {"n": int(k2.n_minima), "ts": int(k2.n_ts), "nodes": nodes, "edges": sorted(edges),
            "pl": [tuple(int(x) for x in r) for r in pl] if pl.ndim == 2 and pl.shape[1] == 2 else f"shape{pl.shape}"}


def same_energy(m: Fraction, x: float) -> bool:
    return abs(float(m) - x) <= 1e-12 * max(1.0, abs(x))


def diff_states(m: dict, i: dict) -> str | None:
    if (m["n"], m["ts"]) != (i["n"], i["ts"]):
        return f"counts model {(m['n'], m['ts'])} / implementation {(i['n'], i['ts'])}"
    if m["pl"] != i["pl"]:
        return f"history model {m['pl']} / implementation {i['pl']}"
    if len(m["nodes"]) != len(i["nodes"]) or len(m["edges"]) != len(i["edges"]):
        return "number of stored points differs"
    for (a, c, e), (a2, c2, e2) in zip(m["nodes"], i["nodes"]):
        if a != a2 or c != c2:
            return f"minimum {a}: model label/coords {a, [float(x) for x in c]} / implementation {a2, [float(x) for x in c2]}"
        if not same_energy(e, e2):
            return f"minimum {a}: energy model {float(e)!r} / implementation {e2!r}"
    for (a, b, c, e), (a2, b2, c2, e2) in zip(m["edges"], i["edges"]):
        if (a, b) != (a2, b2) or c != c2:
            return f"transition state {a}-{b}: model / implementation {a2}-{b2} differ in pair or coordinates"
        if not same_energy(e, e2):
            return f"transition state {a}-{b}: energy model {float(e)!r} / implementation {e2!r}"
    return None


# ----------------------------------------------------------------------------- correspondence


def shapes_exhaustive(rng):
    for n in range(1, 5):
        allpairs = [(u, v) for u in range(n) for v in range(u, n)]
        for m in range(0, 4):
            if m > len(allpairs):
                continue
            combos = list(itertools.combinations(allpairs, m))
            rng.shuffle(combos)
            # every shape (n, m, k, |hist|); two edge placements each, one of them with a self-loop if possible
            picks = combos[:1]
            loops = [c for c in combos if any(u == v for u, v in c)]
            if loops and loops[0] not in picks:
                picks.append(loops[0])
            for edges in picks:
                for k in range(1, 4):
                    for nh in range(0, 3):
                        hist = [(rng.randrange(n), rng.randrange(n)) for _ in range(nh)]
                        e = [(u, v) if rng.random() < 0.5 else (v, u) for u, v in edges]
                        yield n, e, k, hist


def run_roundtrips(ctx: Ctx, specs: list[tuple[dict, str, str]], label: str) -> None:
    lines, items = [], []
    for spec, suffix, path in specs:
        try:
            k = build(spec)
        except Exception as e:          # not a network the class can hold
            continue
        ml = model_lines(k, spec)
        outcome, k2 = roundtrip(k, suffix, path)
        lines += ml
        items.append((spec, suffix, path, outcome, impl_state(k2) if k2 is not None else None, len(ml)))
        # contract: what was written is what the formats promise
        if k2 is not None:
            ok = all(np.array_equal(np.atleast_1d(k2.G.nodes[i]["coords"]), k.G.nodes[i]["coords"])
                     for i in range(k.n_minima) if i in k2.G.nodes)
            ctx.contract("%.18e round-trips binary64", ok)
            ok = all(float(k2.G.nodes[i]["energy"]) == float("%8.5f" % k.G.nodes[i]["energy"])
                     for i in range(k.n_minima) if i in k2.G.nodes)
            ctx.contract("%8.5f then float() = 5-decimal rounding", ok)
    out = run_driver("IO", ["spec gen"] + lines)[1:]
    pos = 0
    for spec, suffix, path, outcome, ist, nl in items:
        ans = out[pos + nl - 1]
        pos += nl
        shape = {"n": spec["n"], "m": len(spec["ts"]), "k": spec["k"], "h": len(spec["hist"]),
                 "loop": any(u == v for u, v, _, _ in spec["ts"])}
        ctx.stats.case({"stream": label, **shape, "spec": to_hex(spec), "answer": ans.split(" ")[0]}, spec["n"] > 0)
        ctx.stats.branch(f"{label}:{ans.split(' ')[0]}")
        for tag, on in (("single-minimum", spec["n"] == 1), ("single-ts", len(spec["ts"]) == 1),
                        ("no-ts", not spec["ts"]), ("1d-coordinates", spec["k"] == 1),
                        ("empty-history", not spec["hist"]), ("single-history-entry", len(spec["hist"]) == 1),
                        ("self-connection", shape["loop"]), ("larger(n>4)", spec["n"] > 4)):
            if on:
                ctx.stats.branch("class:" + tag)
        replay = {"spec": to_hex(spec), "suffix": suffix, "path": path}
        key = f"roundtrip:{'single-row' if 1 in (spec['n'], len(spec['ts']), spec['k']) else 'general'}"
        if ans.startswith("err:") or outcome.startswith("err:"):
            if ans != outcome:
                ctx.diverge(key + ":outcome", f"shape {shape}: implementation {outcome} / model {ans.split(' ')[0]}", replay)
            continue
        d = diff_states(parse_model(ans), ist)
        if d:
            ctx.diverge(key + ":content", f"shape {shape}: {d}", replay)


def table_text(rows) -> str:
    return "".join((" ".join(repr(float(x)) for x in r)) + "\n" for r in rows)


def loadtxt_contract(ctx: Ctx) -> None:
    """numpy's loadtxt / np.size / indexing / reshape against the model, table by table"""
    rng = ctx.rng
    tables = []
    for r in range(0, 4):
        for c in range(1, 4):
            tables.append([[float(rng.randrange(-9, 10)) / 4 for _ in range(c)] for _ in range(r)])
    tables += [[[]], [[], [1.0, 2.0]], [[1.0, 2.0], [], [3.0, 4.0]], [[1.0, 2.0], [3.0]], [[1.0], [2.0, 3.0]],
               [[1.0, 2.0, 3.0, 4.0]], [[1.0], [2.0], [3.0], [4.0]], [[0.5, 1.5], [2.5, 3.5], [4.5, 5.5]]]
    lines, exp = [], []
    enc = lambda t: ";".join(("_" if not r else ",".join(frac(x) for x in r)) for r in t) if t else "-"
    for t in tables:
        with open("c06-table.txt", "w") as f:
            f.write(table_text(t))
        for nd in (0, 1, 2, 3):
            def impl(fn):
                try:
                    return fn()
                except Exception as e:
                    return f"err:{type(e).__name__}"
            a = impl(lambda: np.loadtxt("c06-table.txt", ndmin=nd))
            if isinstance(a, str):
                want = a
            else:
                shape = "()" if a.ndim == 0 else (f"({a.shape[0]},)" if a.ndim == 1 else f"({a.shape[0]},{a.shape[1]})")
                size0 = impl(lambda: str(np.size(a, 0)))
                resh = impl(lambda: "({},{})".format(*a.reshape(-1, 2).shape))
                want = f"shape={shape} elems={sl([frac(float(x)) for x in a.reshape(-1)])} size0={size0} reshape={resh}"
            lines.append(f"load {nd} {enc(t)}")
            exp.append((want, {"table": t, "ndmin": nd}))
            if not isinstance(a, str):
                for i, j in ((0, 0), (0, 1), (1, 0), (2, 2), (0, 3)):
                    g = impl(lambda: frac(float(a[i, j])))
                    rw = impl(lambda: sl([frac(float(x)) for x in a[i, :]]))
                    lines.append(f"at {nd} {enc(t)} {i} {j}")
                    exp.append((f"get={g} row={rw}", {"table": t, "ndmin": nd, "i": i, "j": j}))
    os.remove("c06-table.txt")
    out = run_driver("IO", lines)
    for (want, info), got in zip(exp, out):
        ok = want == got
        ctx.contract("numpy loadtxt/size/index/reshape shape rules = model", ok)
        ctx.stats.case({"stream": "loadtxt", **info, "answer": got}, bool(info["table"]))
        ctx.stats.branch("loadtxt:" + (got.split(" ")[0] if got.startswith("shape=") else
                                       "at:IndexError" if got.startswith("get=err") else
                                       "at:value" if got.startswith("get=") else got))
        if not ok:
            ctx.diverge("loadtxt-shape-rules", f"table {info['table']} ndmin={info['ndmin']}"
                        f"{' at ' + str((info['i'], info['j'])) if 'i' in info else ''}: numpy {want} / model {got}", info)


def correspond(ctx: Ctx) -> None:
    rng = ctx.rng
    loadtxt_contract(ctx)
    specs = []
    for n, edges, k, hist in shapes_exhaustive(rng):
        specs.append((spec_network(rng, n, edges, k, hist), rng.choice(["", ".x", "_run1", ".c06"]), ""))
    ctx.stats.notes["exhaustive_shapes"] = len(specs)
    run_roundtrips(ctx, specs, "exhaustive")
    specs = []
    for _ in range(ctx.scale(60, 500)):
        n = rng.randrange(1, 13)
        allpairs = [(u, v) for u in range(n) for v in range(u, n)]
        edges = rng.sample(allpairs, min(len(allpairs), rng.randrange(0, 16)))
        edges = [(u, v) if rng.random() < 0.5 else (v, u) for u, v in edges]
        hist = [(rng.randrange(n), rng.randrange(n)) for _ in range(rng.randrange(0, 11))]
        path = rng.choice(["", "", "sub/", "a/b/"])
        specs.append((spec_network(rng, n, edges, rng.randrange(1, 7), hist),
                      rng.choice(["", ".x", "_run1", ".c06", "-2"]), path))
    run_roundtrips(ctx, specs, "random")
    # outside the property's domain: the model must fail the way the code fails
    bad = []
    s = spec_network(rng, 0, [], 2, [])
    bad.append((s, ".bad", ""))
    s = spec_network(rng, 3, [(0, 1)], 2, [(0, 1)])
    s["minima"][1] = (s["minima"][1][0] + [0.5], s["minima"][1][1])
    bad.append((s, ".bad", ""))
    s = spec_network(rng, 2, [(0, 1)], 2, [])
    s["ts"][0] = (0, 1, [0.25], 1.0)
    bad.append((s, ".bad", ""))
    run_roundtrips(ctx, bad, "malformed")


# ----------------------------------------------------------------------------- a read that fails


def snapshot(k) -> tuple:
    """everything a network holds, by value"""
    return (int(k.n_minima), int(k.n_ts),
            tuple(sorted((int(i), np.asarray(d["coords"], dtype=float).tobytes(), np.asarray(d["coords"]).shape,
                          float(d["energy"])) for i, d in k.G.nodes(data=True))),
            tuple(sorted((min(int(u), int(v)), max(int(u), int(v)), np.asarray(d["coords"], dtype=float).tobytes(),
                          float(d["energy"])) for u, v, d in k.G.edges(data=True))),
            tuple(map(tuple, np.asarray(k.pairlist, dtype=int).reshape(-1, 2).tolist())))


def failed_read_case(rng, missing: str | None = None, into_fresh: bool | None = None):
    """A restart that meets an incomplete checkpoint (one of the five tables missing — `dump_network` writes them one
    after the other, the shipped restart example keeps its history under another name): `read_network` raises, the
    caller catches the error and carries on with the same object — with what it held (an explored network), or, for
    a fresh object, by falling back to an older checkpoint.  Returns (what went wrong | None, replay data, the object
    after the whole sequence, the spec it must now equal)."""
    na, nb = rng.choice([2, 3, 4, 6]), rng.choice([1, 2, 3, 5])
    def net(n):
        allp = [(u, v) for u in range(n) for v in range(u, n)]
        return spec_network(rng, n, rng.sample(allp, min(len(allp), rng.choice([1, 2, 3]))), 2,
                            [(rng.randrange(n), rng.randrange(n)) for _ in range(rng.choice([1, 2, 4]))])
    spec_a, spec_b = net(na), net(nb)
    missing = missing or rng.choice(TABLE_FILES)
    into_fresh = rng.random() < 0.5 if into_fresh is None else into_fresh
    rep = {"failed_read": {"a": to_hex(spec_a), "b": to_hex(spec_b), "missing": missing, "into_fresh": into_fresh}}
    return failed_read_run(spec_a, spec_b, missing, into_fresh) + (rep,)


def failed_read_run(spec_a: dict, spec_b: dict, missing: str, into_fresh: bool):
    ka, kb = build(spec_a), build(spec_b)
    ka.dump_network(".latest")
    kb.dump_network(".previous")
    os.remove(missing + ".latest")
    try:
        k = K() if into_fresh else build(spec_b)
        before = snapshot(k)
        raised = None
        try:
            with warnings.catch_warnings():
                warnings.simplefilter("ignore")
                k.read_network(text_string=".latest")
        except Exception as e:  # noqa: BLE001
            raised = type(e).__name__
        if raised is None:
            return (f"read_network accepted a checkpoint without its {missing} table", k, spec_b)
        if snapshot(k) != before:
            after = snapshot(k)
            return (f"read_network raised {raised} on a checkpoint whose {missing} table is missing, but the object is no "
                    f"longer what it was: n_minima {before[0]} -> {after[0]}, n_ts {before[1]} -> {after[1]}, minima held in "
                    f"the graph {len(before[2])} -> {len(after[2])}, transition states {len(before[3])} -> {len(after[3])}, "
                    f"history rows {len(before[4])} -> {len(after[4])}", k, spec_b)
        if into_fresh:
            k.read_network(text_string=".previous")            # the fallback of the restart script
            want = build(spec_b)
            got, ref = snapshot(k), snapshot(want)
            # energies are written with five decimals: compare the rest exactly, energies to that rounding
            same = got[0] == ref[0] and got[1] == ref[1] and got[4] == ref[4] and \
                [x[:3] for x in got[2]] == [x[:3] for x in ref[2]] and [x[:3] for x in got[3]] == [x[:3] for x in ref[3]] and \
                all(abs(a[3] - b[3]) <= 5.0000001e-6 for a, b in zip(got[2], ref[2])) and \
                all(abs(a[3] - b[3]) <= 5.0000001e-6 for a, b in zip(got[3], ref[3]))
            if not same:
                return (f"after a refused read of an incomplete checkpoint ({missing} missing, {raised}) the fallback read of "
                        f"the older checkpoint gives n_minima {got[0]}, n_ts {got[1]}, {len(got[2])} minima and {len(got[3])} "
                        f"transition states in the graph; the checkpoint holds {ref[0]} minima and {ref[1]} transition states",
                        k, spec_b)
        return (None, k, spec_b)
    finally:
        for f in TABLE_FILES:
            for sfx in (".latest", ".previous"):
                if os.path.exists(f + sfx):
                    os.remove(f + sfx)


# ----------------------------------------------------------------------------- direct predicates


def look_at_landscape(k, seed: int) -> None:
    """read-only analyses a script runs between sampling and saving (examples/…/restart_landscape plots the
    disconnectivity graph after every round); all of them are pure functions of the network"""
    from topsearch.analysis import batch_selection as bs, graph_properties as gp, roughness
    from topsearch.plotting.disconnectivity import get_connectivity_graph
    r = random.Random(seed)
    es = [float(k.get_ts_energy(u, v)) for u, v in k.G.edges()] + [float(k.get_minimum_energy(i)) for i in range(k.n_minima)]
    top, low = max(es), min(es)
    for what in r.sample(["hierarchy", "batch", "height", "rough"], 3):
        try:
            if what == "hierarchy":
                get_connectivity_graph(k, low + r.choice([0.3, 0.6, 1.05]) * (top - low + 1.0), low - 0.5, r.choice([1, 3, 7]))
            elif what == "batch":
                excl = sorted(r.sample(range(k.n_minima), r.randrange(0, max(1, k.n_minima))))
                bs.select_batch(k, r.choice([1, 2, 3]), r.choice(["Barrier", "Topographical", "Monotonic", "Lowest"]),
                                r.random() < 0.5, r.choice([0.05, 0.5]), excl)
            elif what == "height":
                gp.disconnected_height(k, 0, k.n_minima - 1, low + 0.5 * (top - low), top - low + 1.0)
            else:
                roughness.roughness_metric(k)
        except Exception:  # noqa: BLE001
            pass


def predicate(spec: dict, suffix: str = ".p", path: str = "") -> tuple[str, str] | None:
    """the statement on the real code: dump, read into an empty network, compare"""
    cls = ("single-minimum" if spec["n"] == 1 else "single-ts" if len(spec["ts"]) == 1 else
           "1d-coordinates" if spec["k"] == 1 else "no-ts" if not spec["ts"] else
           "empty-history" if not spec["hist"] else "general")
    k = build(spec)
    # a network is saved at any point of its life: after edits as well (a self-connection added, a minimum removed)
    for op in spec.get("edits", []):
        if op[0] == "addts" and k.n_minima > max(op[1], op[2]):
            k.add_ts(np.full(spec["k"], 0.25 * (1 + op[1])), 3.5 + op[2], op[1], op[2])
        elif op[0] == "rmmin" and k.n_minima > op[1] and k.n_minima >= 2:
            k.remove_minimum(op[1])
        elif op[0] == "rmtss":
            # pruning with a selection that may name a transition state twice or a pair that has none: whatever the
            # call does (networkx refuses the second removal), the network is saved afterwards
            try:
                k.remove_tss([tuple(p) for p in op[1]])
            except Exception:  # noqa: BLE001
                pass
    if spec.get("edits"):
        spec = dict(spec, n=k.n_minima, hist=[tuple(int(x) for x in r) for r in np.asarray(k.pairlist).reshape(-1, 2)],
                    ts=[(int(u), int(v), None, None) for u, v in k.G.edges()])
    # what the network holds now is what has to come back — also when the script looks at the landscape (a zoomed
    # disconnectivity hierarchy, a batch selection with excluded minima, a barrier height) before it saves it
    expected_edges = {frozenset((int(u), int(v))) for u, v in k.G.edges()}
    if spec.get("analyses") and k.n_minima >= 1:
        try:
            look_at_landscape(k, spec["analyses"])
        except Exception:  # noqa: BLE001 - an analysis that does not apply to this network is not the point here
            pass
    outcome, k2 = roundtrip(k, suffix, path)
    if outcome != "ok":
        return f"roundtrip:{cls}:raises", f"dump/read of a network with {spec['n']} minima, {len(spec['ts'])} " \
            f"transition states, dimension {spec['k']}, {len(spec['hist'])} history entries: {outcome}"
    if k2.n_minima != k.n_minima or sorted(int(x) for x in k2.G.nodes) != list(range(k.n_minima)):
        return f"roundtrip:{cls}:numbering", f"minima {sorted(k2.G.nodes)} / n_minima {k2.n_minima}, dumped {k.n_minima}"
    for i in range(k.n_minima):
        c2 = np.asarray(k2.get_minimum_coords(i))
        if c2.shape != k.get_minimum_coords(i).shape or not np.array_equal(c2, k.get_minimum_coords(i)):
            return f"roundtrip:{cls}:coords", f"minimum {i}: coordinates {c2!r} were {k.get_minimum_coords(i)!r}"
        if abs(float(k2.get_minimum_energy(i)) - k.get_minimum_energy(i)) > 5.0000001e-6:
            return f"roundtrip:{cls}:energy", f"minimum {i}: energy {k2.get_minimum_energy(i)!r} was {k.get_minimum_energy(i)!r}"
    e1 = expected_edges
    e2 = {frozenset((int(u), int(v))) for u, v in k2.G.edges()}
    if e1 != e2 or k2.n_ts != k.n_ts or k2.n_ts != len(e2):
        return f"roundtrip:{cls}:ts-pairs", f"transition states on {sorted(map(sorted, e2))} (n_ts={k2.n_ts}), dumped " \
            f"{sorted(map(sorted, e1))} (n_ts={k.n_ts})"
    for u, v in k.G.edges():
        c2 = np.asarray(k2.get_ts_coords(u, v))
        if c2.shape != k.get_ts_coords(u, v).shape or not np.array_equal(c2, k.get_ts_coords(u, v)):
            return f"roundtrip:{cls}:ts-coords", f"transition state {u}-{v}: coordinates {c2!r} were {k.get_ts_coords(u, v)!r}"
        if abs(float(k2.get_ts_energy(u, v)) - k.get_ts_energy(u, v)) > 5.0000001e-6:
            return f"roundtrip:{cls}:ts-energy", f"transition state {u}-{v}: energy {k2.get_ts_energy(u, v)!r} was {k.get_ts_energy(u, v)!r}"
    pl = np.asarray(k2.pairlist)
    if pl.ndim != 2 or pl.shape[1] != 2 or [tuple(int(x) for x in r) for r in pl] != [tuple(p) for p in spec["hist"]]:
        return f"roundtrip:{cls}:history", f"history restored with shape {pl.shape}, content {pl.tolist()}; dumped {spec['hist']}"
    return None


def predicates(ctx: Ctx) -> None:
    rng = ctx.rng
    corpus = [("single-minimum", (1, [], 2, [])), ("single-minimum-1d", (1, [], 1, [(0, 0)])),
              ("single-ts", (2, [(0, 1)], 2, [])), ("single-self-ts", (1, [(0, 0)], 3, [(0, 0)])),
              ("1d-coordinates", (3, [(0, 1), (1, 2)], 1, [(0, 2), (1, 2)])),
              ("no-ts-empty-history", (2, [], 3, [])), ("single-history-entry", (3, [(0, 1), (0, 2)], 2, [(1, 2)]))]
    for name, (n, edges, k, hist) in corpus:
        spec = spec_network(random.Random(7), n, edges, k, hist)
        r = predicate(spec)
        ctx.stats.case({"stream": "predicate-corpus", "name": name}, True)
        if r:
            ctx.fail(r[0], r[1], {"spec": to_hex(spec), "suffix": ".p", "path": ""})
    for suffix in (".gz", ".bz2", ".xz", "", ".dataset1", ".metadata", "_coords"):
        for name, (n, edges, k, hist) in corpus[-3:]:
            spec = spec_network(random.Random(11), n, edges, k, hist)
            r = predicate(spec, suffix, "")
            ctx.stats.case({"stream": "predicate-corpus-suffix", "name": name, "suffix": suffix}, True)
            if r:
                ctx.fail(r[0], r[1], {"spec": to_hex(spec), "suffix": suffix, "path": ""})
    # an incomplete checkpoint is refused as a whole; what is read next (the older checkpoint) is reproduced
    for i in range(ctx.scale(10, 60)):
        why, _k, _spec, rep = failed_read_case(rng, missing=TABLE_FILES[i % 5] if i < 10 else None, into_fresh=(i % 2 == 0) if i < 10 else None)
        ctx.stats.case({"stream": "predicate-failed-read", "missing": rep["failed_read"]["missing"],
                        "into_fresh": rep["failed_read"]["into_fresh"]}, True)
        if why:
            ctx.fail("roundtrip:after-refused-read", why, rep)
            break
    count = ctx.scale(60, 400) * (5 if getattr(ctx, "deep_search", False) else 1)
    for i in range(count):
        n = rng.choice([1, 1, 2, 2, 3, 4, 6, 9])
        allpairs = [(u, v) for u in range(n) for v in range(u, n)]
        edges = rng.sample(allpairs, min(len(allpairs), rng.choice([0, 1, 1, 2, 3, 5])))
        hist = [(rng.randrange(n), rng.randrange(n)) for _ in range(rng.choice([0, 0, 1, 2, 4]))]
        spec = spec_network(rng, n, edges, rng.choice([1, 1, 2, 3, 5]), hist)
        # numpy's text I/O (de)compresses transparently on these suffixes, so they are legitimate names too
        suffix, path = rng.choice(["", ".p", "_b", ".p", "_b", ".gz", ".r2.bz2", ".xz", ".dataset1", "_coords2", ".min.data"]), \
            rng.choice(["", "", "pd/", "pd/", "run1_", "archive/old_"])
        if rng.random() < 0.3 and n >= 2:
            i = rng.randrange(n)
            spec["edits"] = [("addts", i, i), ("rmmin", i)] if rng.random() < 0.6 else [("rmmin", i)]
        elif rng.random() < 0.3 and edges:
            sel = [list(rng.choice(edges)) for _ in range(rng.randrange(1, 4))]
            sel += [[p[1], p[0]] for p in sel if rng.random() < 0.5]          # the same transition state named again
            if rng.random() < 0.4:
                sel.append([rng.randrange(n), rng.randrange(n)])             # possibly a pair without one
            rng.shuffle(sel)
            spec["edits"] = [("rmtss", sel)]
        if rng.random() < 0.35 and "edits" not in spec:
            spec["analyses"] = rng.randrange(1, 10**6)
        r = predicate(spec, suffix, path)
        ctx.stats.case({"stream": "predicate-random", "n": n, "m": len(edges), "k": spec["k"], "h": len(hist)}, True)
        if r:
            ctx.fail(r[0], r[1], {"spec": to_hex(spec), "suffix": suffix, "path": path})


def replay(ctx: Ctx, data: dict) -> bool:
    if "failed_read" in data:
        d = data["failed_read"]
        why = failed_read_run(from_hex(d["a"]), from_hex(d["b"]), d["missing"], d["into_fresh"])[0]
        if why:
            print(f"  roundtrip:after-refused-read: {why}")
        return why is None
    if "spec" not in data:
        c2 = Ctx(PROP, ctx.tier, int(data.get("seed", 0)))
        c2.scratch = ctx.scratch
        correspond(c2)
        predicates(c2)
        for f in c2.failures:
            print(f"  {f.key}: {f.what}")
        return not c2.failures
    r = predicate(from_hex(data["spec"]), data.get("suffix", ".p"), data.get("path", ""))
    if r:
        print(f"  {r[0]}: {r[1]}")
    return r is None
