"""C13 — the attempt history is complete, bounded and keeps pointing at the same minima.

Tie #1: translate.history reads the decision kernel of check_pair, what run_connection_attempts
appends, how remove_minimum rewrites the history and how add_network maps it into
Gen/History.lean (bridge lemmas in Props/C13.lean).
Tie #2: the REAL NetworkSampling.run_connection_attempts (serial and multiprocessing mode) with
call-recording scripted searches, interleaved with the real remove_minimum / remove_minima /
bounds pruning / add_network / dump+read / reset, against Model/History through
Drivers/History.lean: history, numbering, and the list of calls that reached the double-ended
search (with the `repeats` argument) after every operation.
"""
from __future__ import annotations

import itertools
import os
import random
import warnings

import numpy as np

from common import Ctx, run_driver
from translate import history as tr_history
from translate import ktn_cfg

PROP = "C13"
LEAN_MODULE = "TopSearch.Props.C13"
LEAN_FILES = ["TopSearch.Props.C13", "TopSearch.Lemmas.History", "TopSearch.Model.History",
              "TopSearch.Gen.History", "TopSearch.Model.Ktn", "TopSearch.Lemmas.Ktn"]
EXTRA_TARGETS = ["TopSearch.Gen.History", "TopSearch.Gen.Ktn", "TopSearch.Model.History"]
REQUIRED = [
    "TopSearch.Props.C13.C13_bridge_kernel",
    "TopSearch.Props.C13.C13_bridge_cfg",
    "TopSearch.Props.C13.C13_bridge_remove",
    "TopSearch.Props.C13.C13_recorded",
    "TopSearch.Props.C13.C13_check_pair_iff",
    "TopSearch.Props.C13.C13_searched_serial",
    "TopSearch.Props.C13.C13_searched_parallel",
    "TopSearch.Props.C13.C13_remove_tracks",
    "TopSearch.Props.C13.C13_removeMinima_tracks",
    "TopSearch.Props.C13.C13_merge_tracks",
    "TopSearch.Props.C13.C13_history_tracks_identities",
    "TopSearch.Props.C13.C13_history_sorted_valid",
    "TopSearch.Props.C13.C13_not_tracked_without_renumbering",
    "TopSearch.Props.C13.C13_not_tracked_without_mapping",
]
RULE = ("cases = (network + history state, operation) transitions compared model-vs-implementation "
        "after the operation (round serial/parallel, remove_minimum, remove_minima, bounds pruning, "
        "add_network, dump+read, reset, growth) plus every (pair, repeat count, connected?) "
        "combination of check_pair on 3 minima; a case is non-trivial when the operation is accepted "
        "and the history is non-empty before or after it; distinct = distinct canonical "
        "(state, op, answer) triples")
ASSUMPTIONS = [
    "what the similarity gate does with a search outcome (test_new_ts / test_new_minimum) is an "
    "input of the model: the store operations it performed are observed on the real network and "
    "replayed (the gate itself is the subject of C03/C05)",
    "the index each minimum of a merged network receives (index_map) is an input `φ` of the model; "
    "the harness computes it independently by bit-identical coordinates",
    "Pool.map preserves input order (C14); np.sort / np.array_equal / np.append on integer rows "
    "behave as sorting / equality / concatenation",
]
PARTIAL = ""
TRUSTED_EXTRA = ["scripted double-/single-ended search objects (harness/props/c13.py) and the "
                 "recording subclass of StandardSimilarity used to observe merges"]

BOX = [(-10.0, 10.0), (-10.0, 10.0)]
warnings.filterwarnings("ignore", message="loadtxt: input contained no data")


def regenerate(ctx: Ctx) -> None:
    ctx.gen_status.update(ktn_cfg.regenerate(["remove_minimum", "remove_minima", "add_minimum", "add_ts", "__init__", "reset_network"]))
    ctx.gen_status.update(tr_history.regenerate())
    from translate import transcripts as _tr
    ctx.gen_status.update(_tr.constructor_wiring(['NetworkSampling']))


# ----------------------------------------------------------------------------- scripted components


class ScriptedDE:
    """double-ended search: records every call through an append-only file (works across forked
    workers: one short O_APPEND write per call) and returns the scripted candidates"""
    force_constant = 1.0

    def __init__(self, chan: str):
        self.chan = chan
        self.script: dict[str, list] = {}

    def run(self, coords, min2, repeats, permutation):
        key = np.asarray(coords.position, dtype=float).tobytes().hex() + ":" + \
            np.asarray(min2, dtype=float).tobytes().hex()
        fd = os.open(self.chan, os.O_WRONLY | os.O_APPEND | os.O_CREAT)
        try:
            os.write(fd, f"{key} {int(repeats)}\n".encode())
        finally:
            os.close(fd)
        cands = self.script.get(key, [])
        return list(range(len(cands))), [np.array(c, dtype=float) for c in cands]


class ScriptedSE:
    """single-ended search: candidate position -> scripted 7-tuple (or failure)"""
    failure = None

    def __init__(self):
        self.script: dict[bytes, tuple] = {}

    def run(self, coords, tag=None):
        out = self.script.get(np.asarray(coords.position, dtype=float).tobytes())
        if out is None:
            self.failure = "steps"
            return None, None, None, None, None, None, None
        return out


def _rec_sim():
    from topsearch.similarity.similarity import StandardSimilarity

    class RecSim(StandardSimilarity):
        """the real StandardSimilarity; test_new_ts additionally logs what it did to the network"""
        events: list = []

        def test_new_ts(self, ktn, *a, **kw):
            n0 = ktn.n_minima
            e0 = {frozenset((int(u), int(v))): ktn.G[u][v]["coords"].tobytes() for u, v in ktn.G.edges()}
            super().test_new_ts(ktn, *a, **kw)
            ops = ["m.x"] * (ktn.n_minima - n0)
            for u, v in ktn.G.edges():
                k = frozenset((int(u), int(v)))
                if e0.get(k) != ktn.G[u][v]["coords"].tobytes():
                    ops.append(f"t.x.{int(u)}.{int(v)}")
            type(self).events.append(("eff", ops))
    return RecSim


RecSim = None


def rec_sim():
    """module-level class (picklable by name: the pool pickles the sampler with its similarity)"""
    global RecSim
    if RecSim is None:
        cls = _rec_sim()
        cls.__name__ = cls.__qualname__ = "RecSim"
        cls.__module__ = __name__
        RecSim = cls
    return RecSim


# ----------------------------------------------------------------------------- implementation side


class World:
    """a real network + sampler; every stationary point ever created has unique coordinates,
    which serve as its immutable identity"""

    def __init__(self, scratch: str, rng: random.Random):
        from topsearch.data.kinetic_transition_network import KineticTransitionNetwork
        from topsearch.data.coordinates import StandardCoordinates
        from topsearch.sampling.exploration import NetworkSampling
        self.rng = rng
        self.K = KineticTransitionNetwork
        self.k = KineticTransitionNetwork()
        self.coords = StandardCoordinates(ndim=2, bounds=BOX)
        self.sim = rec_sim()(0.001, 0.01)
        self.chan = os.path.join(scratch, f"c13-chan-{id(self)}-{rng.randrange(10**9)}")
        self.de = ScriptedDE(self.chan)
        self.se = ScriptedSE()
        self.ns = NetworkSampling(self.k, self.coords, None, self.se, self.de, self.sim)
        self.q = 0                      # identity counter
        self.ident: dict[bytes, int] = {}
        self.H: list[tuple[int, int]] = []   # identity-level history kept by the harness (predicate)
        self.dumps = 0

    # ---- identities
    def fresh(self, at_bound: bool = False, ts: bool = False):
        q = self.q
        self.q += 1
        if at_bound:
            c = np.array([10.0, -9.0 + 0.01 * q])
        else:
            c = np.array([-9.0 + 0.25 * (q % 64), -9.0 + 0.25 * (q // 64)]) + (0.1 if ts else 0.0)
        e = round(0.37 * ((q * 7) % 23) - 3.0 + 0.001 * q, 6)
        if not ts:
            self.ident[c.tobytes()] = q
        return c, e

    def ids(self) -> list[int]:
        return [self.ident.get(self.k.get_minimum_coords(i).tobytes(), -1) for i in range(self.k.n_minima)]

    def state(self) -> str:
        k = self.k
        es = sorted((min(int(u), int(v)), max(int(u), int(v))) for u, v in k.G.edges())
        pl = [f"{int(a)}:{int(b)}" for a, b in np.asarray(k.pairlist).reshape(-1, 2)]
        sl = lambda l: ",".join(l) if l else "-"
        return (f"n={k.n_minima} ts={k.n_ts} edges={sl([f'{a}:{b}' for a, b in es])} pl={sl(pl)}")

    # ---- building
    def addmin(self, at_bound=False) -> str:
        c, e = self.fresh(at_bound)
        self.k.add_minimum(c, e)
        return "addmin x"

    def addts(self, u, v) -> str:
        c, e = self.fresh(ts=True)
        self.k.add_ts(c, e, u, v)
        return f"addts x {u} {v}"

    # ---- one round
    def script_round(self, pairs: list[tuple[int, int]]) -> None:
        """fill the scripts of both searches for the pairs of this round"""
        rng, k = self.rng, self.k
        self.de.script, self.se.script = {}, {}
        n = k.n_minima
        existing_ts = [(int(u), int(v)) for u, v in k.G.edges()]
        for a, b in pairs:
            if a >= n or b >= n:
                continue
            key = k.get_minimum_coords(a).tobytes().hex() + ":" + k.get_minimum_coords(b).tobytes().hex()
            if key in self.de.script:
                continue
            cands = []
            for _ in range(rng.choice([0, 1, 1, 1, 2, 3])):
                kind = rng.choice(["fail", "ab", "ab", "anew", "newnew", "other", "self", "repeat"])
                tc, te = self.fresh(ts=True)
                if kind == "fail":
                    cands.append(tc)
                    continue
                if kind == "repeat" and existing_ts:
                    u, v = rng.choice(existing_ts)
                    tc, te = k.get_ts_coords(u, v).copy(), k.get_ts_energy(u, v)
                    ends = (u, v)
                elif kind == "ab":
                    ends = (a, b)
                elif kind == "anew":
                    ends = (a, None)
                elif kind == "newnew":
                    ends = (None, None)
                elif kind == "self":
                    ends = (a, a)
                else:
                    ends = (rng.randrange(n), rng.randrange(n))
                pts = []
                for x in ends:
                    if x is None:
                        pts.append(self.fresh(at_bound=rng.random() < 0.2))
                    else:
                        pts.append((k.get_minimum_coords(x).copy(), k.get_minimum_energy(x)))
                cands.append(tc)
                self.se.script[tc.tobytes()] = (tc.copy(), te, pts[0][0], pts[0][1], pts[1][0], pts[1][1], -1.0)
            self.de.script[key] = cands

    def round(self, pairs: list[tuple[int, int]], parallel: bool):
        """real run_connection_attempts; returns (model line, searched list, per-pair info)"""
        k = self.k
        self.script_round(pairs)
        ids0 = self.ids()
        coords0 = [k.get_minimum_coords(i).tobytes().hex() for i in range(k.n_minima)]
        idx_of = {c: i for i, c in enumerate(coords0)}
        edges0 = {frozenset((int(u), int(v))) for u, v in k.G.edges()}
        hist0 = [tuple(int(x) for x in r) for r in np.asarray(k.pairlist).reshape(-1, 2)]
        open(self.chan, "w").close()
        type(self.sim).events.clear()
        self.ns.multiprocessing_on = parallel
        self.ns.n_processes = 2 if parallel else None
        # in serial mode the in-process recorder interleaves `run` calls with merge events
        if not parallel:
            orig_run = self.de.run

            def run(coords, min2, repeats, permutation, _o=orig_run, _ev=type(self.sim).events):
                _ev.append(("run", None))
                return _o(coords, min2, repeats, permutation)
            self.de.run = run
        try:
            self.ns.run_connection_attempts([list(p) for p in pairs])
        finally:
            if not parallel:
                del self.de.run
        calls = []
        for ln in open(self.chan).read().split("\n"):
            if ln:
                key, rep = ln.split(" ")
                c1, c2 = key.split(":")
                calls.append((idx_of.get(c1, -1), idx_of.get(c2, -1), int(rep)))
        events = list(type(self.sim).events)
        # attribute merge events to pairs
        effs: list[list[str]] = [[] for _ in pairs]
        if parallel:
            called = {(a, b) for a, b, _ in calls}
            evs = [e[1] for e in events if e[0] == "eff"]
            pos = 0
            for i, (a, b) in enumerate(pairs):
                if (a, b) in called:
                    key = coords0[a] + ":" + coords0[b]
                    nsucc = sum(1 for c in self.de.script.get(key, []) if c.tobytes() in self.se.script)
                    for ops in evs[pos:pos + nsucc]:
                        effs[i] += ops
                    pos += nsucc
            leftover = evs[pos:]
        else:
            # serial: the j-th `run` event belongs to the j-th searched pair, in list order
            order = []
            ci = 0
            for i, (a, b) in enumerate(pairs):
                if ci < len(calls) and calls[ci][0] == a and calls[ci][1] == b:
                    # tentatively: this pair is the next searched one
                    order.append(i)
                    ci += 1
            cur = -1
            leftover = []
            for kind, ops in events:
                if kind == "run":
                    cur += 1
                elif 0 <= cur < len(order):
                    effs[order[cur]] += ops
                else:
                    leftover.append(ops)
        line = ("round " + ("par " if parallel else "ser ") +
                (",".join(f"{a}:{b}" for a, b in pairs) if pairs else "-") + " " +
                (";".join("+".join(e) if e else "-" for e in effs) if pairs else "-"))
        info = {"ids0": ids0, "edges0": edges0, "hist0": hist0, "effs": effs, "leftover": leftover}
        return line, calls, info

    # ---- merge
    def merge(self):
        """real add_network of a second network sharing some minima (bit-identical copies)"""
        rng, k = self.rng, self.k
        other = self.K()
        n_other = rng.randrange(1, 5)
        src = []
        for _ in range(n_other):
            if k.n_minima and rng.random() < 0.55:
                j = rng.randrange(k.n_minima)
                if any(s == j for s in src):
                    j = None
            else:
                j = None
            src.append(j)
        rng.shuffle(src)
        for j in src:
            if j is None:
                c, e = self.fresh(at_bound=rng.random() < 0.15)
            else:
                c, e = k.get_minimum_coords(j).copy(), k.get_minimum_energy(j)
            other.add_minimum(c, e)
        for _ in range(rng.randrange(0, 3)):
            u, v = rng.randrange(n_other), rng.randrange(n_other)
            c, e = self.fresh(ts=True)
            other.add_ts(c, e, u, v)
        oh = []
        for _ in range(rng.randrange(0, 5)):
            a, b = rng.randrange(n_other), rng.randrange(n_other)
            oh.append((min(a, b), max(a, b)))
        other.pairlist = np.array(oh, dtype=int).reshape(-1, 2)
        n0 = k.n_minima
        e0 = {frozenset((int(u), int(v))): k.G[u][v]["coords"].tobytes() for u, v in k.G.edges()}
        k.add_network(other, self.sim, self.coords)
        eff = ["m.x"] * (k.n_minima - n0)
        for u, v in k.G.edges():
            if e0.get(frozenset((int(u), int(v)))) != k.G[u][v]["coords"].tobytes():
                eff.append(f"t.x.{int(u)}.{int(v)}")
        # φ computed independently of index_map: the index holding the bit-identical coordinates
        now = {k.get_minimum_coords(i).tobytes(): i for i in reversed(range(k.n_minima))}
        phi = [now.get(other.get_minimum_coords(i).tobytes()) for i in range(n_other)]
        other_ids = [self.ident.get(other.get_minimum_coords(i).tobytes(), -1) for i in range(n_other)]
        line = ("merge " + ("+".join(eff) if eff else "-") + " " +
                (",".join(f"{a}:{b}" for a, b in oh) if oh else "-") + " " +
                (",".join("x" if p is None else str(p) for p in phi) if phi else "-"))
        return line, oh, other_ids

    def dumpread(self) -> str:
        self.dumps += 1
        suffix = f".c13.{self.dumps}"
        self.k.dump_network(suffix)
        k2 = self.K()
        k2.read_network(text_string=suffix)
        for f in ("min.data", "min.coords", "ts.data", "ts.coords", "pairlist"):
            try:
                os.remove(f + suffix)
            except OSError:
                pass
        self.k = k2
        self.ns.ktn = k2
        return "dumpread"

    def cleanup(self):
        try:
            os.remove(self.chan)
        except OSError:
            pass


# ----------------------------------------------------------------------------- sequences


def gen_pairs(rng, w: World) -> list[tuple[int, int]]:
    n = w.k.n_minima
    if n == 0:
        return []
    out = []
    hist = [tuple(int(x) for x in r) for r in np.asarray(w.k.pairlist).reshape(-1, 2)]
    hist = [p for p in hist if 0 <= min(p) and max(p) < n]     # (a broken history may name missing minima)
    edges = [(int(u), int(v)) for u, v in w.k.G.edges()]
    for _ in range(rng.choice([0, 1, 2, 3, 3, 4, 5, 6])):
        r = rng.random()
        if r < 0.12:
            a = rng.randrange(n); p = (a, a)
        elif r < 0.3 and hist:
            p = rng.choice(hist)
        elif r < 0.42 and edges:
            p = rng.choice(edges)
        elif r < 0.55 and out:
            p = rng.choice(out)
        else:
            p = (rng.randrange(n), rng.randrange(n))
        if rng.random() < 0.5:
            p = (p[1], p[0])
        out.append(p)
    return out


def expected_history(w: World) -> list[list[int]]:
    """the predicate's reference: the identity-level history rendered with the current numbering"""
    ids = w.ids()
    pos = {}
    for i, q in enumerate(ids):
        pos.setdefault(q, i)
    out = []
    for a, b in w.H:
        if a in pos and b in pos:
            out.append(sorted((pos[a], pos[b])))
    return out


def run_sequence(ctx: Ctx, rng, length: int, n_par: int, label: str, predicate_only: bool = False):
    """one random interleaving on a fresh world.  Returns (lines, expected, failures) where
    expected[i] = (impl state, searched or None, op line) and failures are predicate failures."""
    w = World(ctx.scratch, rng)
    lines = ["new"]
    exp = [("ok", None, "new", False)]
    fails = []
    oplog = []

    def push(line, searched=None, ordered=False):
        lines.append(line)
        exp.append((w.state(), searched, line, ordered))
        oplog.append(line)

    def check_pred(kind: str):
        got = [[int(a), int(b)] for a, b in np.asarray(w.k.pairlist).reshape(-1, 2)]
        want = expected_history(w)
        if got != want:
            fails.append((f"history-identities:{kind}",
                          f"after `{oplog[-1][:60]}` the stored history is {got} but the recorded pairs, "
                          f"followed through the renumbering, are {want}", {"ops": list(oplog)}))
        if np.asarray(w.k.pairlist).ndim != 2 or np.asarray(w.k.pairlist).shape[1] != 2:
            fails.append((f"history-shape:{kind}", f"pairlist has shape {np.asarray(w.k.pairlist).shape}",
                          {"ops": list(oplog)}))

    try:
        for _ in range(rng.randrange(2, 7)):
            push(w.addmin(at_bound=rng.random() < 0.15))
        for _ in range(rng.randrange(0, 4)):
            n = w.k.n_minima
            push(w.addts(rng.randrange(n), rng.randrange(n)))
        par_left = n_par
        for _ in range(length):
            n = w.k.n_minima
            r = rng.random()
            if n == 0 or r < 0.06:
                push(w.addmin(at_bound=rng.random() < 0.2))
            elif r < 0.46:
                pairs = gen_pairs(rng, w)
                parallel = par_left > 0 and rng.random() < 0.3
                if parallel:
                    par_left -= 1
                line, calls, info = w.round(pairs, parallel)
                ids_now = w.ids()
                w.H += [(info["ids0"][a], info["ids0"][b]) for a, b in pairs]
                push(line, calls, not parallel)
                fails += round_predicate(pairs, parallel, calls, info, list(oplog))
                if info["leftover"]:
                    fails.append(("round:unattributed-merge", "a search outcome was merged for a pair "
                                  "whose double-ended search was never invoked", {"ops": list(oplog)}))
                check_pred("round-par" if parallel else "round-ser")
            elif r < 0.58:
                kx = rng.randrange(n)
                w.k.remove_minimum(kx)
                push(f"rmmin {kx}")
                check_pred("remove_minimum")
            elif r < 0.66:
                ks = rng.sample(range(n), rng.randrange(0, min(n, 4) + 1))
                w.k.remove_minima(np.array(ks, dtype=int) if rng.random() < 0.5 else list(ks))
                push("rmminima " + (",".join(map(str, ks)) if ks else "-"))
                check_pred("remove_minima")
            elif r < 0.72:
                from topsearch.analysis.minima_properties import get_bounds_minima
                ks = get_bounds_minima(w.k, w.coords)
                w.k.remove_minima(ks)
                push("rmminima " + (",".join(map(str, ks)) if ks else "-"))
                check_pred("bounds-pruning")
            elif r < 0.86:
                line, oh, other_ids = w.merge()
                w.H += [(other_ids[a], other_ids[b]) for a, b in oh]
                push(line)
                check_pred("add_network")
            elif r < 0.97:
                push(w.dumpread())
                check_pred("dump+read")
            else:
                w.k.reset_network()
                w.H = []
                push("reset")
                check_pred("reset")
    finally:
        w.cleanup()
    return lines, exp, fails


def round_predicate(pairs, parallel, calls, info, oplog) -> list:
    """the statement's refusal clause on the real round: a pair reaches the double-ended search
    unless it is a self-pair, already joined by a transition state (serial mode: at the time it
    is attempted), or recorded three or more times before the round"""
    fails = []
    edges = set(info["edges0"])
    hist0 = info["hist0"]
    want = []
    for i, (a, b) in enumerate(pairs):
        cnt = sum(1 for p in hist0 if p == (min(a, b), max(a, b)))
        refused = a == b or frozenset((a, b)) in edges or cnt >= 3
        if not refused:
            want.append((a, b, cnt))
            if not parallel:
                for op in info["effs"][i]:
                    if op.startswith("t."):
                        _, _, u, v = op.split(".")
                        edges.add(frozenset((int(u), int(v))))
    got = list(calls)
    if parallel:
        got, want = sorted(got), sorted(want)
    if got != want:
        mode = "parallel" if parallel else "serial"
        fails.append((f"searched-pairs:{mode}",
                      f"{mode} round over {pairs} with history {hist0}: the double-ended search was "
                      f"invoked for {got}, the statement requires exactly {want} (pair, pair, repeats)",
                      {"ops": oplog}))
    return fails


def compare(ctx: Ctx, label: str, lines, exp) -> None:
    out = run_driver("History", ["cfg gen"] + lines)[1:]
    if len(out) != len(exp):
        ctx.diverge("history-driver-length", f"driver answered {len(out)} lines for {len(exp)}", {})
        return
    seq_start = 0
    for i, ((st, searched, line, ordered), got) in enumerate(zip(exp, out)):
        if line == "new":
            seq_start = i
            continue
        kind = line.split(" ")[0] + (":" + line.split(" ")[1] if line.startswith("round") else "")
        replay = {"ops": lines[seq_start:i + 1]}
        if got in ("guard", "bad-op"):
            ctx.stats.case({"stream": label, "op": line, "answer": got}, False)
            ctx.stats.branch(kind + ":refused")
            ctx.diverge(f"{label}:{kind}:guard", f"the model refuses `{line[:80]}` which the implementation "
                        f"performed ({st})", replay)
            continue
        fields = dict(f.split("=", 1) for f in got.split(" "))
        mstate = f"n={fields['n']} ts={fields['ts']} edges={fields['edges']} pl={fields['pl']}"
        nontrivial = fields["pl"] != "-" or "pl=-" not in st
        ctx.stats.case({"stream": label, "op": line, "state_after": got}, nontrivial)
        ctx.stats.branch(kind)
        if fields["ar"] != fields["pl"]:
            ctx.diverge(f"{label}:{kind}:abstract", f"model-internal: stored history {fields['pl']} is not the "
                        f"rendering {fields['ar']} of the identity-level history after `{line[:80]}`", replay)
        if mstate != st:
            ctx.diverge(f"{label}:{kind}", f"after `{line[:80]}`: implementation {st} / model {mstate}",
                        {**replay, "impl": st, "model": mstate})
        if searched is not None:
            ms = [] if fields.get("searched", "-") == "-" else \
                [tuple(int(x) for x in c.split(":")) for c in fields["searched"].split(",")]
            gs = list(searched)
            if not ordered:
                ms, gs = sorted(ms), sorted(gs)
            ctx.stats.branch(f"{kind}:searched={min(len(gs), 3)}{'+' if len(gs) > 3 else ''}")
            if ms != gs:
                ctx.diverge(f"{label}:{kind}:searched",
                            f"`{line[:80]}`: double-ended search invoked for {gs} (implementation) / {ms} (model)",
                            {**replay, "impl": gs, "model": ms})


def check_pair_exhaustive(ctx: Ctx) -> None:
    """check_pair itself: every (node1, node2) on 3 minima x connected? x 0..4 previous records"""
    from topsearch.data.kinetic_transition_network import KineticTransitionNetwork
    from topsearch.sampling.exploration import NetworkSampling
    lines, exp = [], []
    for a, b in itertools.product(range(3), repeat=2):
        for edge in (False, True):
            for cnt in range(5):
                for other in (0, 2):
                    k = KineticTransitionNetwork()
                    lines.append("new"); exp.append(None)
                    for i in range(3):
                        k.add_minimum(np.array([float(i), 0.5]), float(i))
                        lines.append("addmin x"); exp.append(None)
                    if edge:
                        k.add_ts(np.array([0.25, 0.25]), 1.0, b, a)
                        lines.append(f"addts x {b} {a}"); exp.append(None)
                    hist = [(min(a, b), max(a, b))] * cnt + [((a + 1) % 3, (a + 1) % 3)] * other
                    # a reversed (unsorted) entry must not count: the loop compares with the sorted pair
                    if a != b and other:
                        hist.append((max(a, b), min(a, b)))
                    k.pairlist = np.array(hist, dtype=int).reshape(-1, 2)
                    lines.append("hist " + (",".join(f"{x}:{y}" for x, y in hist) if hist else "-")); exp.append(None)
                    ns = NetworkSampling(k, None, None, None, None, None)
                    allowed, rep = ns.check_pair(a, b)
                    lines.append(f"check {a} {b}")
                    exp.append((f"{1 if allowed else 0} {int(rep)}", {"a": a, "b": b, "edge": edge, "hist": hist}))
    out = run_driver("History", ["cfg gen"] + lines)[1:]
    for e, got, line in zip(exp, out, lines):
        if e is None:
            continue
        want, info = e
        ctx.stats.case({"stream": "check_pair", **info, "answer": got}, True)
        ctx.stats.branch("check_pair:" + got.split(" ")[0])
        if got != want:
            ctx.diverge("check_pair", f"check_pair({info['a']},{info['b']}) connected={info['edge']} "
                        f"history={info['hist']}: implementation {want} / model {got}", info)


def correspond(ctx: Ctx) -> None:
    rng = ctx.rng
    check_pair_exhaustive(ctx)
    nseq = ctx.scale(50, 300)
    par_budget = ctx.scale(24, 120)
    lines, exp = [], []
    pred_fails = []
    for s in range(nseq):
        npar = 2 if par_budget > 0 else 0
        l, e, f = run_sequence(ctx, rng, ctx.scale(14, 24), npar, "random")
        par_budget -= sum(1 for x in l if x.startswith("round par"))
        lines += l
        exp += e
        pred_fails += f
    compare(ctx, "random", lines, exp)
    ctx._c13_pred_fails = pred_fails
    # malformed stream: removal of a minimum that does not exist
    from topsearch.data.kinetic_transition_network import KineticTransitionNetwork
    lines = ["new", "addmin x", "addmin x", "rmmin 5", "rmminima 0,7"]
    out = run_driver("History", ["cfg gen"] + lines)[1:]
    for ln, got in zip(lines[3:], out[3:]):
        k = KineticTransitionNetwork()
        k.add_minimum(np.zeros(2), 0.0); k.add_minimum(np.ones(2), 1.0)
        try:
            if ln.startswith("rmmin "):
                k.remove_minimum(5)
            else:
                k.remove_minima([0, 7])
            raised = False
        except Exception:
            raised = True
        ctx.stats.case({"stream": "malformed", "op": ln, "answer": got}, False)
        ctx.stats.branch("malformed")
        if raised != (got == "guard"):
            ctx.diverge("malformed:" + ln.split(" ")[0], f"`{ln}`: implementation raised={raised}, model {got}", {})


# ----------------------------------------------------------------------------- direct predicates


def corpus_cases() -> list:
    """(name, failure-or-None) for the past failures: removal renumbering, merge mapping, the
    save/restore shapes of the history"""
    from topsearch.data.kinetic_transition_network import KineticTransitionNetwork
    from topsearch.data.coordinates import StandardCoordinates
    from topsearch.similarity.similarity import StandardSimilarity
    out = []
    k = KineticTransitionNetwork()
    for i in range(4):
        k.add_minimum(np.array([float(i), 0.0]), float(i))
    k.pairlist = np.array([[0, 1], [2, 3], [1, 3]])
    k.remove_minimum(1)
    got = np.asarray(k.pairlist).reshape(-1, 2).tolist()
    out.append(("corpus:remove-renumber", None if got == [[1, 2]] else (
        "history-identities:remove_minimum",
        f"history [[0,1],[2,3],[1,3]], remove_minimum(1): stored history is {got}, the surviving "
        f"entry (minima formerly 2,3) must read [[1, 2]]", {"case": "remove-renumber"})))
    a, b = KineticTransitionNetwork(), KineticTransitionNetwork()
    a.add_minimum(np.array([5.0, 5.0]), 1.0); a.add_minimum(np.array([0.0, 0.0]), 0.0)
    b.add_minimum(np.array([0.0, 0.0]), 0.0); b.add_minimum(np.array([2.0, 2.0]), 0.5)
    b.pairlist = np.array([[0, 1]])
    a.add_network(b, StandardSimilarity(0.1, 0.1), StandardCoordinates(ndim=2, bounds=[(-9.0, 9.0)] * 2))
    got = np.asarray(a.pairlist).reshape(-1, 2).tolist()
    out.append(("corpus:merge-mapping", None if got == [[1, 2]] else (
        "history-identities:add_network",
        f"merge of a network whose minima 0,1 become 1,2 here with history [[0,1]]: stored history is "
        f"{got}, must read [[1, 2]]", {"case": "merge-mapping"})))
    for hist in ([], [[0, 0]], [[0, 1], [0, 1]]):
        k = KineticTransitionNetwork()
        k.add_minimum(np.array([0.5, 1.5]), 1.0); k.add_minimum(np.array([2.5, 1.0]), 2.0)
        k.pairlist = np.array(hist, dtype=int).reshape(-1, 2)
        try:
            k.dump_network(".c13corpus")
            k2 = KineticTransitionNetwork()
            k2.read_network(text_string=".c13corpus")
            pl = np.asarray(k2.pairlist)
            ok = pl.ndim == 2 and pl.shape[1] == 2 and pl.tolist() == hist
            what = f"restored history has shape {pl.shape}, content {pl.tolist()}"
        except Exception as e:
            ok, what = False, f"{type(e).__name__}: {e}"
        out.append((f"corpus:save-restore-{len(hist)}", None if ok else (
            "history-identities:dump+read", f"history {hist} saved and restored: {what}",
            {"case": f"save-restore-{len(hist)}"})))
    return out


def refused_restore(ctx: Ctx) -> None:
    """an explored network (with its attempt history) on which a restore from an incomplete checkpoint is refused: the
    history must go on naming the same minima, i.e. the object is what it was (the refusal itself is fine)"""
    from props import c06
    for i in range(ctx.scale(6, 30)):
        why, _k, _spec, rep = c06.failed_read_case(ctx.rng, missing=c06.TABLE_FILES[i % 5] if i < 5 else None, into_fresh=False)
        ctx.stats.case({"stream": "predicate-refused-restore", "missing": rep["failed_read"]["missing"]}, True)
        if why:
            ctx.fail("history:after-refused-restore", "the recorded pairs no longer name the minima they were recorded for: "
                     + why, rep)
            return


def predicates(ctx: Ctx) -> None:
    refused_restore(ctx)
    for name, fail in corpus_cases():
        ctx.stats.case({"stream": "predicate-corpus", "name": name}, True)
        if fail:
            ctx.fail(fail[0], fail[1], fail[2])
    # the identity predicate was evaluated alongside the correspondence sequences
    for key, what, rep in getattr(ctx, "_c13_pred_fails", []):
        ctx.fail(key, what, rep)
    n = ctx.scale(10, 60) * (5 if getattr(ctx, "deep_search", False) else 1)
    for _ in range(n):
        seed = ctx.rng.randrange(2 ** 31)
        _, exp, fails = run_sequence(ctx, random.Random(seed), ctx.scale(14, 24), 1, "predicate")
        ctx.stats.case({"stream": "predicate-random", "seed": seed, "ops": len(exp)}, True)
        for key, what, rep in fails:
            ctx.fail(key, what, {**rep, "sequence_seed": seed, "length": ctx.scale(14, 24)})


def replay(ctx: Ctx, data: dict) -> bool:
    ok = True
    if "failed_read" in data:
        from props import c06
        return c06.replay(ctx, data)
    if "case" in data:
        for name, fail in corpus_cases():
            if fail and fail[2].get("case") == data["case"]:
                print(f"  {fail[0]}: {fail[1]}")
                ok = False
        return ok
    if "sequence_seed" in data:
        _, _, fails = run_sequence(ctx, random.Random(int(data["sequence_seed"])),
                                   int(data.get("length", 14)), 1, "replay")
        for key, what, _ in fails:
            print(f"  {key}: {what}")
        return not fails
    # a failure found alongside the correspondence: re-run the generators with the recorded seed
    c2 = Ctx(PROP, ctx.tier, int(data.get("seed", 0)))
    c2.scratch = ctx.scratch
    correspond(c2)
    predicates(c2)
    for f in c2.failures:
        print(f"  {f.key}: {f.what}")
    return not c2.failures
