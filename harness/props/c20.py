"""C20 — moves respect their limits and act rigidly; box predicates are exact.

Tie #1: translate.moves reads the boolean expression of check_bounds, the two comparisons of
active_bounds, the argument order of np.clip, np.any/np.all, the perturbation formulas (`0.5`,
proportional step), `range(1, int(ndim/3))`, `(rand*2.0)-1.0`, the entries of get_rotation_matrix and
the transpose in rotate_dihedral into Gen/Moves.lean (bridge lemmas C20_bridge_* in Props/C20.lean).
Tie #2: (a) pure, exact: the real StandardCoordinates predicates on dyadic positions (every
combination of below / on-lower / inside / on-upper / above per coordinate in low dimension, random
in higher); (b) scripted, exact: StandardPerturbation, AtomicPerturbation and the angle of
MolecularPerturbation with `np.random.rand` / `random.sample` / `random.random` replaced from outside
(and restored) so that model and code see the same draws, including u = 0 and u just below 1;
(c) trace-driven, tolerance 1e-9: rotate_dihedral / rotate_angle / change_bond_length on every
molecule of tests/test_data with the rotation matrices scipy returned fed to the model.
"""
from __future__ import annotations

import glob
import math
import os
import random as pyrandom
from contextlib import contextmanager
from fractions import Fraction

import numpy as np

from common import Ctx, REPO, frac, run_driver
from translate import moves as tr_moves

PROP = "C20"
LEAN_MODULE = "TopSearch.Props.C20"
LEAN_FILES = ["TopSearch.Props.C20", "TopSearch.Model.Moves"]
EXTRA_TARGETS = ["TopSearch.Gen.Moves"]
_T = "TopSearch.Props.C20."
REQUIRED = [_T + n for n in [
    "C20_bridge_box", "C20_bridge_steps", "C20_bridge_sample", "C20_bridge_rotation",
    "C20_std_step", "C20_atomic_move", "C20_rotation_rigid", "C20_dihedral_bonds",
    "C20_dihedral_move_is_rigid", "C20_bond_length_rigid", "C20_angle_rigid", "C20_box_predicates",
    "C20_box_predicates_lists", "C20_molecular_angle_range",
]]
RULE = ("cases = one call of a predicate / move on the real class compared with the model: exact "
        "comparison for box predicates and scripted displacements (dyadic inputs), 1e-9 for the "
        "trace-driven rigid moves; non-trivial = the answer is not constant (some coordinate on or "
        "outside a bound, some atom moved); distinct = distinct (operation, input)")
ASSUMPTIONS = [
    "np.random.rand and random.random return values in [0,1) (hypothesis 0 <= u < 1 of the theorems)",
    "random.sample returns distinct members of the population it is given (hypothesis Nodup + range)",
    "Kabsch: scipy's align_vectors / from_rotvec / from_matrix return orthogonal matrices, and the "
    "alignment maps the bond direction onto the x axis (validated per run to 1e-9)",
    "cos/sin: c^2 + s^2 = 1 (hypothesis of the rotation theorems; np.cos/np.sin to rounding)",
    "the moved set is what get_movable_atoms returns (a networkx computation, input of the model); the "
    "hypothesis of C20_dihedral_bonds on it (every reference bond has both ends moved, both fixed, or "
    "one end on the axis) is evaluated on every rotatable dihedral of the test molecules per run",
    "boxes have lo <= hi (DESIGN 4.0); exact arithmetic in the theorems, IEEE rounding observed only",
]
PARTIAL = ("rigidity of the real molecular moves is a theorem about exact orthogonal matrices; the "
           "floating-point moves are compared with the model to 1e-9 (numeric, Kabsch contract)")
TRUSTED_EXTRA = ["oracle contracts: np.random.rand/random.random in [0,1), random.sample distinct, "
                 "Kabsch/orthogonality of scipy rotations (validated per run)"]


def regenerate(ctx: Ctx) -> None:
    ctx.gen_status.update(tr_moves.regenerate())
    from translate import transcripts as _tr
    ctx.gen_status.update(_tr.constructor_wiring(['StandardPerturbation', 'AtomicPerturbation', 'MolecularPerturbation']))


# ----------------------------------------------------------------------------- helpers


@contextmanager
def patched(obj, name, value):
    old = getattr(obj, name)
    setattr(obj, name, value)
    try:
        yield
    finally:
        setattr(obj, name, old)


def fl(xs) -> str:
    xs = list(xs)
    return ",".join(frac(float(x)) for x in xs) if xs else "-"


def il(xs) -> str:
    xs = list(xs)
    return ",".join(str(int(x)) for x in xs) if xs else "-"


def std_coords(lo, hi, x):
    from topsearch.data.coordinates import StandardCoordinates
    st = np.random.get_state()
    c = StandardCoordinates(ndim=len(lo), bounds=list(zip(lo, hi)))
    np.random.set_state(st)
    c.position = np.array(x, dtype=float)
    return c


def mask(a) -> str:
    a = np.asarray(a).reshape(-1)
    return ",".join("1" if bool(v) else "0" for v in a) if a.size else "-"


CLASSES = ["below", "on-lo", "inside", "on-hi", "above"]


def place(cls: str, lo: float, hi: float, rng) -> float:
    if cls == "below":
        return lo - rng.choice([0.125, 1.0, 2.0 ** -20])
    if cls == "on-lo":
        return lo
    if cls == "on-hi":
        return hi
    if cls == "above":
        return hi + rng.choice([0.125, 1.0, 2.0 ** -20])
    if hi == lo:
        return lo
    return lo + (hi - lo) * rng.choice([0.5, 0.25, 2.0 ** -10, 1 - 2.0 ** -10])


def random_box(rng, d: int):
    lo = [rng.randrange(-32, 32) / 4.0 for _ in range(d)]
    hi = [l + rng.choice([0.0, 0.25, 1.0, 2.5, 8.0]) if rng.random() < 0.15 else l + rng.randrange(1, 40) / 4.0
          for l in lo]
    return lo, hi


def box_answers(c) -> dict[str, str]:
    """the five predicates of the real class on its current position"""
    out = {}
    out["check"] = mask(c.check_bounds())
    out["at"] = "1" if bool(c.at_bounds()) else "0"
    out["all"] = "1" if bool(c.all_bounds()) else "0"
    b, a = c.active_bounds()
    out["active"] = mask(b) + "|" + mask(a)
    before = c.position.copy()
    c.move_to_bounds()
    out["clip"] = fl(c.position)
    c.position = before
    return out


# ----------------------------------------------------------------------------- molecules


_MOLS: dict = {}


def molecules() -> dict:
    """every molecule of tests/test_data that ase can read (as in tests/data/test_coordinates.py)"""
    if _MOLS:
        return _MOLS
    import ase.io
    from topsearch.data.coordinates import MolecularCoordinates
    for f in sorted(glob.glob(str(REPO / "tests" / "test_data" / "*.xyz"))):
        try:
            atoms = ase.io.read(f)
            c = MolecularCoordinates(atoms.get_chemical_symbols(), atoms.get_positions().flatten())
        except Exception:
            continue
        if c.n_atoms >= 2 and c.reference_bonds.number_of_edges() > 0:
            _MOLS[os.path.basename(f)] = (atoms.get_chemical_symbols(), atoms.get_positions().flatten())
    # a class of molecule the test data lack: a non-planar ring with a BARE heteroatom (tetrahydrofuran; a standard
    # force-field geometry).  Rotatable ring bonds whose second atom carries no substituent have an EMPTY fragment.
    _MOLS["thf-embedded"] = (list(THF[0]), np.array(THF[1], dtype=float).flatten())
    return _MOLS


THF = (["C", "C", "C", "O", "C", "H", "H", "H", "H", "H", "H", "H", "H"],
       [[-0.389383, 0.951639, -0.258458], [0.963470, 0.419805, 0.139736], [0.803406, -1.062808, -0.117457],
        [-0.576345, -1.376838, 0.119188], [-1.310470, -0.148525, 0.222318], [-0.447249, 1.037626, -1.349999],
        [-0.625084, 1.926695, 0.175601], [1.792936, 0.863201, -0.417114], [1.131943, 0.598049, 1.208403],
        [1.027981, -1.310741, -1.160361], [1.437653, -1.673420, 0.531207], [-1.580095, -0.008217, 1.274540],
        [-2.228761, -0.216465, -0.367603]])


def fresh(name: str):
    from topsearch.data.coordinates import MolecularCoordinates
    sym, pos = molecules()[name]
    return MolecularCoordinates(list(sym), pos.copy())


class RotProxy:
    """stands in for `scipy.spatial.transform.Rotation` inside topsearch.data.coordinates: delegates
    and records the matrices (trace-driven correspondence)"""

    def __init__(self, real):
        self.real = real
        self.aligned = []
        self.rotvec = []

    def align_vectors(self, a, b, *args, **kw):
        r = self.real.align_vectors(a, b, *args, **kw)
        self.aligned.append((np.array(r[0].as_matrix()).reshape(3, 3), np.array(b, dtype=float).reshape(3)))
        return r

    def from_rotvec(self, v, *args, **kw):
        r = self.real.from_rotvec(v, *args, **kw)
        self.rotvec.append(np.array(r.as_matrix()).reshape(3, 3))
        return r

    def __getattr__(self, k):
        return getattr(self.real, k)


def move_cases(rng, name: str, per_kind: int):
    """(kind, args) for one molecule: dihedrals first (all), then sampled angles and bonds"""
    c = fresh(name)
    out = []
    dihs = list(c.rotatable_dihedrals)
    for d in dihs:
        out.append(("dihedral", [int(x) for x in d], rng.choice([rng.uniform(-180, 180), 90.0, -180.0, 0.0, 37.5])))
    bonds, _, angles, _, _, _ = c.get_bond_angle_info()
    for a in (angles if per_kind <= 0 else rng.sample(angles, min(per_kind, len(angles)))):
        out.append(("angle", [int(x) for x in a], rng.uniform(-25, 25)))
    both = [[int(x) for x in b] for b in bonds] + [[int(b[1]), int(b[0])] for b in bonds]     # either end may be the one displaced
    for b in (both if per_kind <= 0 else rng.sample(both, min(2 * per_kind, len(both)))):
        out.append(("bond", b, rng.choice([rng.uniform(-0.2, 0.3), 0.25, -0.125])))
    return out


def run_move(name: str, kind: str, idx: list[int], amount: float):
    """run one rigid move on the real class; returns (driver line, positions after, info)"""
    from topsearch.data import coordinates as cmod
    c = fresh(name)
    p0 = c.position.copy()
    proxy = RotProxy(cmod.rotations)
    info = {}
    with patched(cmod, "rotations", proxy):
        if kind == "dihedral":
            moved = [int(x) for x in c.get_movable_atoms([idx[1], idx[2]], "dihedral", c.reference_bonds)]
            c.rotate_dihedral([idx[1], idx[2]], amount, moved)
            Q, dirn = proxy.aligned[0]
            ang = amount * (np.pi / 180.0)
            a1 = p0[3 * idx[1]:3 * idx[1] + 3]
            line = (f"dihedral {frac(float(np.cos(ang)))} {frac(float(np.sin(ang)))} {fl(Q.reshape(-1))} "
                    f"{fl(a1)} {il(moved)} {fl(p0)}")
            info = {"Q": Q, "dir": dirn}
        elif kind == "angle":
            moved = [int(x) for x in c.get_movable_atoms(idx, "angle", c.reference_bonds)]
            c.rotate_angle(idx, amount, moved)
            R = proxy.rotvec[0]
            a2 = p0[3 * idx[1]:3 * idx[1] + 3]
            line = f"rotangle {fl(R.reshape(-1))} {fl(a2)} {il(moved)} {fl(p0)}"
            info = {"Q": R}
        else:
            moved = [int(x) for x in c.get_movable_atoms(idx, "length", c.reference_bonds)]
            a1 = p0[3 * idx[0]:3 * idx[0] + 3].copy()
            a2 = p0[3 * idx[1]:3 * idx[1] + 3].copy()
            c.change_bond_length(idx, amount, moved)
            line = f"bondlen {frac(float(amount))} {fl(a1)} {fl(a2)} {il(moved)} {fl(p0)}"
    return line, c.position.copy(), moved, p0, info


# ----------------------------------------------------------------------------- correspondence


def correspond(ctx: Ctx) -> None:
    rng = ctx.rng
    lines: list[str] = ["kern gen"]
    expect: list[tuple] = []       # (tag, impl answer (str or ndarray), case, nontrivial)

    # (a) box predicates --------------------------------------------------------------------
    import itertools
    boxes = []
    for d in range(1, ctx.scale(3, 4) + 1):
        for combo in itertools.product(CLASSES, repeat=d):
            lo, hi = random_box(rng, d)
            boxes.append((lo, hi, [place(k, l, h, rng) for k, l, h in zip(combo, lo, hi)], "-".join(combo)))
    for _ in range(ctx.scale(150, 1500)):
        d = rng.randint(1, 8)
        lo, hi = random_box(rng, d)
        combo = [rng.choice(CLASSES) for _ in range(d)]
        boxes.append((lo, hi, [place(k, l, h, rng) for k, l, h in zip(combo, lo, hi)], "random"))
    for lo, hi, x, tag in boxes:
        c = std_coords(lo, hi, x)
        ans = box_answers(c)
        for op in ("check", "at", "all", "active", "clip"):
            lines.append(f"{op} {fl(x)} {fl(lo)} {fl(hi)}")
            expect.append((op, ans[op], {"x": x, "lo": lo, "hi": hi}, "1" in ans["check"]))

    # (b) scripted displacements -----------------------------------------------------------
    from topsearch.global_optimisation.perturbations import (StandardPerturbation, AtomicPerturbation,
                                                              MolecularPerturbation)
    from topsearch.data.coordinates import AtomicCoordinates
    US = [0.0, 0.5, 1 - 2.0 ** -20, 63 / 64, 1 / 64, 0.25, 0.75, 2.0 ** -20]
    for _ in range(ctx.scale(150, 1200)):
        d = rng.randint(1, 6)
        lo, hi = random_box(rng, d)
        x = [place(rng.choice(["inside", "inside", "on-lo", "on-hi"]), l, h, rng) for l, h in zip(lo, hi)]
        us = [rng.choice(US) if rng.random() < 0.6 else rng.randrange(0, 1024) / 1024.0 for _ in range(d)]
        prop = rng.random() < 0.5
        m = rng.choice([0.125, 0.25, 0.5, 1.0]) if prop else rng.choice([0.25, 1.0, 2.5, 8.0, 64.0])
        c = std_coords(lo, hi, x)
        calls = []

        def rand(*shape, _us=us, _calls=calls):
            _calls.append(shape)
            return np.array(_us, dtype=float).reshape(shape)
        with patched(np.random, "rand", rand):
            StandardPerturbation(m, prop).perturb(c)
        lines.append(f"std {int(prop)} {frac(m)} {fl(us)} {fl(x)} {fl(lo)} {fl(hi)}")
        expect.append(("std:prop" if prop else "std:abs", fl(c.position) if calls == [(d,)] else f"rand-calls:{calls}",
                       {"x": x, "lo": lo, "hi": hi, "us": us, "m": m, "prop": prop}, True))
    for it in range(ctx.scale(120, 1000)):
        n = rng.randint(2, 9)
        k = rng.randint(1, n - 1) if it % 10 else n - 1
        over = it % 25 == 7                       # malformed: more atoms than the population holds
        if over:
            k = n
        pos = [rng.randrange(-64, 65) / 16.0 for _ in range(3 * n)]
        idx = rng.sample(range(n - 1), k) if not over else list(range(n))
        draws = [rng.choice(US) if rng.random() < 0.5 else rng.randrange(0, 1024) / 1024.0 for _ in range(3 * k)]
        m = rng.choice([0.25, 0.5, 1.0, 3.0])
        c = AtomicCoordinates(["C"] * n, np.array(pos, dtype=float))
        seen = {}

        def sample(population, kk, _idx=idx, _seen=seen):
            population = list(population)
            _seen["pop"] = population
            if kk > len(population) or kk != len(_idx):
                raise ValueError("Sample larger than population or is negative")
            return [population[i] for i in _idx]

        def rand(*shape, _d=draws):
            return np.array(_d, dtype=float).reshape(shape)
        try:
            with patched(pyrandom, "sample", sample), patched(np.random, "rand", rand):
                AtomicPerturbation(m, k).perturb(c)
            atoms = [seen["pop"][i] for i in idx]
            ans = f"{il(atoms)} {fl(c.position)}"
        except ValueError:
            ans = "guard"
        lines.append(f"atomic {frac(m)} {il(idx)} {fl(draws)} {fl(pos)}")
        expect.append(("atomic" if not over else "atomic:oversized", ans,
                       {"n": n, "idx": idx, "draws": draws, "m": m, "pos": pos}, not over))
    mols = molecules()
    flexible = [nm for nm in mols if len(fresh(nm).rotatable_dihedrals) >= 1]
    for _ in range(ctx.scale(12, 60)):
        nm = rng.choice(flexible)
        c = fresh(nm)
        k = rng.randint(1, len(c.rotatable_dihedrals))
        us = [rng.choice(US) for _ in range(k)]
        m = rng.choice([10.0, 45.0, 180.0, 0.5])
        rec = []
        orig = c.rotate_dihedral

        def spy(bond, angle, moved, _rec=rec, _orig=orig):
            _rec.append(float(angle))
            return _orig(bond, angle, moved)
        c.rotate_dihedral = spy
        it_us = iter(us)
        with patched(pyrandom, "random", lambda _it=it_us: next(_it)), \
                patched(pyrandom, "sample", lambda population, kk: list(population)[:kk]):
            MolecularPerturbation(m, k).perturb(c)
        for u, a in zip(us, rec):
            lines.append(f"angle {frac(u)} {frac(m)}")
            expect.append(("molecular-angle", frac(a), {"u": u, "m": m}, True))

    # (c) rigid moves, trace-driven --------------------------------------------------------
    per_kind = 0 if ctx.thorough else 3
    for nm in mols:
        for kind, idx, amount in move_cases(rng, nm, per_kind):
            try:
                line, after, moved, p0, info = run_move(nm, kind, idx, amount)
            except Exception as e:
                ctx.diverge(f"move-raises:{kind}", f"{kind} {idx} on {nm} raised {type(e).__name__}: {e}",
                            {"molecule": nm, "kind": kind, "atoms": idx, "amount": amount})
                continue
            if "Q" in info:
                Q = info["Q"]
                ok = bool(np.abs(Q @ Q.T - np.eye(3)).max() < 1e-12 and abs(np.linalg.det(Q) - 1) < 1e-12)
                if kind == "dihedral":
                    ok = ok and bool(np.abs(Q @ info["dir"] - np.array([1.0, 0, 0])).max() < 1e-9)
                ctx.contract("Kabsch-orthogonal", ok)
            lines.append(line)
            expect.append((f"move:{kind}", after, {"molecule": nm, "kind": kind, "atoms": idx, "amount": amount,
                                                   "moved": moved}, len(moved) > 0))

    out = run_driver("Moves", lines)[1:]
    if len(out) != len(expect):
        ctx.diverge("moves-driver-length", f"driver answered {len(out)} lines for {len(expect)}", {})
        return
    for (tag, impl, case, nontrivial), got in zip(expect, out):
        ctx.stats.branch(tag)
        if isinstance(impl, np.ndarray):
            ctx.stats.case({"op": tag, **case}, nontrivial)
            try:
                model = np.array([float(Fraction(t)) for t in got.split(",")])
            except (ValueError, ZeroDivisionError):
                ctx.diverge(tag, f"{tag}: model answered `{got[:60]}`", case)
                continue
            err = float(np.abs(model - impl).max()) if model.shape == impl.shape else float("inf")
            if not err < 1e-9:
                worst = int(np.argmax(np.abs(model - impl))) // 3 if model.shape == impl.shape else -1
                ctx.diverge(tag, f"{tag} on {case['molecule']} {case['atoms']} by {case['amount']:.4g}: "
                            f"implementation and model differ by {err:.3g} (atom {worst})", case)
            continue
        ctx.stats.case({"op": tag, **case}, nontrivial, sample_every=500)
        if impl != got:
            ctx.diverge(tag, f"{tag}: implementation {impl[:120]} / model {got[:120]}", {**case, "impl": impl, "model": got})


# ----------------------------------------------------------------------------- predicates


def pred_box(lo, hi, x) -> tuple[str, str] | None:
    """box predicates against direct comparison with the box (written from the statement)"""
    c = std_coords(lo, hi, x)
    want = [xi <= l or xi >= h for xi, l, h in zip(x, lo, hi)]
    got = [bool(v) for v in c.check_bounds()]
    if got != want:
        return ("check_bounds:disagrees-with-box", f"check_bounds({x}) in [{lo},{hi}] = {got}, direct comparison {want}")
    if bool(c.at_bounds()) != any(want):
        return ("at_bounds:not-any", f"at_bounds({x}) in [{lo},{hi}] = {bool(c.at_bounds())}")
    if bool(c.all_bounds()) != all(want):
        return ("all_bounds:not-all", f"all_bounds({x}) in [{lo},{hi}] = {bool(c.all_bounds())}")
    b, a = c.active_bounds()
    wb, wa = [xi <= l for xi, l in zip(x, lo)], [xi >= h for xi, h in zip(x, hi)]
    if [bool(v) for v in b] != wb or [bool(v) for v in a] != wa:
        return ("active_bounds:disagrees-with-box", f"active_bounds({x}) in [{lo},{hi}] = {list(b)}, {list(a)}; "
                f"direct comparison {wb}, {wa}")
    c.move_to_bounds()
    wc = [min(max(xi, l), h) for xi, l, h in zip(x, lo, hi)]
    if list(map(float, c.position)) != wc:
        return ("move_to_bounds:not-the-clip", f"move_to_bounds({x}) in [{lo},{hi}] = {list(c.position)}, expected {wc}")
    if bool(np.any((c.position < np.array(lo)) | (c.position > np.array(hi)))):
        return ("move_to_bounds:outside", f"move_to_bounds({x}) left the box")
    return None


def pred_box_float32(lo, hi, x) -> tuple[str, str] | None:
    """a position held in single precision (np.float32 arrays come out of many pipelines): clipping and a random
    displacement still end inside the box — judged by exact comparison of the resulting numbers with the bounds"""
    from topsearch.global_optimisation.perturbations import StandardPerturbation
    c = std_coords(lo, hi, x)
    c.position = np.array(x, dtype=np.float32)
    x32 = [float(v) for v in c.position]
    c.move_to_bounds()
    got = [float(v) for v in c.position]
    for i, (g, l, h, xi) in enumerate(zip(got, lo, hi, x32)):
        if not l <= g <= h:
            return ("move_to_bounds:outside:float32-position", f"coordinate {i}: move_to_bounds took {xi!r} (a float32 "
                    f"position) to {g!r}, outside [{l}, {h}]")
        if g != min(max(xi, l), h):
            return ("move_to_bounds:not-the-clip:float32-position", f"coordinate {i}: {xi!r} -> {g!r}, direct clipping "
                    f"gives {min(max(xi, l), h)!r}")
    c.position = np.array(x, dtype=np.float32)
    with patched(np.random, "rand", lambda *shape: np.full(shape, 1 - 2.0 ** -53)):
        StandardPerturbation(1.0, True).perturb(c)
    for i, (g, l, h) in enumerate(zip([float(v) for v in c.position], lo, hi)):
        if not l <= g <= h:
            return ("StandardPerturbation:outside-box:float32-position", f"coordinate {i}: a displaced float32 position "
                    f"ends at {g!r}, outside [{l}, {h}]")
    return None


def pred_random_point(lo, hi, seed: int) -> tuple[str, str] | None:
    st = np.random.get_state()
    np.random.seed(seed)
    try:
        c = std_coords(lo, hi, lo)
        p = c.generate_random_point()
    finally:
        np.random.set_state(st)
    if p.shape != (len(lo),) or not all(l <= v <= h for v, l, h in zip(p, lo, hi)):
        return ("generate_random_point:outside", f"random point {list(p)} not inside [{lo},{hi}]")
    return None


def pred_std(lo, hi, x, m, prop, us) -> tuple[str, str] | None:
    """each coordinate moves by at most half the configured step; the point ends inside the box"""
    from topsearch.global_optimisation.perturbations import StandardPerturbation
    c = std_coords(lo, hi, x)
    with patched(np.random, "rand", lambda *shape: np.array(us, dtype=float).reshape(shape)):
        StandardPerturbation(m, prop).perturb(c)
    for i, (a, b) in enumerate(zip(x, c.position)):
        step = m * (hi[i] - lo[i]) if prop else m
        if abs(b - a) > 0.5 * step + 1e-12 * (1 + abs(a) + step):
            return ("StandardPerturbation:step-exceeds-half", f"coordinate {i}: {a} -> {b}, more than half the step {step} "
                    f"(u = {us[i]})")
        if not lo[i] <= b <= hi[i]:
            return ("StandardPerturbation:outside-box", f"coordinate {i}: {a} -> {b} outside [{lo[i]}, {hi[i]}]")
    return None


def pred_std_reused(calls) -> tuple[str, str] | None:
    """ONE step-taker used for a series of moves: other boxes (a proportional step follows the box it is used in)
    and a step size reconfigured between moves; calls = [(lo, hi, x, m, us)], proportional throughout or not"""
    from topsearch.global_optimisation.perturbations import StandardPerturbation
    prop = calls[0][5]
    sp = StandardPerturbation(calls[0][3], prop)
    for n_call, (lo, hi, x, m, us, _p) in enumerate(calls):
        sp.max_displacement = m
        c = std_coords(lo, hi, x)
        with patched(np.random, "rand", lambda *shape: np.array(us, dtype=float).reshape(shape)):
            sp.perturb(c)
        for i, (a, b) in enumerate(zip(x, c.position)):
            step = m * (hi[i] - lo[i]) if prop else m
            if abs(b - a) > 0.5 * step + 1e-12 * (1 + abs(a) + step):
                return ("StandardPerturbation:step-exceeds-half:reused-object",
                        f"move {n_call + 1} of one step-taker object: coordinate {i}: {a} -> {b}, more than half the step "
                        f"{step} configured for this move (box [{lo[i]}, {hi[i]}], max_displacement {m}, proportional {prop})")
            if not lo[i] <= b <= hi[i]:
                return ("StandardPerturbation:outside-box:reused-object", f"move {n_call + 1}: coordinate {i}: {a} -> {b} "
                        f"outside [{lo[i]}, {hi[i]}]")
    return None


def pred_atomic(n, k, m, pos, seed) -> tuple[str, str] | None:
    """exactly k atoms move, never the first, each axis by at most half the step"""
    from topsearch.global_optimisation.perturbations import AtomicPerturbation
    from topsearch.data.coordinates import AtomicCoordinates
    c = AtomicCoordinates(["C"] * n, np.array(pos, dtype=float))
    st, pst = np.random.get_state(), pyrandom.getstate()
    np.random.seed(seed)
    pyrandom.seed(seed)
    try:
        AtomicPerturbation(m, k).perturb(c)
    finally:
        np.random.set_state(st)
        pyrandom.setstate(pst)
    d = (c.position - np.array(pos)).reshape(-1, 3)
    movedat = [i for i in range(n) if np.any(d[i] != 0.0)]
    if 0 in movedat:
        return ("AtomicPerturbation:first-atom-moved", f"atom 0 moved by {list(d[0])} (n={n}, max_atoms={k}, seed={seed})")
    if len(movedat) != k:
        return ("AtomicPerturbation:wrong-number-of-atoms", f"{len(movedat)} atoms moved, configured {k} (n={n}, seed={seed})")
    if np.abs(d).max() > 0.5 * m * (1 + 1e-12):
        return ("AtomicPerturbation:step-exceeds-half", f"an axis moved by {np.abs(d).max()} > {m}/2")
    return None


def _dists(p, idx):
    q = p.reshape(-1, 3)[idx]
    return np.linalg.norm(q[:, None, :] - q[None, :, :], axis=2)


def _angles(G, p):
    q = p.reshape(-1, 3)
    out = {}
    for b in G.nodes:
        nb = sorted(G.neighbors(b))
        for i in range(len(nb)):
            for j in range(i + 1, len(nb)):
                v1, v2 = q[nb[i]] - q[b], q[nb[j]] - q[b]
                out[(nb[i], b, nb[j])] = math.degrees(math.acos(max(-1.0, min(1.0, float(
                    v1 @ v2 / np.linalg.norm(v1) / np.linalg.norm(v2))))))
    return out


def pred_move(name, kind, idx, amount) -> tuple[str, str] | None:
    import networkx as nx
    c = fresh(name)
    G = c.reference_bonds
    p0 = c.position.copy()
    tol = 1e-9
    blen = lambda p: np.array([np.linalg.norm(p[3 * u:3 * u + 3] - p[3 * v:3 * v + 3]) for u, v in G.edges()])
    if kind == "dihedral":
        moved = c.get_movable_atoms([idx[1], idx[2]], "dihedral", G)
        c.rotate_dihedral([idx[1], idx[2]], amount, moved)
    elif kind == "angle":
        moved = c.get_movable_atoms(idx, "angle", G)
        c.rotate_angle(idx, amount, moved)
    else:
        moved = c.get_movable_atoms(idx, "length", G)
        c.change_bond_length(idx, amount, moved)
    p1 = c.position.copy()
    if p1.shape != p0.shape:
        return (f"{kind}:shape", f"{kind} on {name} {idx}: position has shape {p1.shape}")
    moved = sorted(set(int(x) for x in moved))
    fixed = [i for i in range(c.n_atoms) if i not in moved]
    where = f"{kind} {idx} by {amount:.6g} on {name}"
    if moved and np.abs(_dists(p1, moved) - _dists(p0, moved)).max() > tol:
        return (f"{kind}:fragment-not-rigid", f"{where}: distances inside the moved fragment change by "
                f"{np.abs(_dists(p1, moved) - _dists(p0, moved)).max():.3g}")
    if fixed and np.abs((p1 - p0).reshape(-1, 3)[fixed]).max() > tol:
        return (f"{kind}:rest-moved", f"{where}: atoms outside the fragment move by "
                f"{np.abs((p1 - p0).reshape(-1, 3)[fixed]).max():.3g}")
    if kind == "bond":
        # the chosen bond itself: its second atom is displaced along the bond by `amount` bond lengths, so it becomes
        # (1 + amount) times as long — through the single-move routine and through the plural wrapper alike
        def blen1(p):
            return float(np.linalg.norm(p[3 * idx[1]:3 * idx[1] + 3] - p[3 * idx[0]:3 * idx[0] + 3]))
        c2 = fresh(name)
        c2.change_bond_lengths([list(idx)], [amount], c2.reference_bonds)
        p2 = np.asarray(c2.position, dtype=float).reshape(-1)
        for how, pp in (("change_bond_length", p1), ("change_bond_lengths", p2)):
            if abs(blen1(pp) - abs(1.0 + amount) * blen1(p0)) > 1e-9 * max(1.0, blen1(p0)):
                return ("bond:length-not-changed-as-asked", f"{where} through {how}: the bond is {blen1(pp):.6f} long afterwards, "
                        f"(1 + {amount:.6g}) times its length {blen1(p0):.6f} is {abs(1.0 + amount) * blen1(p0):.6f}")
        if p2.shape != p1.shape or float(np.max(np.abs(p2 - p1))) > 1e-9:
            return ("bond:wrapper-disagrees", f"{where}: change_bond_lengths and change_bond_length (with the fragment "
                    f"get_movable_atoms selects for a length change) give different positions "
                    f"(max difference {float(np.max(np.abs(p2 - p1))):.3g})")
        # a length change alters the chosen bond; when both its atoms sit in a ring the displaced atom drags its other
        # ring bonds along; every other bond of the reference bonding (the substituents that ride along) keeps its length
        ring = {x for cyc in nx.cycle_basis(G) for x in cyc}
        in_ring = idx[0] in ring and idx[1] in ring
        d0, d1 = blen(p0), blen(p1)
        for (u, v), a, b in zip(G.edges(), d0, d1):
            u, v = int(u), int(v)
            if abs(b - a) <= tol or {u, v} == {idx[0], idx[1]}:
                continue
            if in_ring and idx[1] in (u, v) and u in ring and v in ring:
                continue
            return ("bond:other-bond-length-changed", f"{where}: the reference bond {(u, v)} changes its length by "
                    f"{abs(b - a):.3g} (fragment moved: {moved})")
    if kind == "dihedral":
        if np.abs(blen(p1) - blen(p0)).max() > tol:
            return ("dihedral:bond-length-changed", f"{where}: a bond length of the reference bonding changes by "
                    f"{np.abs(blen(p1) - blen(p0)).max():.3g}")
        ring = {x for cyc in nx.cycle_basis(G) for x in cyc}
        if not (idx[1] in ring and idx[2] in ring):
            a0, a1 = _angles(G, p0), _angles(G, p1)
            worst = max(a0, key=lambda k: abs(a1[k] - a0[k]))
            if abs(a1[worst] - a0[worst]) > 1e-7:
                return ("dihedral:bond-angle-changed", f"{where}: bond angle {worst} changes by "
                        f"{abs(a1[worst] - a0[worst]):.3g} degrees (central bond outside any ring)")
        c.rotate_dihedral([idx[1], idx[2]], -amount, moved)
        if np.abs(c.position - p0).max() > tol:
            return ("dihedral:not-undone-by-opposite", f"{where}: the opposite rotation leaves atoms displaced by "
                    f"{np.abs(c.position - p0).max():.3g}")
    return None


def pred_sequence(name: str, seq: list) -> tuple[str, str] | None:
    """many moves on ONE long-lived object through the public plural wrappers, the object's own
    reference bonding passed in as the bond network (as the interpolation code does): every move must
    act on the same fragment a fresh object would choose, rigidly, and keep every reference bond length
    (except the one bond a length change is asked to alter) — whatever moves came before."""
    c = fresh(name)
    G0 = c.reference_bonds.copy()
    edges0 = sorted(tuple(sorted((int(u), int(v)))) for u, v in G0.edges())
    blen = lambda p: {e: float(np.linalg.norm(p[3 * e[0]:3 * e[0] + 3] - p[3 * e[1]:3 * e[1] + 3])) for e in edges0}
    ref = fresh(name)
    for step, (kind, idx, amount) in enumerate(seq):
        key = ([idx[1], idx[2]], "dihedral") if kind == "dihedral" else (idx, "angle") if kind == "angle" else (idx, "length")
        expected = sorted(int(x) for x in ref.get_movable_atoms(key[0], key[1], G0.copy()))   # pristine topology
        p0 = c.position.copy()
        b0 = blen(p0)
        where = f"step {step}: {kind} {idx} by {amount:.6g} on {name} after {step} earlier moves on the same object"
        try:
            if kind == "dihedral":
                c.change_dihedral_angles([idx], [amount], c.reference_bonds)
            elif kind == "angle":
                c.change_bond_angles([idx], [amount], c.reference_bonds)
            else:
                c.change_bond_lengths([idx], [amount], c.reference_bonds)
        except Exception as e:
            return (f"{kind}:raises-after-history", f"{where}: raised {type(e).__name__}: {e}")
        p1 = c.position.copy()
        moved_now = sorted(i for i in range(c.n_atoms) if np.abs(p1[3 * i:3 * i + 3] - p0[3 * i:3 * i + 3]).max() > 1e-12)
        if not set(moved_now) <= set(expected):
            return (f"{kind}:wrong-fragment-after-history", f"{where}: atoms {sorted(set(moved_now) - set(expected))} moved "
                    f"although they are not in the fragment {expected} a fresh object selects")
        if expected and len(expected) > 1 and np.abs(_dists(p1, expected) - _dists(p0, expected)).max() > 1e-9:
            return (f"{kind}:fragment-not-rigid-after-history", f"{where}: the fragment {expected} is deformed by "
                    f"{np.abs(_dists(p1, expected) - _dists(p0, expected)).max():.3g}")
        b1 = blen(p1)
        changed = [e for e in edges0 if abs(b1[e] - b0[e]) > 1e-9]
        allowed = [tuple(sorted((int(idx[0]), int(idx[1]))))] if kind == "bond" else []
        bad = [e for e in changed if e not in allowed]
        if bad:
            e = bad[0]
            return (f"{kind}:bond-length-changed-after-history", f"{where}: the reference bond {e} changes its length by "
                    f"{abs(b1[e] - b0[e]):.3g}")
    return None


def pred_axis_aligned(name: str, which: int, axis: int, sign: float, amount: float) -> tuple[str, str] | None:
    """a rotation about a bond that points EXACTLY along a coordinate axis, in either sense (hand-built and grid
    geometries, files written with few decimals after orienting a bond): the move is finite, leaves every atom outside
    the fragment where it was, keeps every reference bond length, and the opposite rotation undoes it"""
    from scipy.spatial.transform import Rotation
    from topsearch.data.coordinates import MolecularCoordinates
    sym, pos = molecules()[name]
    c0 = fresh(name)
    if not c0.rotatable_dihedrals:
        return None
    dih = c0.rotatable_dihedrals[which % len(c0.rotatable_dihedrals)]
    a, b = int(dih[1]), int(dih[2])
    q = pos.reshape(-1, 3) - pos.reshape(-1, 3)[a]
    target = np.zeros(3)
    target[axis] = sign
    rot, _ = Rotation.align_vectors(target[None, :], (q[b] / np.linalg.norm(q[b]))[None, :])
    q = np.round(rot.apply(q), 6)
    q[a] = 0.0
    q[b] = target * round(float(np.linalg.norm(q[b])), 6)          # exactly on the axis
    c = MolecularCoordinates(list(sym), q.flatten().copy())
    G0 = c.reference_bonds.copy()
    if sorted(map(sorted, G0.edges())) != sorted(map(sorted, c0.reference_bonds.edges())):
        return None                                                 # rounding changed the bonding: not this test's input
    edges0 = sorted(tuple(sorted((int(u), int(v)))) for u, v in G0.edges())
    blen = lambda p: np.array([float(np.linalg.norm(p[3 * i:3 * i + 3] - p[3 * j:3 * j + 3])) for i, j in edges0])
    frag = [int(x) for x in c.get_movable_atoms([a, b], "dihedral", G0.copy())]
    p0 = c.position.copy()
    where = f"{name}: rotation by {amount:g} degrees about the bond {a}-{b} placed exactly along {'+' if sign > 0 else '-'}{'xyz'[axis]}"
    try:
        with np.errstate(all="ignore"):
            c.rotate_dihedral([a, b], amount, frag)
            p1 = c.position.copy()
            c.rotate_dihedral([a, b], -amount, frag)
            p2 = c.position.copy()
    except Exception as e:  # noqa: BLE001
        return ("dihedral:raises-axis-aligned", f"{where}: raised {type(e).__name__}: {e}")
    if not (np.all(np.isfinite(p1)) and np.all(np.isfinite(p2))):
        return ("dihedral:non-finite-axis-aligned", f"{where}: the coordinates are no longer finite numbers")
    others = [i for i in range(c.n_atoms) if i not in frag]
    if others and max(float(np.abs(p1[3 * i:3 * i + 3] - p0[3 * i:3 * i + 3]).max()) for i in others) > 1e-9:
        return ("dihedral:wrong-fragment-axis-aligned", f"{where}: an atom outside the fragment {frag} moved")
    if float(np.max(np.abs(blen(p1) - blen(p0)))) > 1e-9:
        return ("dihedral:bond-length-changed-axis-aligned", f"{where}: a reference bond length changes by "
                f"{float(np.max(np.abs(blen(p1) - blen(p0)))):.3g}")
    if float(np.max(np.abs(p2 - p0))) > 1e-9:
        return ("dihedral:not-undone-axis-aligned", f"{where}: the opposite rotation does not restore the geometry "
                f"(off by {float(np.max(np.abs(p2 - p0))):.3g})")
    return None


def pred_perturb_sequence(name: str, seed: int, n_moves: int = 6, angles: bool = True) -> tuple[str, str] | None:
    """consecutive molecular moves of the step taker itself (large rotations about several bonds at once, as the example
    scripts configure it) on ONE object: each move rotates fragments of the REFERENCE bonding rigidly, so every reference
    bond length and every bond angle is what it was — however folded the chain has become by then"""
    import random as pyrandom
    from topsearch.global_optimisation.perturbations import MolecularPerturbation
    c = fresh(name)
    G0 = c.reference_bonds.copy()
    edges0 = sorted(tuple(sorted((int(u), int(v)))) for u, v in G0.edges())
    blen = lambda p: np.array([float(np.linalg.norm(p[3 * a:3 * a + 3] - p[3 * b:3 * b + 3])) for a, b in edges0])
    if not getattr(c, "rotatable_dihedrals", None):
        return None
    step = MolecularPerturbation(max_displacement=180.0, max_bonds=min(2, len(c.rotatable_dihedrals)))
    pyrandom.seed(seed)
    np.random.seed(seed)
    for k in range(n_moves):
        p0 = c.position.copy()
        b0, a0 = blen(p0), _angles(G0, p0)
        try:
            step.perturb(c)
        except Exception as e:  # noqa: BLE001
            return ("perturb:raises-after-history", f"move {k + 1} of {n_moves} on {name} (seed {seed}) raised {type(e).__name__}: {e}")
        p1 = c.position.copy()
        if not np.all(np.isfinite(p1)):
            return ("perturb:non-finite", f"move {k + 1} on {name} (seed {seed}) produced non-finite coordinates")
        b1, a1 = blen(p1), _angles(G0, p1)
        db = float(np.max(np.abs(b1 - b0)))
        # (a rotation about a RING bond carries the substituents of one ring atom round while the ring stays: bond
        #  lengths are what they were, angles between a ring bond and a substituent are not — lengths only there)
        da = (max(abs(a1[q] - a0[q]) for q in a0) if a0 else 0.0) if angles else 0.0
        if db > 1e-7 or da > 1e-4:
            return ("perturb:not-rigid-after-history",
                    f"move {k + 1} of a sequence on {name} (seed {seed}, rotations up to 180 degrees about "
                    f"{step.max_bonds} bonds): a reference bond length changes by {db:.3g}, a bond angle by {da:.3g} degrees")
    return None


def predicates(ctx: Ctx) -> None:
    rng = ctx.rng
    for name in [m for m in molecules() if m in ("ethanol.xyz", "hexane.xyz")]:
        for axis in range(3):
            for sign in (1.0, -1.0):
                case = [name, rng.randrange(4), axis, sign, rng.choice([40.0, -75.0, 180.0])]
                r = pred_axis_aligned(*case)
                ctx.stats.case({"stream": "predicate-axis-aligned-bond", "molecule": name, "axis": axis, "sign": sign}, True)
                if r:
                    ctx.fail(r[0], r[1], {"axis_aligned": case})
    for _k in range(ctx.scale(6, 30)):
        name = rng.choice([m for m in molecules() if m in ("hexane.xyz", "ethanol.xyz", "ethanol2.xyz")])     # acyclic: every rotatable bond splits the molecule
        sd = rng.randrange(10 ** 6)
        r = pred_perturb_sequence(name, sd)
        ctx.stats.case({"stream": "predicate-perturb-sequence", "molecule": name, "seed": sd}, True)
        if r:
            ctx.fail(r[0], r[1], {"perturb_sequence": [name, sd]})
            break
    for _k in range(ctx.scale(4, 20)):
        sd = rng.randrange(10 ** 6)
        r = pred_perturb_sequence("thf-embedded", sd, 8, angles=False)
        ctx.stats.case({"stream": "predicate-perturb-sequence", "molecule": "thf-embedded", "seed": sd}, True)
        if r:
            ctx.fail(r[0], r[1], {"perturb_sequence": ["thf-embedded", sd, 8, False]})
            break
    deep = 4 if getattr(ctx, "deep_search", False) else 1
    # corpus / boundary first
    corpus = [([0.0], [1.0], [0.0]), ([0.0], [1.0], [1.0]), ([0.0, -2.0], [1.0, 2.0], [0.5, -2.0]),
              ([0.0, 0.0], [1.0, 1.0], [0.0, 1.0]), ([0.0, 0.0], [1.0, 1.0], [-0.5, 1.5]), ([1.0], [1.0], [1.0])]
    for lo, hi, x in corpus:
        r = pred_box(lo, hi, x)
        ctx.stats.case({"stream": "predicate-box-corpus", "x": x, "lo": lo, "hi": hi}, True)
        if r:
            ctx.fail(r[0], r[1], {"kind": "box", "lo": lo, "hi": hi, "x": x})
    for _ in range(ctx.scale(300, 3000) * deep):
        d = rng.randint(1, 6)
        lo, hi = random_box(rng, d)
        x = [place(rng.choice(CLASSES), l, h, rng) for l, h in zip(lo, hi)]
        r = pred_box(lo, hi, x)
        ctx.stats.case({"stream": "predicate-box", "x": x, "lo": lo, "hi": hi}, True)
        if r:
            ctx.fail(r[0], r[1], {"kind": "box", "lo": lo, "hi": hi, "x": x})
    for i in range(ctx.scale(60, 400) * deep):
        d = rng.randint(1, 4)
        # bounds that single precision cannot represent (0.1, -1.1, 1/3): the clipped value must not be rounded outward
        lo = [rng.choice([-1.1, -0.3, 0.1, -1.0 / 3.0, -2.7]) for _ in range(d)]
        hi = [l + rng.choice([0.2, 1.3, 0.7, 2.0 / 3.0]) for l in lo]
        x = [rng.choice([l - 0.5, h + 0.5, l, h, 0.5 * (l + h), h - 1e-9, l + 1e-9]) for l, h in zip(lo, hi)]
        r = pred_box_float32(lo, hi, x)
        ctx.stats.case({"stream": "predicate-box-float32", "x": x, "lo": lo, "hi": hi}, True)
        if r:
            ctx.fail(r[0], r[1], {"kind": "box32", "lo": lo, "hi": hi, "x": x})
            break
    for i in range(ctx.scale(20, 100)):
        d = rng.randint(1, 5)
        lo, hi = random_box(rng, d)
        r = pred_random_point(lo, hi, rng.randrange(1 << 30))
        ctx.stats.case({"stream": "predicate-random-point", "lo": lo, "hi": hi}, True)
        if r:
            ctx.fail(r[0], r[1], {"kind": "random-point", "lo": lo, "hi": hi})
    for i in range(ctx.scale(200, 2000) * deep):
        d = rng.randint(1, 6)
        lo, hi = random_box(rng, d)
        x = [place(rng.choice(["inside", "inside", "on-lo", "on-hi"]), l, h, rng) for l, h in zip(lo, hi)]
        prop = rng.random() < 0.5
        m = rng.choice([0.125, 0.5, 1.0]) if prop else rng.choice([0.25, 1.0, 8.0])
        us = [rng.choice([0.0, 1 - 2.0 ** -53, 0.5]) if rng.random() < 0.4 else rng.random() for _ in range(d)]
        r = pred_std(lo, hi, x, m, prop, us)
        ctx.stats.case({"stream": "predicate-std", "x": x, "m": m, "prop": prop}, True)
        if r:
            ctx.fail(r[0], r[1], {"kind": "std", "lo": lo, "hi": hi, "x": x, "m": m, "prop": prop, "us": us})
    for i in range(ctx.scale(40, 300) * deep):
        d = rng.randint(1, 4)
        prop = i % 2 == 0
        calls = []
        for _ in range(rng.randint(2, 4)):
            lo, hi = random_box(rng, d)
            x = [0.5 * (l + h) for l, h in zip(lo, hi)]             # from the centre, extreme draws
            m = rng.choice([0.125, 0.5, 1.0]) if prop else rng.choice([0.25, 1.0, 4.0])
            us = [rng.choice([0.0, 1 - 2.0 ** -53]) if rng.random() < 0.7 else rng.random() for _ in range(d)]
            calls.append((lo, hi, x, m, us, prop))
        r = pred_std_reused(calls)
        ctx.stats.case({"stream": "predicate-std-reused-object", "d": d, "prop": prop, "moves": len(calls)}, True)
        if r:
            ctx.fail(r[0], r[1], {"kind": "std-reused", "calls": [list(c) for c in calls]})
            break
    for i in range(ctx.scale(150, 1500) * deep):
        n = rng.randint(2, 8)
        k = rng.randint(1, n - 1) if i % 4 else n - 1
        m = rng.choice([0.25, 1.0, 3.0])
        pos = [rng.randrange(-64, 65) / 16.0 for _ in range(3 * n)]
        seed = rng.randrange(1 << 30)
        r = pred_atomic(n, k, m, pos, seed)
        ctx.stats.case({"stream": "predicate-atomic", "n": n, "k": k, "seed": seed}, True)
        if r:
            ctx.fail(r[0], r[1], {"kind": "atomic", "n": n, "k": k, "m": m, "pos": pos, "seed": seed})
    for nm in molecules():
        for kind, idx, amount in move_cases(rng, nm, 0 if (ctx.thorough or deep > 1) else 4):
            try:
                r = pred_move(nm, kind, idx, amount)
            except Exception as e:
                r = (f"{kind}:raises", f"{kind} {idx} on {nm} raised {type(e).__name__}: {e}")
            ctx.stats.case({"stream": "predicate-move", "molecule": nm, "kind": kind, "atoms": idx}, True)
            if r:
                ctx.fail(r[0], r[1], {"kind": "move", "molecule": nm, "move": kind, "atoms": idx, "amount": amount})
    # sequences of moves on one long-lived object (ring molecules included)
    names = sorted(molecules())
    if not (ctx.thorough or deep > 1):
        rings = [n for n in names if any(t in n for t in ("thf", "benzene", "cyclo", "salicyl", "paracetamol", "azo"))]
        names = sorted(set(rings[:4] + rng.sample(names, min(2, len(names)))))
    for nm in names:
        for _ in range(ctx.scale(1, 4) * deep):
            seq = sequence_cases(rng, nm, ctx.scale(14, 40))
            if not seq:
                continue
            try:
                r = pred_sequence(nm, seq)
            except Exception as e:
                r = ("sequence:raises", f"sequence on {nm} raised {type(e).__name__}: {e}")
            ctx.stats.case({"stream": "predicate-move-sequence", "molecule": nm, "len": len(seq)}, True)
            if r:
                ctx.fail(r[0], r[1], {"kind": "sequence", "molecule": nm, "seq": seq})


_POOL: dict = {}


def sequence_cases(rng, name: str, length: int) -> list:
    if name in _POOL:
        pool = _POOL[name]
        if not pool:
            return []
        return [(k, i, rng.uniform(-20, 20) if k != "bond" else rng.uniform(-0.1, 0.15)) for k, i, _ in
                (rng.choice(pool) for _ in range(length))]
    c = fresh(name)
    bonds, _, angles, _, _, _ = c.get_bond_angle_info()
    dihs = [[int(x) for x in d] for d in c.rotatable_dihedrals]
    pool = []
    for a in angles:
        a = [int(x) for x in a]
        pool.append(("angle", a, None)); pool.append(("angle", a[::-1], None))      # both orientations
    for d in dihs:
        pool.append(("dihedral", d, None))
    for b in bonds:
        pool.append(("bond", [int(x) for x in b], None))
    # keep only the moves that act on a proper fragment (a fresh object performing that single move keeps
    # every other reference bond length): changes inside a ring necessarily deform the ring and are not
    # what the property speaks about
    ok = []
    for kind, idx, _a in pool:
        amt = 7.0 if kind != "bond" else 0.05
        try:
            if pred_sequence(name, [(kind, idx, amt)]) is None:
                ok.append((kind, idx, None))
        except Exception:
            pass
    pool = ok
    _POOL[name] = pool
    if not pool:
        return []
    seq = []
    for _ in range(length):
        kind, idx, _a = rng.choice(pool)
        amount = rng.uniform(-20, 20) if kind != "bond" else rng.uniform(-0.1, 0.15)
        seq.append((kind, idx, amount))
    return seq


def replay(ctx: Ctx, data: dict) -> bool:
    if "axis_aligned" in data:
        r = pred_axis_aligned(*data["axis_aligned"])
        if r:
            print(f"  {r[0]}: {r[1]}")
        return r is None
    if "perturb_sequence" in data:
        r = pred_perturb_sequence(*data["perturb_sequence"])
        if r:
            print(f"  {r[0]}: {r[1]}")
        return r is None
    k = data.get("kind")
    r = None
    if k == "box":
        r = pred_box(data["lo"], data["hi"], data["x"])
    elif k == "random-point":
        r = pred_random_point(data["lo"], data["hi"], 1)
    elif k == "std":
        r = pred_std(data["lo"], data["hi"], data["x"], data["m"], data["prop"], data["us"])
    elif k == "atomic":
        r = pred_atomic(data["n"], data["k"], data["m"], data["pos"], data["seed"])
    elif k == "move":
        r = pred_move(data["molecule"], data["move"], data["atoms"], data["amount"])
    elif k == "box32":
        r = pred_box_float32(data["lo"], data["hi"], data["x"])
    elif k == "std-reused":
        r = pred_std_reused([tuple(c) for c in data["calls"]])
    elif k == "sequence":
        r = pred_sequence(data["molecule"], [tuple(x) for x in data["seq"]])
    if r:
        print(f"  {r[0]}: {r[1]}")
    return r is None
