"""C02 — network store stays coherent under any edit history.

Tie #1: translate.ktn_cfg reads the counter rule of add_ts and the history rule of
remove_minimum from the source into Gen/Ktn.lean (bridge lemmas in Props/C02.lean).
Tie #2: the real KineticTransitionNetwork against Model/Ktn through Drivers/Ktn.lean after
*every* operation: every operation from every reachable network shape of <= 3 (quick) / 4
(thorough) minima, plus long random histories interleaved with caller-array mutation and
every read-only analysis.
"""
from __future__ import annotations

import itertools

import numpy as np

from common import Ctx, run_driver
from translate import ktn_cfg

PROP = "C02"
LEAN_MODULE = "TopSearch.Props.C02"
LEAN_FILES = ["TopSearch.Props.C02", "TopSearch.Lemmas.Ktn", "TopSearch.Model.Ktn"]
EXTRA_TARGETS = ["TopSearch.Gen.Ktn"]
REQUIRED = [
    "TopSearch.Props.C02.C02_bridge_counter",
    "TopSearch.Props.C02.C02_inv",
    "TopSearch.Props.C02.C02_labels",
    "TopSearch.Props.C02.C02_counts",
    "TopSearch.Props.C02.C02_remove_refines",
    "TopSearch.Props.C02.C02_removeMinima_eq_delete",
    "TopSearch.Props.C02.C02_last_write",
    "TopSearch.Props.C02.C02_addTs_second_keeps_count",
    "TopSearch.Props.C02.C02_removeTs_refines",
    "TopSearch.Props.C02.C02_counter_drift_without_guard",
]
RULE = ("cases = (network state, operation) transitions compared model-vs-implementation after the "
        "operation: every operation from every reachable labelled graph shape up to the tier's size, "
        "plus random long histories; a case is non-trivial when the operation is accepted by the "
        "guard and changes the state; distinct = distinct (canonical state, op) pairs")
ASSUMPTIONS = [
    "networkx Graph semantics: add_edge on an existing unordered pair replaces its attributes; "
    "relabel_nodes(copy=True) with an injective mapping keeps node order and edge data",
    "bit-identity of stored arrays is observed by the correspondence (value model), not proved",
]
PARTIAL = "copy isolation / read-only analyses: observed bit-for-bit on every run, not proved"


def regenerate(ctx: Ctx) -> None:
    ctx.gen_status.update(ktn_cfg.regenerate())


# ----------------------------------------------------------------------------- implementation side


class Impl:
    """Drives the real class; payloads are identified bit-for-bit through a token table."""

    def __init__(self, dim: int = 2):
        from topsearch.data.kinetic_transition_network import KineticTransitionNetwork
        self.k = KineticTransitionNetwork()
        self.dim = dim
        self.tok: dict[bytes, str] = {}
        self.count = 0
        self.caller_arrays = []

    def payload(self, prefix: str, coords=None, energy=None):
        self.count += 1
        t = f"{prefix}{self.count}"
        if coords is None:
            coords = np.array([0.37 * self.count + 0.011 * j * self.count for j in range(self.dim)])
            coords = ((coords + 2.9) % 5.8) - 2.9
        if energy is None:
            energy = float(np.sin(self.count * 1.7) * 3.0)
        self.tok[coords.tobytes() + np.float64(energy).tobytes() + repr(coords.shape).encode()] = t
        return t, coords, energy

    def token_of(self, coords, energy) -> str:
        # by value AND shape: a one-dimensional landscape stores (1,) vectors, not 0-d arrays
        a = np.asarray(coords, dtype=float)
        return self.tok.get(a.tobytes() + np.float64(energy).tobytes() + repr(a.shape).encode(), "?")

    def state(self) -> str:
        k = self.k
        nodes = []
        for lab in k.G.nodes:
            d = k.G.nodes[lab]
            nodes.append(f"{int(lab)}:{self.token_of(d.get('coords'), d.get('energy')) if 'coords' in d else '!'}")
        es = []
        for u, v in k.G.edges():
            d = k.G[u][v]
            es.append((min(int(u), int(v)), max(int(u), int(v)), self.token_of(d['coords'], d['energy'])))
        es.sort()
        edges = [f"{a}:{b}:{t}" for a, b, t in es]
        pl = [f"{int(a)}:{int(b)}" for a, b in np.asarray(k.pairlist).reshape(-1, 2)]
        sl = lambda l: ",".join(l) if l else "-"
        return f"n={k.n_minima} ts={k.n_ts} nodes={sl(nodes)} edges={sl(edges)} pl={sl(pl)}"

    def accessor_check(self) -> str | None:
        """public accessors agree with the graph"""
        k = self.k
        for i in range(k.n_minima):
            if i not in k.G.nodes:
                return f"minimum {i} missing"
            if k.get_minimum_coords(i) is not k.G.nodes[i]['coords']:
                return "accessor mismatch"
        return None

    def apply(self, op: tuple) -> str:
        """apply one op to the real class; returns the line sent to the model"""
        k = self.k
        kind = op[0]
        if kind == "addmin":
            t, c, e = self.payload("m")
            k.add_minimum(c, e)
            c += 1000.0          # the caller scribbles over the array it passed in
            self.caller_arrays.append(c)
            return f"addmin {t}"
        if kind == "addts":
            tie = len(op) > 3 and op[3] == "tie" and k.G.has_edge(op[1], op[2])
            # a second transition state whose energy ties bit for bit with the stored one (mirror-image
            # saddles of a symmetric surface) but whose coordinates differ
            t, c, e = self.payload("t", energy=float(k.get_ts_energy(op[1], op[2])) if tie else None)
            k.add_ts(c, e, op[1], op[2])
            c *= -3.0
            self.caller_arrays.append(c)
            return f"addts {t} {op[1]} {op[2]}"
        if kind == "rmmin":
            k.remove_minimum(op[1])
            return f"rmmin {op[1]}"
        if kind == "rmminima":
            k.remove_minima(np.array(op[1], dtype=int) if op[2] else list(op[1]))
            return "rmminima " + (",".join(map(str, op[1])) if op[1] else "-")
        if kind == "rmts":
            k.remove_ts(op[1], op[2])
            return f"rmts {op[1]} {op[2]}"
        if kind == "rmtss":
            k.remove_tss([list(p) for p in op[1]])
            return "rmtss " + (",".join(f"{a}:{b}" for a, b in op[1]) if op[1] else "-")
        if kind == "reset":
            k.reset_network()
            return "reset"
        if kind == "hist":
            k.pairlist = np.array(op[1], dtype=int).reshape(-1, 2)
            return "hist " + (",".join(f"{a}:{b}" for a, b in op[1]) if op[1] else "-")
        raise ValueError(op)


def build_ops(n: int, edges: list[tuple[int, int]]) -> list[tuple]:
    return [("addmin",)] * n + [("addts", u, v) for u, v in edges]


def all_ops(n: int, edges: list[tuple[int, int]], rng) -> list[tuple]:
    """every operation the property quantifies over, from a network with n minima and `edges`"""
    ops: list[tuple] = [("addmin",), ("reset",)]
    for u in range(n):
        for v in range(n):
            if u <= v or rng.random() < 0.3:      # both orientations of the endpoints
                ops.append(("addts", u, v))
    for (u, v) in edges:                           # second transition state with an exactly tied energy
        ops.append(("addts", u, v, "tie") if rng.random() < 0.5 else ("addts", v, u, "tie"))
    for k in range(n):
        ops.append(("rmmin", k))
    for r in range(0, n + 1):
        for ks in itertools.combinations(range(n), r):
            ks = list(ks)
            rng.shuffle(ks)
            ops.append(("rmminima", ks, rng.random() < 0.5))
    for (u, v) in edges:
        ops.append(("rmts", u, v) if rng.random() < 0.5 else ("rmts", v, u))
    for r in (0, 2, 3):
        if len(edges) >= r:
            for _ in range(2 if r else 1):
                ps = rng.sample(edges, r)
                ps = [(a, b) if rng.random() < 0.5 else (b, a) for a, b in ps]
                ops.append(("rmtss", ps))
    return ops


def run_sequences(ctx: Ctx, seqs: list[list[tuple]], label: str, hist=None) -> None:
    """run each op sequence on a fresh real network and on the model; compare after every op"""
    lines: list[str] = []
    expected: list[tuple[int, int, str, str]] = []   # (seq index, op index, impl state, op line)
    for si, seq in enumerate(seqs):
        impl = Impl(dim=1 + si % 3)          # one-, two- and three-dimensional landscapes in turn
        lines.append("new")
        expected.append((si, -1, "ok", "new"))
        for oi, op in enumerate(seq):
            try:
                line = impl.apply(op)
                st = impl.state()
                bad = impl.accessor_check()
                if bad:
                    st += " ACCESSOR:" + bad
            except Exception as e:       # malformed stream: the model must answer `guard`
                line = _line_of(op)
                st = f"raise:{type(e).__name__}"
            lines.append(line)
            expected.append((si, oi, st, line))
    out = run_driver("Ktn", ["cfg gen"] + lines)[1:]
    if len(out) != len(expected):
        ctx.diverge("ktn-driver-length", f"driver answered {len(out)} lines for {len(expected)}", {})
        return
    for (si, oi, st, line), got in zip(expected, out):
        if oi < 0:
            continue
        nontrivial = got not in ("guard", "bad-op")
        ctx.stats.case({"stream": label, "op": line, "state_after": got}, nontrivial)
        ctx.stats.branch(line.split(" ")[0] + ("" if nontrivial else ":refused"))
        if st.startswith("raise:"):
            if got != "guard":
                ctx.diverge(f"{label}:raise-vs-accept:{line.split(' ')[0]}",
                            f"implementation raised {st} but the model accepts `{line}`",
                            {"ops": [_line_of(o) for o in seqs[si][:oi + 1]]})
            continue
        if got == "guard":
            # outside the property's domain (e.g. add_ts to a missing node): skip the rest
            continue
        if got != st:
            ctx.diverge(f"{label}:{line.split(' ')[0]}",
                        f"after `{line}`: implementation {st} / model {got}",
                        {"ops": [_line_of(o) for o in seqs[si][:oi + 1]], "impl": st, "model": got})


def _line_of(op: tuple) -> str:
    kind = op[0]
    if kind in ("addmin", "reset"):
        return kind
    if kind == "addts":
        return f"addts ? {op[1]} {op[2]}"
    if kind == "rmminima":
        return "rmminima " + (",".join(map(str, op[1])) if op[1] else "-")
    if kind in ("rmtss", "hist"):
        return f"{kind} " + (",".join(f"{a}:{b}" for a, b in op[1]) if op[1] else "-")
    return " ".join(map(str, op))


def correspond(ctx: Ctx) -> None:
    rng = ctx.rng
    nmax = 4 if ctx.thorough else 3
    seqs = []
    shapes = 0
    for n in range(0, nmax + 1):
        pairs = [(u, v) for u in range(n) for v in range(u, n)]
        for mask in range(1 << len(pairs)):
            edges = [p for i, p in enumerate(pairs) if mask >> i & 1]
            if n == 4 and not ctx.thorough:
                continue
            shapes += 1
            order = edges[:]
            rng.shuffle(order)
            base = build_ops(n, order)
            for op in all_ops(n, edges, rng):
                seqs.append(base + [op])
    ctx.stats.notes["exhaustive_shapes"] = shapes
    ctx.stats.notes["exhaustive_max_minima"] = nmax
    run_sequences(ctx, seqs, "exhaustive")
    # a sample of the 4-minima shapes in the quick tier
    if not ctx.thorough:
        seqs = []
        pairs = [(u, v) for u in range(4) for v in range(u, 4)]
        for _ in range(40):
            edges = [p for p in pairs if rng.random() < 0.45]
            for op in all_ops(4, edges, rng):
                seqs.append(build_ops(4, edges) + [op])
        run_sequences(ctx, seqs, "sampled-4")
    # long random histories on larger networks
    seqs = [random_history(rng, ctx.scale(60, 200), 40) for _ in range(ctx.scale(12, 80))]
    run_sequences(ctx, seqs, "random-long")
    # malformed stream: the model must refuse exactly what the code rejects by raising
    seqs = []
    for _ in range(ctx.scale(30, 150)):
        h = random_history(rng, 8, 5)
        n = sum(1 for o in h if o[0] == "addmin")
        h.append(rng.choice([("rmmin", n + 3), ("rmts", 0, n + 2), ("rmts", 0, 0), ("rmminima", [n + 5], True)]))
        seqs.append(h)
    run_sequences(ctx, seqs, "malformed")


def random_history(rng, length: int, nmax: int) -> list[tuple]:
    """valid-by-construction history tracked with a shadow (n, edge set)"""
    n, edges, out = 0, set(), []
    for _ in range(length):
        r = rng.random()
        if n == 0 or (r < 0.3 and n < nmax):
            out.append(("addmin",)); n += 1
        elif r < 0.62:
            u, v = rng.randrange(n), rng.randrange(n)
            if rng.random() < 0.25 and edges:          # second TS for a connected pair
                u, v = rng.choice(sorted(edges))
                if rng.random() < 0.5:
                    u, v = v, u
            out.append(("addts", u, v, "tie") if rng.random() < 0.3 else ("addts", u, v))
            edges.add((min(u, v), max(u, v)))
        elif r < 0.72:
            k = rng.randrange(n)
            out.append(("rmmin", k))
            edges = {(a - (a > k), b - (b > k)) for a, b in edges if k not in (a, b)}
            n -= 1
        elif r < 0.80:
            ks = rng.sample(range(n), rng.randrange(0, min(n, 4) + 1))
            out.append(("rmminima", ks, rng.random() < 0.5))
            keep = [i for i in range(n) if i not in ks]
            m = {o: i for i, o in enumerate(keep)}
            edges = {(m[a], m[b]) for a, b in edges if a in m and b in m}
            n = len(keep)
        elif r < 0.9 and edges:
            u, v = rng.choice(sorted(edges))
            out.append(("rmts", u, v) if rng.random() < 0.5 else ("rmts", v, u)); edges.discard((u, v))
        elif r < 0.96 and len(edges) >= 2:
            ps = rng.sample(sorted(edges), rng.randrange(2, min(len(edges), 4) + 1))
            out.append(("rmtss", ps)); edges -= set(ps)
        elif r < 0.97:
            out.append(("reset",)); n, edges = 0, set()
        else:
            out.append(("addmin",)); n += 1
    return out


# ----------------------------------------------------------------------------- direct predicates


def predicate_history(ops: list[tuple], analyses: bool, rng, surface: str = "fd") -> tuple[str, str, dict] | None:
    """the property's own predicate on the real class: counts vs graph, labels 0..n-1, survivor
    data bit-identical to what was last given, order and connections of survivors.  Written from
    the statement with identity tracking, not from the model."""
    impl = Impl() if analyses else Impl(dim=1 + len(ops) % 3)
    k = impl.k
    ids: list[int] = []            # identity of the minimum at each index
    last: dict[int, str] = {}      # identity -> token last given
    ets: dict[frozenset, str] = {} # {identity pair} -> token last given
    nid = 0
    for step, op in enumerate(ops):
        kind = op[0]
        before_line = _line_of(op)
        try:
            line = impl.apply(op)
        except Exception as e:
            return ("apply-raises:" + kind, f"`{before_line}` raised {type(e).__name__}: {e}", {"step": step})
        if kind == "addmin":
            ids.append(nid); last[nid] = line.split(" ")[1]; nid += 1
        elif kind == "addts":
            ets[frozenset((ids[op[1]], ids[op[2]]))] = line.split(" ")[1]
        elif kind == "rmmin":
            gone = ids.pop(op[1]); ets = {p: t for p, t in ets.items() if gone not in p}
        elif kind == "rmminima":
            gone = {ids[i] for i in op[1]}
            ids = [i for i in ids if i not in gone]
            ets = {p: t for p, t in ets.items() if not (p & gone)}
        elif kind == "rmts":
            ets.pop(frozenset((ids[op[1]], ids[op[2]])))
        elif kind == "rmtss":
            for a, b in op[1]:
                ets.pop(frozenset((ids[a], ids[b])))
        elif kind == "reset":
            ids, ets = [], {}
        if analyses and rng.random() < 0.5 and k.n_minima > 0:
            err, name = run_analysis(impl, rng, surface)
            if err:
                return ("analysis-raises:" + name, err, {"step": step})
            # read-only analyses must leave every stored number bit-identical
            for idx, ident in enumerate(ids):
                if idx in k.G.nodes and impl.token_of(k.get_minimum_coords(idx), k.get_minimum_energy(idx)) != last[ident]:
                    return ("analysis-writes-store:" + name,
                            f"read-only analysis `{name}` ({surface} derivatives) changed the stored "
                            f"coordinates/energy of minimum {idx}", {"step": step, "analysis": name})
            for u, v in k.G.edges():
                if impl.token_of(k.get_ts_coords(u, v), k.get_ts_energy(u, v)) == "?":
                    return ("analysis-writes-store:" + name,
                            f"read-only analysis `{name}` ({surface} derivatives) changed the stored "
                            f"transition state {u}-{v}", {"step": step, "analysis": name})
            try:
                have = {frozenset((ids[int(u)], ids[int(v)])) for u, v in k.G.edges()}
            except (IndexError, ValueError):
                have = None
            if have != set(ets) or k.G.number_of_nodes() != len(ids):
                return ("analysis-writes-store:" + name,
                        f"read-only analysis `{name}` changed which minima / transition states are stored "
                        f"({k.G.number_of_nodes()} minima, {k.G.number_of_edges()} transition states afterwards; "
                        f"{len(ids)} and {len(ets)} before)", {"step": step, "analysis": name})
        # ---- the predicate
        labels = sorted(int(x) for x in k.G.nodes)
        if labels != list(range(len(ids))):
            return ("labels:" + kind, f"after `{line}` labels are {labels}, expected 0..{len(ids) - 1}", {"step": step})
        if k.n_minima != len(ids) or k.n_minima != k.G.number_of_nodes():
            return ("n_minima:" + kind, f"after `{line}` n_minima={k.n_minima}, stored {k.G.number_of_nodes()}, expected {len(ids)}", {"step": step})
        if k.n_ts != k.G.number_of_edges():
            return ("n_ts:" + kind, f"after `{line}` n_ts={k.n_ts} but {k.G.number_of_edges()} transition states are stored", {"step": step})
        for idx, ident in enumerate(ids):
            t = impl.token_of(k.get_minimum_coords(idx), k.get_minimum_energy(idx))
            if t != last[ident]:
                return ("survivor-data:" + kind, f"after `{line}` minimum {idx} holds {t}, was last given {last[ident]}", {"step": step})
        got = {}
        for u, v in k.G.edges():
            got[frozenset((ids[int(u)], ids[int(v)]))] = impl.token_of(k.get_ts_coords(u, v), k.get_ts_energy(u, v))
        if got != ets:
            return ("survivor-ts:" + kind, f"after `{line}` transition states {sorted(got.values())} expected {sorted(ets.values())}", {"step": step})
    return None


def failed_op_coherence(ops: list[tuple], bad: tuple) -> tuple[str, str, dict] | None:
    """a removal that names something not stored (a transition state listed twice or already gone, an index past
    the end) may raise, and may have removed the valid entries before it, but whatever it does the reported
    counts must still equal what is stored, the numbering must stay 0..n-1 and no stored datum may be invented"""
    impl = Impl()
    k = impl.k
    for op in ops:
        impl.apply(op)
    outcome = "returned"
    try:
        impl.apply(bad)
    except Exception as e:
        outcome = f"raised {type(e).__name__}"
    line = _line_of(bad)
    labels = sorted(int(x) for x in k.G.nodes)
    if labels != list(range(k.n_minima)) or k.n_minima != k.G.number_of_nodes():
        return ("failed-op-coherence:n_minima:" + bad[0],
                f"`{line}` {outcome}; afterwards n_minima={k.n_minima} but the stored labels are {labels}", {})
    if k.n_ts != k.G.number_of_edges():
        return ("failed-op-coherence:n_ts:" + bad[0],
                f"`{line}` {outcome}; afterwards n_ts={k.n_ts} but {k.G.number_of_edges()} transition states are stored", {})
    for i in range(k.n_minima):
        if impl.token_of(k.get_minimum_coords(i), k.get_minimum_energy(i)) == "?":
            return ("failed-op-coherence:data:" + bad[0], f"`{line}` {outcome}; minimum {i} holds data never given", {})
    for u, v in k.G.edges():
        if impl.token_of(k.get_ts_coords(u, v), k.get_ts_energy(u, v)) == "?":
            return ("failed-op-coherence:data:" + bad[0], f"`{line}` {outcome}; ts {u}-{v} holds data never given", {})
    return None


def shadow(ops: list[tuple]) -> tuple[int, list[tuple[int, int]]]:
    """(n, sorted edge list) after a valid history"""
    impl = Impl()
    for op in ops:
        impl.apply(op)
    return impl.k.n_minima, sorted((min(int(u), int(v)), max(int(u), int(v))) for u, v in impl.k.G.edges())


def bad_removals(rng, n: int, edges: list[tuple[int, int]]) -> list[tuple]:
    out = [("rmmin", n + rng.randrange(0, 3)), ("rmminima", sorted(rng.sample(range(n), min(n, 2))) + [n + 1], True)]
    if edges:
        u, v = rng.choice(edges)
        out += [("rmtss", [(u, v), (v, u)]), ("rmtss", [(u, v), (u, v)]),
                ("rmtss", [rng.choice(edges), (u, v), (n + 1, u)])]
        missing = [(a, b) for a in range(n) for b in range(a, n) if (a, b) not in edges]
        if missing:
            out += [("rmtss", [(u, v), rng.choice(missing)]), ("rmts",) + rng.choice(missing),
                    ("rmtss", [rng.choice(missing)] + [rng.choice(edges)])]
    return out


_SURF = {}


ANALYSES = ["get_invalid_minima", "bounds_minima", "closest_enumeration", "connect_unconnected",
            "connectivity+height", "roughness", "select_batch", "gradient+hessian", "distance_matrix", "connectivity_graph"]


def run_analysis(impl: Impl, rng, surface: str) -> tuple[str | None, str]:
    """every read-only analysis named by the property; they must leave the store untouched
    (checked by the token comparison of the caller)."""
    from topsearch.analysis import minima_properties as mp, pair_selection as ps, \
        graph_properties as gp, roughness, batch_selection as bs
    from topsearch.data.coordinates import StandardCoordinates
    from topsearch.similarity.similarity import StandardSimilarity
    from topsearch.potentials.test_functions import Camelback, Schwefel
    k = impl.k
    # ONE coordinates object for all analyses of a history, as a run has (the analyses leave it pointing wherever
    # they last looked; the next one must not write through it)
    coords = getattr(impl, "shared_coords", None)
    if coords is None:
        coords = impl.shared_coords = StandardCoordinates(ndim=2, bounds=[(-3.0, 3.0), (-2.0, 2.0)])
    sim = StandardSimilarity(0.05, 0.1)
    pot = Schwefel() if surface == "fd" else Camelback()
    which = rng.randrange(len(ANALYSES))
    name = ANALYSES[which]
    try:
        if which == 0:
            mp.get_invalid_minima(k, pot, coords)
        elif which == 1:
            mp.get_bounds_minima(k, coords); mp.get_all_bounds_minima(k, coords)
        elif which == 2:
            ps.closest_enumeration(k, sim, coords, 2)
        elif which == 3:
            ps.connect_unconnected(k, sim, coords, 2)
        elif which == 4:
            gp.unconnected_component(k); gp.all_minima_connected(k)
            gp.disconnected_height(k, 0, k.n_minima - 1, 5.0, 10.0)
        elif which == 5:
            roughness.roughness_metric(k)
        elif which == 6:
            # with and without an exclusion list (the selectors take their scan window from the ALLOWED part of the
            # network: transition states of excluded minima may lie far above it), fixed and free batch size
            excl = [] if rng.random() < 0.4 else sorted(rng.sample(range(k.n_minima), rng.randrange(1, max(2, k.n_minima))))
            if rng.random() < 0.3 and k.n_minima > 1:
                excl = list(bs.get_excluded_minima(k, energy_cutoff=float(np.median(
                    [k.get_minimum_energy(i) for i in range(k.n_minima)])), penalise_edge=False, coords=coords,
                    penalise_similarity=False, proximity_measure=0.1, known_points=None))
            before = list(excl)
            res = bs.select_batch(k, rng.choice([1, 1, 2, 3]), rng.choice(['Lowest', 'Monotonic', 'Barrier', 'Topographical']),
                                  rng.random() < 0.5, rng.choice([0.05, 0.5, 2.0]), excl)
            # what comes back is the caller's: a script rounds / rescales its batch in place before evaluating it
            for part in (res if isinstance(res, tuple) else (res,)):
                if isinstance(part, np.ndarray) and part.dtype.kind == "f" and part.flags.writeable:
                    part[...] = 9.75e8
            if list(excl) != before:
                return "analysis select_batch changed the caller's exclusion list", name
        elif which == 7:
            for i in range(k.n_minima):
                pot.gradient(k.get_minimum_coords(i))
                pot.hessian(k.get_minimum_coords(i))
        elif which == 8:
            mp.get_distance_matrix(k, sim, coords); mp.get_ordered_minima(k)
        else:
            from topsearch.plotting.disconnectivity import get_connectivity_graph
            es = [float(k.get_ts_energy(u, v)) for u, v in k.G.edges()] + [float(k.get_minimum_energy(i)) for i in range(k.n_minima)]
            top, low = max(es), min(es)
            # a zoom on the low-energy region: the top of the window lies below some transition states
            get_connectivity_graph(k, low + rng.choice([0.3, 0.6, 1.05]) * (top - low + 1.0), low - 0.5, rng.choice([1, 3, 7]))
        # the caller goes on using ITS coordinates object (whose box need not contain every stored minimum: a region of
        # interest, a shrunk box): bringing it back into its box is the caller's business, never the store's
        if getattr(coords, "position", None) is not None and np.size(coords.position) == coords.ndim:
            coords.move_to_bounds()
    except TypeError as e:
        return f"analysis {name} raised TypeError: {e}", name
    except Exception as e:
        return f"analysis {name} raised {type(e).__name__}: {e}", name
    return None, name


def atomic_analyses_predicate(seed: int) -> tuple[str, str, dict] | None:
    """the read-only analyses on an ATOMISTIC network (Lennard-Jones clusters stored off-centre, molecular similarity:
    distances are taken after alignment, which centres and rotates working copies): every stored number stays
    bit-identical"""
    import random
    import warnings
    from topsearch.analysis import minima_properties as mp, pair_selection as ps, graph_properties as gp, roughness, \
        batch_selection as bs
    from topsearch.data.coordinates import AtomicCoordinates
    from topsearch.data.kinetic_transition_network import KineticTransitionNetwork
    from topsearch.potentials.atomic import LennardJones
    from topsearch.sampling.exploration import NetworkSampling
    from topsearch.similarity.molecular_similarity import MolecularSimilarity
    rng = random.Random(seed)
    np.random.seed(seed % (2 ** 31))
    n_atoms, n_min = 5, rng.choice([3, 4, 5])
    base = np.array([[0, 0, 0], [1.1, 0, 0], [0.5, 0.95, 0], [0.5, 0.3, 0.9], [0.5, 0.3, -0.9]], dtype=float)
    k = KineticTransitionNetwork()
    for i in range(n_min):
        x = base + np.array([[rng.uniform(-0.15, 0.15) for _ in range(3)] for _ in range(n_atoms)])
        x = x + np.array([rng.uniform(-3, 3) for _ in range(3)])          # stored away from the origin
        k.add_minimum(x.flatten(), -9.0 + 0.3 * i)
    for _ in range(n_min):
        u, v = rng.randrange(n_min), rng.randrange(n_min)
        k.add_ts((base + rng.uniform(0.2, 0.4)).flatten() + 1.0, -7.5 + rng.random(), u, v)
    snap = lambda: ([(int(l), k.G.nodes[l]["coords"].tobytes(), np.float64(k.G.nodes[l]["energy"]).tobytes()) for l in k.G.nodes],
                    sorted((min(int(u), int(v)), max(int(u), int(v)), k.G[u][v]["coords"].tobytes(),
                            np.float64(k.G[u][v]["energy"]).tobytes()) for u, v in k.G.edges()), k.n_minima, k.n_ts)
    before = snap()
    coords = AtomicCoordinates(["C"] * n_atoms, np.array(k.get_minimum_coords(0)).copy())
    sim = MolecularSimilarity(0.05, 1e-3, weighted=rng.random() < 0.5, allow_inversion=rng.random() < 0.5)
    samp = NetworkSampling(k, coords, None, None, None, sim)
    pot = LennardJones()
    analyses = [("distance_matrix", lambda: mp.get_distance_matrix(k, sim, coords)),
                ("distance_from_minimum", lambda: mp.get_distance_from_minimum(k, sim, coords, 0)),
                ("closest_enumeration", lambda: ps.closest_enumeration(k, sim, coords, 2)),
                ("connect_unconnected", lambda: ps.connect_unconnected(k, sim, coords, 1)),
                ("select_minima", lambda: samp.select_minima(coords, "ClosestEnumeration", 1)),
                ("get_invalid_minima", lambda: mp.get_invalid_minima(k, pot, coords)),
                ("bounds_minima", lambda: mp.get_bounds_minima(k, coords)),
                ("connectivity", lambda: (gp.unconnected_component(k), gp.all_minima_connected(k))),
                ("roughness", lambda: roughness.roughness_metric(k)),
                ("select_batch", lambda: bs.select_batch(k, 2, "Lowest", False, 0.5, []))]
    rng.shuffle(analyses)
    for name, fn in analyses:
        try:
            with warnings.catch_warnings(), np.errstate(all="ignore"):
                warnings.simplefilter("ignore")
                fn()
        except Exception as e:          # noqa: BLE001 - an analysis that does not apply to this network is not the point here
            continue
        if snap() != before:
            return ("analysis-writes-store:" + name + ":atomistic",
                    f"read-only analysis `{name}` on a network of {n_min} five-atom clusters (molecular similarity) changed a "
                    "stored coordinate / energy / connection", {"atomic_seed": seed, "analysis": name})
    return None


def merge_isolation_predicate(seed: int) -> tuple[str, str, dict] | None:
    """two networks stay two stores: after `target.add_network(source)` (into an empty or a non-empty target, the
    multiprocessing scripts merge their workers' networks into a fresh master) editing either one leaves every stored
    number, the numbering and the counts of the other exactly as they were"""
    import random
    from topsearch.data.coordinates import StandardCoordinates
    from topsearch.data.kinetic_transition_network import KineticTransitionNetwork
    from topsearch.similarity.similarity import StandardSimilarity
    rng = random.Random(seed)

    def grow(k, n, shift):
        for i in range(n):
            k.add_minimum(np.array([shift + 0.7 * i + rng.random() * 0.1, rng.uniform(-1.5, 1.5)]), rng.uniform(-2, 0) - i)
        for _ in range(rng.randrange(0, n + 1)):
            u, v = rng.randrange(n), rng.randrange(n)
            k.add_ts(np.array([rng.uniform(-2.5, 2.5), rng.uniform(-1.5, 1.5)]), rng.uniform(1, 3), u, v)

    def snap(k):
        return (k.n_minima, k.n_ts, sorted(int(x) for x in k.G.nodes),
                [(k.get_minimum_coords(i).tobytes(), float(k.get_minimum_energy(i))) for i in range(k.n_minima)
                 if i in k.G.nodes],
                sorted((min(int(u), int(v)), max(int(u), int(v)), k.G[u][v]["coords"].tobytes(), float(k.G[u][v]["energy"]))
                       for u, v in k.G.edges()),
                np.asarray(k.pairlist).tolist())

    def coherent(k):
        return sorted(int(x) for x in k.G.nodes) == list(range(k.n_minima)) and k.n_ts == k.G.number_of_edges()

    def edit(k):
        what = rng.choice(["addmin", "addts", "rmmin", "rmts"])
        if what == "addmin" or k.n_minima < 2:
            k.add_minimum(np.array([rng.uniform(-2.9, 2.9), rng.uniform(-1.9, 1.9)]), rng.uniform(-5, -3))
        elif what == "addts":
            k.add_ts(np.array([rng.uniform(-2.9, 2.9), rng.uniform(-1.9, 1.9)]), rng.uniform(3, 4),
                     rng.randrange(k.n_minima), rng.randrange(k.n_minima))
        elif what == "rmmin":
            k.remove_minimum(rng.randrange(k.n_minima))
        elif k.n_ts > 0:
            u, v = rng.choice(list(k.G.edges()))
            k.remove_ts(u, v)
        return what

    coords = StandardCoordinates(ndim=2, bounds=[(-3.0, 3.0), (-2.0, 2.0)])
    sim = StandardSimilarity(0.05, 0.1)
    src, tgt = KineticTransitionNetwork(), KineticTransitionNetwork()
    grow(src, rng.choice([1, 2, 3, 4]), -2.5)
    n_tgt = rng.choice([0, 0, 1, 3])
    if n_tgt:
        grow(tgt, n_tgt, 0.4)
    if rng.random() < 0.3:
        tgt.reset_network()
        n_tgt = 0
    tgt.add_network(src, sim, coords)
    info = {"merge_seed": seed, "target_minima_before": n_tgt}
    if not coherent(tgt) or not coherent(src):
        return ("merge:incoherent", f"after merging {src.n_minima} minima into a network of {n_tgt}: numbering/counts of "
                f"target {sorted(tgt.G.nodes)}/{tgt.n_minima}/{tgt.n_ts} or source are incoherent", info)
    for who, (a, b) in (("source", (src, tgt)), ("target", (tgt, src))) * 2:
        before = snap(b)
        for _ in range(rng.randrange(1, 4)):
            what = edit(a)
            if snap(b) != before:
                other = "target" if who == "source" else "source"
                return ("merge:shared-store", f"after add_network (target had {n_tgt} minima), `{what}` on the {who} network "
                        f"changed the {other} network's stored data / numbering / counts", info)
            if not coherent(a) or not coherent(b):
                return ("merge:incoherent", f"after add_network and `{what}` on the {who} network a network's counts no "
                        f"longer equal what it stores", info)
    return None


def predicates(ctx: Ctx) -> None:
    for sd in range(ctx.seed * 1000, ctx.seed * 1000 + ctx.scale(40, 300)):
        r = merge_isolation_predicate(sd)
        ctx.stats.case({"stream": "predicate-merge-isolation", "seed": sd}, True)
        if r:
            ctx.fail(r[0], r[1], r[2])
            break
    rng = ctx.rng
    for _ in range(ctx.scale(4, 20)):
        sd = rng.randrange(1 << 30)
        r = atomic_analyses_predicate(sd)
        ctx.stats.case({"stream": "predicate-atomistic-analyses", "seed": sd}, True)
        if r:
            ctx.fail(r[0], r[1], r[2])
            break
    # corpus first: the minimal histories of past failures
    corpus = [
        ("corpus:one-dimensional-landscape", [("addmin",), ("addmin",), ("addts", 0, 1)]),
        ("corpus:one-dimensional-landscape-edits", [("addmin",)] * 3 + [("addts", 0, 1), ("addts", 2, 2), ("rmmin", 0)]),
        ("corpus:second-ts-on-pair", [("addmin",), ("addmin",), ("addts", 0, 1), ("addts", 1, 0)]),
        ("corpus:self-loop-remove", [("addmin",), ("addmin",), ("addts", 1, 1), ("addts", 0, 1), ("rmmin", 1)]),
        ("corpus:bulk-remove", [("addmin",)] * 5 + [("addts", 0, 4), ("addts", 1, 3), ("rmminima", [3, 0], True)]),
        ("corpus:tied-energy-second-ts", [("addmin",)] * 3 + [("addts", 0, 1), ("addts", 1, 0, "tie"), ("addts", 2, 2),
                                                             ("addts", 2, 2, "tie"), ("rmmin", 0)]),
    ]
    for name, ops in corpus:
        r = predicate_history(ops, False, rng)
        ctx.stats.case({"stream": "predicate-corpus", "name": name, "dimension": 1 + len(ops) % 3}, True)
        if r:
            ctx.fail(r[0], r[1] + f" ({1 + len(ops) % 3}-dimensional landscape)",
                     {"ops": [_line_of(o) for o in ops], "raw_ops": ops, "analyses": False, **r[2]})
    # removals that name something not stored: counts and numbering stay coherent whatever the call does
    fixed = [[("addmin",), ("addmin",), ("addts", 0, 1)],
             [("addmin",)] * 4 + [("addts", 0, 1), ("addts", 1, 2), ("addts", 2, 2), ("addts", 0, 3)]]
    hs = fixed + [random_history(rng, rng.randrange(6, 25), 7) for _ in range(ctx.scale(25, 150))]
    for ops in hs:
        nn, ee = shadow(ops)
        if nn == 0:
            continue
        for bad in bad_removals(rng, nn, ee):
            r = failed_op_coherence(ops, bad)
            ctx.stats.case({"stream": "predicate-failed-removal", "op": bad[0], "n": nn, "m": len(ee)}, True)
            if r:
                ctx.fail(r[0], r[1], {"ops": [_line_of(o) for o in ops] + [_line_of(bad)], "raw_ops": ops,
                                      "bad_op": bad})
                break
    n = ctx.scale(40, 300) * (4 if getattr(ctx, "deep_search", False) else 1)
    for i in range(n):
        ops = random_history(rng, ctx.scale(40, 120), 12)
        surface = "fd" if i % 2 == 0 else "coded"
        r = predicate_history(ops, True, rng, surface)
        ctx.stats.case({"stream": "predicate-random", "len": len(ops), "surface": surface}, True)
        if r:
            ops = shrink(ops, r[0], surface)
            r2 = predicate_history(ops, True, __import__("random").Random(1), surface) or r
            ctx.fail(r[0], r2[1], {"ops": [_line_of(o) for o in ops], "raw_ops": ops, "surface": surface, **r2[2]})


def shrink(ops: list[tuple], key: str, surface: str) -> list[tuple]:
    """greedy prefix + single-op deletion while the same failure key persists"""
    import random
    def fails(o):
        try:
            r = predicate_history(o, True, random.Random(1), surface)
        except Exception:
            return False
        return r is not None and r[0] == key
    # shortest failing prefix
    for n in range(1, len(ops) + 1):
        if fails(ops[:n]):
            ops = ops[:n]
            break
    return ops


def replay(ctx: Ctx, data: dict) -> bool:
    import random
    ops = [tuple(tuple(x) if isinstance(x, list) and x and isinstance(x[0], list) else x for x in o)
           for o in data.get("raw_ops", [])]
    ops = [tuple(o) for o in ops]
    if "merge_seed" in data:
        r = merge_isolation_predicate(int(data["merge_seed"]))
        if r:
            print(f"  {r[0]}: {r[1]}")
        return r is None
    if "atomic_seed" in data:
        r = atomic_analyses_predicate(int(data["atomic_seed"]))
        if r:
            print(f"  {r[0]}: {r[1]}")
        return r is None
    if "bad_op" in data:
        b = data["bad_op"]
        bad = tuple([tuple(x) for x in e] if isinstance(e, list) and e and isinstance(e[0], list) else e for e in b)
        r = failed_op_coherence(ops, bad)
        if r:
            print(f"  {r[0]}: {r[1]}")
        return r is None
    r = predicate_history(ops, bool(data.get("analyses", True)), random.Random(1), data.get("surface", "fd"))
    if r:
        print(f"  {r[0]}: {r[1]}")
    return r is None
