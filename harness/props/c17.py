"""C17 — batch selection honours exclusions, size, ordering and barrier separation.

Tie #1: translate.graph reads from batch_selection.py the `<=` of monotonic_batch_selector, the
`height > 1e9` and `min(b1, b2) < cutoff` tests of sufficient_barrier, the skip test and the
`e_range` expression of barrier_batch_selector, the `1e5` default and the dispatch strings of
generate_batch (bridge lemma `C17_bridge_bcfg : Gen.Graph.bcfg = stdBCfg`); the scan constants
come with C18's record.
Tie #2 (pure correspondence): the four selectors, fill_batch, the in-place aliasing of
`current_batch_indices`, and select_batch for every scheme x fixed/non-fixed x sizes on REAL
KineticTransitionNetwork objects against Drivers/Graph.lean.  Energies sit on a grid
(min = 0, highest transition state = 510*delta, delta dyadic) so that every scan threshold,
barrier and cut-off is a binary64 number and all comparisons - including exact ties - agree with
exact arithmetic.  np.argsort's permutation is fed to the model as an oracle (validated: it must
be a sorting permutation).
Predicates: every clause of the statement, written from the statement with an independent
union-find minimax, on grid and on generic float networks.
"""
from __future__ import annotations

import numpy as np

from common import Ctx, run_driver, frac
from props import c18
from props.c18 import build, net_line, ref_component, ref_minimax, _fmt, _exc
from translate import graph as graph_tr

PROP = "C17"
LEAN_MODULE = "TopSearch.Props.C17Barrier"
LEAN_FILES = ["TopSearch.Props.C17", "TopSearch.Props.C17Barrier", "TopSearch.Props.C18Minimax", "TopSearch.Lemmas.Graph", "TopSearch.Model.Graph",
              "TopSearch.Model.Batch"]
EXTRA_TARGETS = ["TopSearch.Gen.Graph", "TopSearch.Model.Batch"]
_P = "TopSearch.Props.C17."
REQUIRED = [_P + n for n in [
    "height_lt_minimax", "C17_barrier_true_barrier",
    "C17_bridge_bcfg",
    "C17_no_excluded",
    "C17_no_repeat",
    "C17_size_le",
    "C17_fixed_fills",
    "C17_coords",
    "C17_lowest_sorted",
    "C17_monotonic_iff",
    "C17_barrier_pairwise",
    "C17_barrier_complete",
    "C17_window_covers",
    "C17_window_misses_original",
    "C17_topographical",
]]
RULE = ("cases = (network, exclusion list, selector call) triples compared model-vs-implementation; "
        "non-trivial = the network has a transition state and the answer is a non-empty batch; "
        "distinct = distinct (network, exclusions, call, answer)")
ASSUMPTIONS = [
    "np.argsort returns a sorting permutation (not necessarily stable): the permutation is an input "
    "of the model, validated on every case; theorems hold for every sorting permutation",
    "disconnected_height is the scan of Model/Graph.lean (C18 correspondence); networkx components = "
    "reachability",
    "np.max / np.min over the energies; Python's min(a, b) / max(a, b) tie rule (irrelevant to values)",
]
TRUSTED_EXTRA = ["oracle contracts: np.argsort is a sorting permutation; nx-components (= reachability)"]
PARTIAL = ("binary64 rounding of scan thresholds and barriers is not modelled (exact grid inputs in the "
           "correspondence, tolerance in the predicates); get_batch_positions is a row copy observed "
           "bit-for-bit, its theorem (C17_coords) is about the list model")

SCHEMES = ["Lowest", "Monotonic", "Barrier", "Topographical"]


def regenerate(ctx: Ctx) -> None:
    ctx.gen_status.update(graph_tr.regenerate())
    from translate import transcripts
    ctx.gen_status.update(transcripts.check(["get_minima_energies", "get_ordered_minima", "get_batch_positions"]))


# ----------------------------------------------------------------------------- generators


def grid_spec(rng, nmax: int = 8) -> tuple[dict, float]:
    """network whose scan is exact: min E = 0, highest TS = 510*delta, everything on the delta grid"""
    delta = rng.choice([1 / 64, 1 / 32, 1 / 16])
    s = c18.random_spec(rng, nmax=nmax, allow_below=False)
    n = len(s["E"])
    levels = rng.choice([2, 3, 5, 40, 200])
    step = 400 // levels
    E = [rng.randrange(0, levels) * step * delta for _ in range(n)]
    E[rng.randrange(n)] = 0.0
    ts = []
    for u, v, _, c in s["ts"]:
        hi = max(E[u], E[v])
        room = int(round((510 * delta - hi) / delta))
        r = rng.random()
        if r < 0.08:
            e = min(E[u], E[v]) - rng.randrange(0, 3) * delta      # below its minima
        elif r < 0.15:
            e = hi                                                  # zero barrier
        else:
            e = hi + rng.randrange(1, max(2, min(room, rng.choice([4, 40, room])) + 1)) * delta
        ts.append([u, v, min(e, 510 * delta), c])
    if ts:
        ts[rng.randrange(len(ts))][2] = 510 * delta
    return {"E": E, "coords": s["coords"], "ts": ts}, delta


def random_excl(rng, n: int) -> list[int]:
    r = rng.random()
    if r < 0.3:
        return []
    ex = [i for i in range(n) if rng.random() < rng.choice([0.15, 0.4])]
    if rng.random() < 0.1 and ex:
        ex.append(ex[0])                     # a duplicate entry
    if rng.random() < 0.1:
        ex.append(n + 3)                     # an index that names no minimum
    rng.shuffle(ex)
    return ex


# ----------------------------------------------------------------------------- correspondence


def correspond(ctx: Ctx) -> None:
    from topsearch.analysis import batch_selection as bs, minima_properties as mp
    rng = ctx.rng
    lines = ["cfg gen"]
    expect: list = [("ok", None, None, None)]

    def add(line, ans, kind, spec, info=None):
        lines.append(line)
        expect.append((ans, kind, spec, info))

    cases = []
    # corpus: the witness of the repaired scan window, degenerate minima, isolated / self-connected
    # (highest TS = 510/64 so that the scan thresholds are binary64 numbers)
    w = {"E": [0.0, 1.0, 0.5], "coords": [[0, 0], [1, 0], [2, 0]],
         "ts": [[0, 1, 2.0, [0.5, 0]], [1, 2, 510 / 64, [1.5, 0]]]}
    cases.append((w, 1 / 64))
    cases.append(({"E": [0.0, 0.0, 0.0], "coords": [[0, 0], [1, 0], [2, 0]],
                   "ts": [[0, 1, 2.0, [0.5, 0]], [1, 2, 510 / 64, [1.5, 0]]]}, 1 / 64))
    cases.append(({"E": [0.0, 0.5], "coords": [[0, 0], [1, 0]], "ts": [[1, 1, 2.0, [1, 1]]]}, 1 / 8))
    cases.append(({"E": [0.25], "coords": [[0, 0]], "ts": []}, 1 / 8))
    for _ in range(ctx.scale(45, 320)):
        cases.append(grid_spec(rng, nmax=rng.choice([3, 5, 7, 9])))
    for spec, delta in cases:
        n = len(spec["E"])
        k = build(spec)
        add(net_line(spec), "ok", "net", spec)
        order = [int(x) for x in mp.get_ordered_minima(k).tolist()]
        add("order " + _fmt(order), "ok", "order", spec)
        ctx.contract("argsort-is-sorting-permutation",
                     sorted(order) == list(range(n)) and all(spec["E"][a] <= spec["E"][b]
                                                             for a, b in zip(order, order[1:])))
        for _ in range(2):
            excl = random_excl(rng, n)
            add("excl " + _fmt(excl), "ok", "excl", spec)
            info = {"excl": excl, "order": order}
            add("lowest", _fmt(bs.lowest_batch_selector(k, list(excl))), "lowest", spec, info)
            add("mono", _fmt(int(x) for x in bs.monotonic_batch_selector(k, list(excl))), "mono", spec, info)
            cut = rng.choice([0, 1, 2, 8, 40, 100, 300]) * delta
            cur0 = []
            if rng.random() < 0.3:
                cur0 = rng.sample(range(n), rng.randint(0, min(n, 3)))
            cur = list(cur0)
            b = bs.barrier_batch_selector(k, list(excl), cut, cur)
            add(f"barrier {frac(cut)} {_fmt(cur0)}", f"b={_fmt(int(x) for x in b)} cur={_fmt(int(x) for x in cur)}",
                "barrier", spec, info)
            add(f"topo {frac(cut)}", _fmt(int(x) for x in bs.topographical_batch_selector(k, list(excl), cut)),
                "topo", spec, info)
            batch = rng.sample(range(n), rng.randint(0, n))
            add(f"fill {_fmt(batch)}", _fmt(int(x) for x in bs.fill_batch(k, list(batch), list(excl))),
                "fill", spec, info)
            for scheme in SCHEMES:
                for fixed in (False, True):
                    if rng.random() < 0.45:
                        continue
                    size = rng.choice([0, 1, 2, 3, n, n + 2]) if rng.random() < 0.8 else rng.randint(0, n)
                    bc = rng.choice([0.0, 0.125, 0.25, 0.5, 1.0, 2.0])
                    idx, pts = bs.select_batch(k, size, scheme, fixed, bc, list(excl))
                    idx = [int(x) for x in idx]
                    ok_coords = pts.shape[0] == len(idx) and all(
                        np.array_equal(pts[r], k.get_minimum_coords(i)) for r, i in enumerate(idx))
                    add(f"select {size} {scheme} {int(fixed)} {frac(bc)}",
                        _fmt(idx) + ("" if ok_coords else " COORDS-MISMATCH"), "select", spec,
                        {**info, "scheme": scheme, "fixed": fixed})
            if rng.random() < 0.08:
                add("select 2 Steepest 0 1/2",
                    _exc(lambda: _fmt(bs.select_batch(k, 2, "Steepest", False, 0.5, list(excl))[0])),
                    "select-malformed", spec, info)

    out = run_driver("Graph", lines)
    if len(out) != len(expect):
        ctx.diverge("graph-driver-length", f"driver answered {len(out)} lines for {len(expect)}", {})
        return
    for (ans, kind, spec, info), got, line in zip(expect, out, lines):
        if kind in (None, "net", "order", "excl"):
            if got != ans:
                ctx.diverge(f"c17:{kind}", f"driver refused `{line}`: {got}", {"spec": spec, "line": line})
            continue
        if isinstance(ans, str) and ans.startswith("raise:"):
            same = got == "raise"
            tag = kind + ":raises"
        else:
            same = got == ans
            tag = kind
            if kind == "select":
                tag = f"select:{info['scheme']}:{'fixed' if info['fixed'] else 'free'}"
        nontrivial = bool(spec["ts"]) and got not in ("-", "guard", "bad-op", "raise", "b=- cur=-")
        ctx.stats.case({"call": line, "net": net_line(spec), "excl": info["excl"], "answer": got}, nontrivial)
        ctx.stats.branch(tag)
        if kind in ("barrier", "topo") or (kind == "select" and info["scheme"] in ("Barrier", "Topographical")):
            ctx.stats.branch("barrier-picks:" + str(min(4, got.count(",") + (0 if got in ("-",) else 1)
                                                        if kind != "barrier" else
                                                        got.split(" ")[0].count(",") + (got.split(" ")[0] != "b=-"))))
        if not same:
            ctx.diverge(f"c17:{kind}", f"`{line}` (excluded {info['excl']}) on {net_line(spec)}: "
                        f"implementation {ans} / model {got}",
                        {"spec": spec, "line": line, "impl": ans, "model": got, "info": info})


# ----------------------------------------------------------------------------- predicates


def _edges(spec):
    return [(t[0], t[1]) for t in spec["ts"]]


def spec_monotonic(spec, excl) -> set:
    """from the statement: allowed minima that have a connection (a self-connection counts) and no
    allowed neighbour (other than themselves) of lower-or-equal value"""
    E, ex = spec["E"], set(excl)
    out = set()
    for i in range(len(E)):
        if i in ex:
            continue
        inc = [(u, v) for u, v in _edges(spec) if u == i or v == i]
        if not inc:
            continue
        nb = {v if u == i else u for u, v in inc} - {i}
        if all(E[j] > E[i] for j in nb if j not in ex):
            out.add(i)
    return out


def check_barrier_part(spec, excl, cut, order, before, picks, ts_above, rep, window=None) -> tuple | None:
    """clauses on the barrier picks `picks` made on top of the already chosen list `before`
    (empty for 'Barrier', the monotonic batch for 'Topographical')"""
    from topsearch.analysis import batch_selection as bs
    E, n, ex = spec["E"], len(spec["E"]), set(excl)
    ts_e = [t[2] for t in spec["ts"]]
    max_ts = max(ts_e) if ts_e else 1e5
    lo = min(E)
    e_range = max(max(E), max_ts) - lo
    # "one scan step" of the statement is the resolution the landscape itself fixes: 1/510 of the span from the lowest
    # minimum to the highest stationary point (the window `C17_window_covers` is proved for).  The window the code
    # really scanned (observed from outside at disconnected_height) only replaces it when the two agree to rounding —
    # a selector that scans some other window has a different "step", and omissions are judged by the landscape's
    if window is not None and abs(window[0] - max_ts) <= 1e-9 * max(1.0, abs(max_ts)) and \
            abs(window[1] - e_range) <= 1e-9 * max(1.0, abs(e_range)):
        max_ts, e_range = window
    step = e_range / 510
    tol = 1e-9 * max(1.0, abs(max_ts), abs(cut))
    chosen = list(before)
    pos = {m: q for q, m in enumerate(order)}
    pick_set = set(picks)
    for i in order:
        if i in before or i in ex:
            if i in pick_set:
                return ("barrier:picked-excluded-or-current", f"minimum {i} was picked though excluded or "
                        f"already chosen", rep)
            continue
        barriers = []
        for j in chosen:
            m = ref_minimax(n, spec["ts"], i, j)
            barriers.append((j, m, None if m is None else min(m - E[i], m - E[j])))
        if i in pick_set:
            for j, m, bar in barriers:
                if m is None:
                    return ("barrier:picks-not-connected", f"picks {j} and {i} are not connected", rep)
                if bar < cut - tol:
                    return ("barrier:pair-below-cutoff", f"picks {j} and {i}: barrier {bar} below the cut-off "
                            f"{cut}", rep)
            chosen.append(i)
        elif ts_above and step >= 0:
            # not picked: it must fail to clear some earlier pick by more than one scan step
            if barriers and all(m is not None and bar > cut + step * (1 + 1e-9) + tol for j, m, bar in barriers) \
                    or not barriers:
                e0 = max_ts + 10 * step
                e529 = e0 - 529 * step
                inside = all(e529 + tol < m <= e0 for j, m, bar in barriers)
                key = "barrier-omits:inside-window" if inside else "barrier-omits:minimax-outside-window"
                return (key, f"minimum {i} clears every earlier pick {[j for j, _, _ in barriers]} by more than "
                        f"one scan step (barriers {[bar for _, _, bar in barriers]}, cut-off {cut}, step {step}) "
                        f"but was omitted", rep)
    if [p for p in picks if p not in chosen]:
        return ("barrier:order", f"barrier picks {picks} are not in ascending processing order", rep)
    return None


def pred_select(spec, excl, size, scheme, fixed, bc, ts_above=True, excl_obj=None) -> tuple | None:
    """every clause of C17 on one call of select_batch (+ the selector itself); `excl_obj` is the list object
    handed to the call (a caller may keep one exclusion list and reuse it), `excl` what it is meant to hold"""
    from topsearch.analysis import batch_selection as bs, minima_properties as mp
    E, n, ex = spec["E"], len(spec["E"]), set(excl)
    k = build(spec)
    rep = {"pred": "select", "spec": spec, "excl": excl, "size": size, "scheme": scheme, "fixed": fixed,
           "bc": bc, "ts_above": ts_above}
    idx, pts = bs.select_batch(k, size, scheme, fixed, bc, list(excl) if excl_obj is None else excl_obj)
    idx = [int(x) for x in idx]
    # observe (from outside) the scan window the selector hands to disconnected_height
    seen = []
    real_height = bs.disconnected_height

    def spy(ktn, a, b, max_ts_energy, e_range):
        seen.append((float(max_ts_energy), float(e_range)))
        return real_height(ktn, a, b, max_ts_energy, e_range)
    allowed = [i for i in range(n) if i not in ex]
    site = f"select_batch:{scheme}"
    if set(idx) & ex:
        return (site + ":excluded-in-batch", f"batch {idx} contains excluded {sorted(set(idx) & ex)}", rep)
    if len(set(idx)) != len(idx):
        return (site + ":repeat", f"batch {idx} repeats a minimum", rep)
    if len(idx) > size:
        return (site + ":too-large", f"batch {idx} exceeds the requested size {size}", rep)
    if fixed and len(allowed) >= size and len(idx) != size:
        return (site + ":fixed-not-filled", f"fixed size {size} requested, {len(allowed)} allowed minima, "
                f"batch {idx}", rep)
    if pts.shape[0] != len(idx) or any(not np.array_equal(pts[r], np.asarray(spec["coords"][i], dtype=float))
                                       for r, i in enumerate(idx)):
        return (site + ":coords", f"coordinates of batch {idx} are not those of the listed minima", rep)
    # the selector itself
    cut = bc * (max(E) - min(E))
    bs.disconnected_height = spy
    try:
        gen = [int(x) for x in bs.generate_batch(build(spec), scheme, list(excl), cut)]
    finally:
        bs.disconnected_height = real_height
    window = seen[0] if seen and all(w == seen[0] for w in seen) else None
    order = [int(x) for x in mp.get_ordered_minima(k).tolist()]
    if set(gen) & ex or len(set(gen)) != len(gen):
        return (f"generate_batch:{scheme}:excluded-or-repeat", f"{gen}", rep)
    if scheme == "Lowest":
        if sorted(gen) != sorted(allowed) or any(E[a] > E[b] for a, b in zip(gen, gen[1:])):
            return ("lowest_batch_selector:not-ascending-allowed", f"{gen} is not the allowed minima in "
                    f"ascending value", rep)
    want = spec_monotonic(spec, excl)
    if scheme == "Monotonic":
        if set(gen) != want:
            return ("monotonic_batch_selector:set", f"returned {sorted(gen)}, the statement gives {sorted(want)}", rep)
    if scheme == "Barrier":
        r = check_barrier_part(spec, excl, cut, order, [], gen, ts_above, rep, window)
        if r:
            return r
    if scheme == "Topographical":
        mono = [int(x) for x in bs.monotonic_batch_selector(build(spec), list(excl))]
        if gen[:len(mono)] != mono:
            return ("topographical_batch_selector:prefix", f"{gen} does not start with the monotonic batch {mono}", rep)
        if set(mono) != want:
            return ("topographical_batch_selector:monotonic-set", f"monotonic part {sorted(mono)}, the statement "
                    f"gives {sorted(want)}", rep)
        r = check_barrier_part(spec, excl, cut, order, mono, gen[len(mono):], ts_above, rep, window)
        if r:
            return (r[0].replace("barrier", "topographical-barrier", 1) if not r[0].startswith("barrier-omits")
                    else r[0], r[1], r[2])
    # a non-fixed batch is the selector's answer cut to size
    if not fixed and idx != gen[:size]:
        return (site + ":not-prefix", f"batch {idx} is not the first {size} of {gen}", rep)
    if fixed and len(gen) < size:
        rest = idx[len(gen):]
        if idx[:len(gen)] != gen or any(E[a] > E[b] for a, b in zip(rest, rest[1:])):
            return (site + ":fill", f"fixed batch {idx}: not {gen} followed by the lowest remaining minima", rep)
    return None


CORPUS = [
    # the witness of the scan-window defect (repaired in 05ee362): minimum 1 clears both picks
    {"spec": {"E": [0.0, 1.0, 0.5], "coords": [[0, 0], [1, 0], [2, 0]],
              "ts": [[0, 1, 2.0, [0.5, 0]], [1, 2, 10.0, [1.5, 0]]]},
     "excl": [], "size": 3, "scheme": "Barrier", "fixed": False, "bc": 0.5},
    # degenerate minima: the original window had zero width
    {"spec": {"E": [1.0, 1.0, 1.0], "coords": [[0, 0], [1, 0], [2, 0]],
              "ts": [[0, 1, 2.0, [0.5, 0]], [1, 2, 3.0, [1.5, 0]]]},
     "excl": [], "size": 3, "scheme": "Barrier", "fixed": False, "bc": 0.5},
    {"spec": {"E": [0.0, 1.0, 0.5], "coords": [[0, 0], [1, 0], [2, 0]],
              "ts": [[0, 1, 2.0, [0.5, 0]], [1, 2, 10.0, [1.5, 0]]]},
     "excl": [2], "size": 3, "scheme": "Topographical", "fixed": True, "bc": 0.5},
    # a self-connection counts as a connection; equal neighbours spoil both
    {"spec": {"E": [0.5, 0.5, 0.25, 1.0], "coords": [[0, 0], [1, 0], [2, 0], [3, 0]],
              "ts": [[0, 1, 2.0, [0.5, 0]], [2, 2, 1.0, [2, 1]]]},
     "excl": [], "size": 4, "scheme": "Monotonic", "fixed": False, "bc": 0.5},
    {"spec": {"E": [0.5, 0.25, 1.0], "coords": [[0, 0], [1, 0], [2, 0]],
              "ts": [[0, 1, 2.0, [0.5, 0]], [0, 2, 3.0, [1, 0]]]},
     "excl": [1], "size": 2, "scheme": "Monotonic", "fixed": True, "bc": 0.5},
]


def pred_sequence(spec, excl, calls, ts_above=True) -> tuple | None:
    """several batches requested from one network with the caller's one exclusion list object: each call is
    judged against what that list was given to hold"""
    shared = list(excl)
    for n_call, (size, scheme, fixed, bc) in enumerate(calls):
        r = pred_select(spec, excl, size, scheme, fixed, bc, ts_above, excl_obj=shared)
        if r:
            rep = {"pred": "sequence", "spec": spec, "excl": excl, "calls": [list(c) for c in calls[:n_call + 1]],
                   "ts_above": ts_above}
            return (r[0], f"call {n_call + 1} of a series sharing one exclusion list: " + r[1], rep)
    return None


def predicates(ctx: Ctx) -> None:
    rng = ctx.rng
    for it in range(ctx.scale(25, 150) * (4 if getattr(ctx, "deep_search", False) else 1)):
        spec = c18.float_spec(rng, nmax=9)
        nn = len(spec["E"])
        excl = random_excl(rng, nn)
        calls = [(rng.choice([1, 2, 3, nn]), rng.choice(SCHEMES), rng.random() < 0.7,
                  rng.choice([0.0, 0.1, 0.3, 1.0])) for _ in range(3)]
        r = pred_sequence(spec, excl, calls)
        ctx.stats.case({"stream": "predicate-shared-exclusions", "n": nn, "calls": len(calls)}, True)
        if r:
            ctx.fail(*r)
            break
    for d in CORPUS:
        r = pred_select(d["spec"], d["excl"], d["size"], d["scheme"], d["fixed"], d["bc"])
        ctx.stats.case({"stream": "predicate-corpus", **{q: d[q] for q in ("scheme", "size", "fixed")}}, True)
        if r:
            ctx.fail(*r)
    n = ctx.scale(70, 600) * (4 if getattr(ctx, "deep_search", False) else 1)
    for it in range(n):
        if it % 3 == 0:
            spec, _ = grid_spec(rng, nmax=10)
            ts_above = all(e > max(spec["E"][u], spec["E"][v]) for u, v, e, _ in spec["ts"] if u != v)
        else:
            spec = c18.float_spec(rng, nmax=10)
            ts_above = True
        if it % 5 == 4 and spec["ts"]:
            # the zero of energy is arbitrary: put it exactly on the highest transition state (0.0 — or -0.0 — is a value
            # like any other; files written with five decimals turn every |E| < 5e-6 into it)
            top = max(t[2] for t in spec["ts"])
            z = rng.choice([0.0, -0.0])
            spec = {"E": [e - top for e in spec["E"]], "coords": spec["coords"],
                    "ts": [[u, v, (z if e == top else e - top), c] for u, v, e, c in spec["ts"]]}
            ts_above = all(e > max(spec["E"][u], spec["E"][v]) for u, v, e, _ in spec["ts"] if u != v)
        if it % 6 == 5 and spec["ts"]:
            # the zero of energy is arbitrary: the whole landscape far above it (every value positive, the offset larger
            # than the landscape's own range)
            off = rng.choice([16.0, 1024.0, 65536.0])
            spec = {**spec, "E": [e + off for e in spec["E"]], "ts": [[u, v, e + off, c] for u, v, e, c in spec["ts"]]}
            ts_above = all(e > max(spec["E"][u], spec["E"][v]) for u, v, e, _ in spec["ts"] if u != v)
        nn = len(spec["E"])
        if it % 4 == 1 and nn >= 2:
            # the same network read from files whose rows are not in index order (each row of min.data names its index)
            perm = list(range(nn))
            rng.shuffle(perm)
            spec = dict(spec, file_order=perm)
        elif it % 7 == 3 and nn >= 2:
            # minimum 0 stored as an integer array
            spec = dict(spec, coords=[[float(round(x)) for x in spec["coords"][0]]] + list(spec["coords"][1:]), int_first=True)
        excl = random_excl(rng, nn)
        for scheme in SCHEMES:
            size = rng.choice([0, 1, 2, 3, nn, nn + 2])
            fixed = rng.random() < 0.5
            bc = rng.choice([0.0, 0.05, 0.1, 0.3, 0.5, 1.0, 1.5])
            r = pred_select(spec, excl, size, scheme, fixed, bc, ts_above)
            ctx.stats.case({"stream": "predicate", "scheme": scheme, "n": nn, "fixed": fixed}, True)
            ctx.stats.branch(f"pred:{scheme}")
            if r:
                if not any(f.key == r[0] for f in ctx.failures):
                    d = {"spec": spec}
                    r = c18.shrunk(d, r, lambda dd: pred_select(dd["spec"], excl, size, scheme, fixed, bc, ts_above))
                ctx.fail(*r)


def replay(ctx: Ctx, data: dict) -> bool:
    if data.get("pred") == "sequence":
        r = pred_sequence(data["spec"], data["excl"], [tuple(c) for c in data["calls"]], data.get("ts_above", True))
        if r:
            print(f"  {r[0]}: {r[1]}")
        return r is None
    if data.get("pred") != "select":
        print("  (not a property-failure replay; run ./check C17)")
        return True
    r = pred_select(data["spec"], data["excl"], data["size"], data["scheme"], data["fixed"], data["bc"],
                    data.get("ts_above", True))
    if r:
        print(f"  {r[0]}: {r[1]}")
    return r is None
