"""C19 — dataset transformations are invertible, aligned and lossless across updates.

Tie #1: translate.model_data reads from the current source (a) which duplicate scan
`remove_duplicates` performs (retained-point scan / pair loop with or without `break`), the
comparison operator, which arrays `np.delete` is applied to; (b) the statistics written and the
element-wise formula of the eight (un)standardise/(un)normalise methods as `Py.E` terms;
(c) the ordered (flag, call) steps of GaussianProcess.prepare_training_data / add_data /
lowest_point — into Gen/ModelData.lean; bridge lemmas `C19_bridge_*` in Props/C19.lean.

Tie #2: the REAL ModelData (built from text files written into the scratch cwd) and the REAL
GaussianProcess.add_data / lowest_point (the sklearn fit is bypassed from outside by replacing
`initialise_gaussian_process` on the class while the object is constructed; add_data and
lowest_point never touch the regressor) against Model/ModelData.lean run at Rat by
Drivers/ModelData.lean:
  * exact stream — dyadic-grid datasets with near-duplicate chains / stars / exactly-at-cut-off
    pairs / exact duplicates, cut-offs with exactly representable squares; append, feature_subset,
    remove_duplicates compared bit-for-bit;
  * transform stream — random datasets with column scales 1e-6…1e6: sequences of the eight
    transforms + append, compared with tolerance 1e-9 relative to the column scale;
  * update cycle — all four flag combinations, add_data / lowest_point sequences.
The model never takes a square root: every standard deviation is sent to the driver as the exact
rational of the float numpy computed, and is checked against the exact variance the driver reports
(`chk=`: sigma^2 = var to 1e-9 relative) — this is what ties `np.std` (ddof 0) to `IsStd`.
"""
from __future__ import annotations

import contextlib
import itertools
import random
import warnings
from fractions import Fraction

import numpy as np

from common import Ctx, frac, run_driver
from translate import model_data as tr

PROP = "C19"
LEAN_MODULE = "TopSearch.Props.C19"
LEAN_FILES = ["TopSearch.Props.C19", "TopSearch.Lemmas.ModelData", "TopSearch.Model.ModelData"]
EXTRA_TARGETS = ["TopSearch.Gen.ModelData", "TopSearch.Drv.Util"]
REQUIRED = [
    "TopSearch.Props.C19.C19_bridge_dedup",
    "TopSearch.Props.C19.C19_bridge_steps",
    "TopSearch.Props.C19.C19_bridge_formulas",
    "TopSearch.Props.C19.C19_bridge_inverse",
    "TopSearch.Props.C19.C19_sq_cmp",
    "TopSearch.Props.C19.C19_std_roundtrip",
    "TopSearch.Props.C19.C19_norm_roundtrip",
    "TopSearch.Props.C19.C19_std_moments",
    "TopSearch.Props.C19.C19_std_moments_training",
    "TopSearch.Props.C19.C19_var_zero_iff_const",
    "TopSearch.Props.C19.C19_alignment",
    "TopSearch.Props.C19.C19_dedup_refines",
    "TopSearch.Props.C19.C19_dedup_sound",
    "TopSearch.Props.C19.C19_dedup_minimal",
    "TopSearch.Props.C19.C19_dedup_keeps_first",
    "TopSearch.Props.C19.C19_original_keeps_close_pair",
    "TopSearch.Props.C19.C19_original_removes_isolated",
    "TopSearch.Props.C19.C19_update_cycle",
    "TopSearch.Props.C19.C19_lowest_point",
    "TopSearch.Props.C19.C19_bridge_counts",
    "TopSearch.Props.C19.C19_read_data",
    "TopSearch.Props.C19.C19_read_then_dedup",
    "TopSearch.Props.C19.C19_read_data_needs_counts",
]
RULE = ("cases = (dataset state, operation) transitions compared model-vs-implementation after the operation "
        "(exact stream: bit-for-bit; transform / update-cycle streams: 1e-9 relative to the column scale, every "
        "numpy standard deviation checked against the model's exact variance); non-trivial = the operation is "
        "accepted by the guard and changes the stored arrays or statistics; distinct = distinct (state, op) pairs")
ASSUMPTIONS = [
    "np.std(x) is a non-negative sigma with sigma^2 = mean(|x-mean|^2) (ddof 0) up to rounding: checked on every "
    "standardisation of the correspondence against the model's exact variance",
    "np.linalg.norm(a-b) < c agrees with |a-b|^2 < c^2 (exact on the dyadic inputs used; C19_sq_cmp proves the "
    "equivalence for an exact square root)",
    "np.delete(a, idx, axis=0) removes exactly the rows whose index occurs in idx; np.append(…, axis=0) "
    "concatenates rows; numpy broadcasting of an (n,d) array against a (d,) vector acts row-wise",
    "np.loadtxt / np.savetxt('%.17g') round-trip binary64",
    "theorems are exact (ordered field); 'restores … to rounding' is observed with tolerance 1e-9",
    "every standardisation meets sigma != 0 (non-constant feature / response): explicit guard of the round-trip "
    "and update-cycle theorems; at sigma = 0 the real code divides by zero (nan) — reported in the notes, no alarm",
    "limit_highest_data = False in the update cycle (clipping changes the data by design)",
]
PARTIAL = ("round trips are exact identities over ordered fields; in binary64 they hold to rounding, which only the "
           "correspondence observes. feature_subset does not touch the statistics dictionaries (as in the code), so "
           "undoing a scaling after a subset is outside the theorems' guard.")

# flip to True once the single-point behaviour has been dispositioned (see the builder's report):
# a dataset read from a 1-line response file holds a 0-d response array and remove_duplicates raises.
REPORT_SINGLE_POINT = True

TOL = 1e-9


def regenerate(ctx: Ctx) -> None:
    ctx.gen_status.update(tr.regenerate())


# ----------------------------------------------------------------------------- implementation side

_counter = itertools.count()


def make_md(T: np.ndarray, R: np.ndarray):
    """the real ModelData, constructed the only way the class offers: from two text files"""
    from topsearch.data.model_data import ModelData
    k = next(_counter)
    tf, rf = f"c19_train_{k}.txt", f"c19_resp_{k}.txt"
    np.savetxt(tf, np.asarray(T, dtype=float).reshape(len(T), -1), fmt="%.17g")
    np.savetxt(rf, np.asarray(R, dtype=float), fmt="%.17g")
    with warnings.catch_warnings():
        warnings.simplefilter("ignore")
        md = ModelData(tf, rf)
    import os
    os.remove(tf)
    os.remove(rf)
    return md


def reload_md(md, T, R) -> None:
    """`read_data` on an object that already holds a dataset (the example scripts loop read -> subset -> de-duplicate
    -> normalise over feature subsets on ONE object)"""
    import os
    k = next(_counter)
    tf, rf = f"c19_train_{k}.txt", f"c19_resp_{k}.txt"
    T = np.asarray(T, dtype=float)
    np.savetxt(tf, T.reshape(len(T), -1), fmt="%.17g")
    np.savetxt(rf, np.asarray(R, dtype=float), fmt="%.17g")
    try:
        with warnings.catch_warnings():
            warnings.simplefilter("ignore")
            md.read_data(tf, rf)
    finally:
        os.remove(tf)
        os.remove(rf)


@contextlib.contextmanager
def no_fit():
    """bypass the sklearn fit from outside while a GaussianProcess is constructed"""
    from topsearch.potentials.gaussian_process import GaussianProcess
    orig = GaussianProcess.initialise_gaussian_process
    GaussianProcess.initialise_gaussian_process = lambda self, n_restarts=50: None
    try:
        yield GaussianProcess
    finally:
        GaussianProcess.initialise_gaussian_process = orig


def make_gp(md, std_t: bool, std_r: bool, limit: bool = False):
    with no_fit() as GP:
        return GP(md, "RBF", [(1e-2, 1e2)] * (md.n_dims + 1), standardise_training=std_t,
                  standardise_response=std_r, limit_highest_data=limit)


def impl_state(md) -> dict:
    tp, rp = md.train_props, md.resp_props
    return {"n": int(md.n_points), "d": int(md.n_dims),
            "T": np.array(md.training, dtype=float).reshape(-1, np.shape(md.training)[1] if np.ndim(md.training) == 2 else 1),
            "R": np.atleast_1d(np.array(md.response, dtype=float)),
            "rp": [float(rp[k]) for k in ("std", "mean", "min", "max")],
            "tp": [np.atleast_1d(np.array(tp[k], dtype=float)) for k in ("std", "mean", "min", "max")]}


def fvec(v) -> str:
    v = list(np.atleast_1d(v))
    return ",".join(frac(float(x)) for x in v) if v else "-"


def ftab(t) -> str:
    t = np.asarray(t, dtype=float)
    return ";".join(fvec(r) for r in t) if len(t) else "-"


def parse_state(line: str) -> dict | None:
    out: dict = {}
    try:
        for tok in line.split(" "):
            k, v = tok.split("=", 1)
            if k in ("n", "d"):
                out[k] = int(v)
            elif k in ("T", "tp", "oT"):
                out[k] = [] if v == "-" else [[Fraction(x) for x in r.split(",")] if r != "-" else [] for r in v.split(";")]
            elif k in ("R", "rp", "oR"):
                out[k] = [] if v == "-" else [Fraction(x) for x in v.split(",")]
            elif k == "chk":
                out[k] = [[] if p == "-" else [Fraction(x) for x in p.split(",")] for p in v.split("|")]
            elif k == "low":
                out[k] = None if v == "none" else Fraction(v)
    except Exception:
        return None
    return out


EPS = 2.220446049250313e-16


def _cond_1d(x) -> float:
    """how much a subtraction of the mean / minimum followed by a division by the spread amplifies rounding in this
    column: max|x| / spread (1 for an empty or constant column: those are refused or guarded elsewhere)"""
    x = np.asarray(x, dtype=float).reshape(-1)
    if x.size < 2 or not np.all(np.isfinite(x)):
        return 1.0
    spread = min(float(np.std(x)), float(np.max(x) - np.min(x)))
    return max(1.0, float(np.max(np.abs(x))) / spread) if spread > 0 else 1.0


def cond_of(md) -> tuple[list[float], float]:
    """conditioning of every feature column and of the response, in the representation the object holds AND in the one
    its stored statistics would undo (the surrogate switches between the two inside one call)"""
    T = np.asarray(md.training, dtype=float)
    R = np.asarray(md.response, dtype=float).reshape(-1)
    ct = []
    for j in range(T.shape[1] if T.ndim == 2 else 0):
        c = _cond_1d(T[:, j])
        try:
            sd, mu = float(np.atleast_1d(md.train_props["std"])[j]), float(np.atleast_1d(md.train_props["mean"])[j])
            if np.isfinite(sd) and np.isfinite(mu) and sd > 0:
                c = max(c, _cond_1d(T[:, j] * sd + mu))
        except Exception:  # noqa: BLE001
            pass
        ct.append(c)
    cr = _cond_1d(R)
    try:
        sd, mu = float(md.resp_props["std"]), float(md.resp_props["mean"])
        if np.isfinite(sd) and np.isfinite(mu) and sd > 0:
            cr = max(cr, _cond_1d(R * sd + mu))
    except Exception:  # noqa: BLE001
        pass
    return ct, cr


def close_vec(model: list, impl, exact: bool, cond: float = 1.0) -> bool:
    impl = list(np.atleast_1d(impl))
    if len(model) != len(impl):
        return False
    if exact:
        return all(Fraction(float(b)) == a for a, b in zip(model, impl))
    fm = [float(a) for a in model]
    if any(not np.isfinite(b) for b in impl):
        return False
    scale = max([abs(a) for a in fm] + [abs(float(b)) for b in impl] + [1e-300])
    # rounding of (x - mean) / spread on a column whose spread is small against its values is amplified by `cond`
    tol = TOL + 256.0 * EPS * cond
    return all(abs(a - float(b)) <= tol * scale for a, b in zip(fm, impl))


def compare_state(model: dict, impl: dict, exact: bool, scale_t=None, scale_r=None, cond_t=None, cond_r: float = 1.0) -> str | None:
    """None when equal (bit-for-bit in exact mode, to 1e-9 of the column scale otherwise)"""
    if model.get("n") != impl["n"]:
        return f"n_points: model {model.get('n')} / implementation {impl['n']}"
    if model.get("d") != impl["d"]:
        return f"n_dims: model {model.get('d')} / implementation {impl['d']}"
    T, R = impl["T"], impl["R"]
    mT = model.get("T", [])
    if len(mT) != T.shape[0] or any(len(r) != T.shape[1] for r in mT):
        return f"training shape: model {len(mT)} rows / implementation {T.shape}"
    for j in range(T.shape[1]):
        if not close_vec([r[j] for r in mT], T[:, j], exact, (cond_t[j] if cond_t is not None and j < len(cond_t) else 1.0)):
            return f"training column {j}: model {[float(r[j]) for r in mT][:6]} / implementation {T[:6, j].tolist()}"
    if not close_vec(model.get("R", []), R, exact, cond_r):
        return f"response: model {[float(x) for x in model.get('R', [])][:6]} / implementation {R[:6].tolist()}"
    # statistics: absolute tolerance relative to the scale of the data they describe
    for i, name in enumerate(("std", "mean", "min", "max")):
        a, b = float(model["rp"][i]), impl["rp"][i]
        s = max(scale_r or 0.0, abs(a), 1e-300) if not exact else 0.0
        if not (abs(a - b) <= (TOL + 256.0 * EPS * cond_r) * s or a == b):
            return f"resp_props[{name}]: model {a!r} / implementation {b!r}"
        mv, iv = model["tp"][i], impl["tp"][i]
        if len(mv) != len(iv):
            return f"train_props[{name}] length: model {len(mv)} / implementation {len(iv)}"
        for j, (x, y) in enumerate(zip(mv, iv)):
            x = float(x)
            s = max((scale_t[j] if scale_t is not None and j < len(scale_t) else 0.0), abs(x), 1e-300) if not exact else 0.0
            cj = cond_t[j] if cond_t is not None and j < len(cond_t) else 1.0
            if not (abs(x - float(y)) <= (TOL + 256.0 * EPS * cj) * s or x == float(y)):
                return f"train_props[{name}][{j}]: model {x!r} / implementation {float(y)!r}"
    return None


def sigma_ok(sig: float, var: Fraction) -> bool:
    """numpy's standard deviation against the model's exact variance"""
    v = float(var)
    return sig >= 0 and abs(sig * sig - v) <= 1e-9 * max(v, 1e-300)


# ----------------------------------------------------------------------------- generators

CUTOFFS = [0.5, 1.0, 1.25, 2.5, 5.0]          # every square is a dyadic rational


def dyadic_clusters(rng: random.Random, n: int, d: int, c: float) -> np.ndarray:
    """points on the 2^-4 grid: chains (consecutive points within the cut-off, alternate ones not),
    stars, pairs exactly at the cut-off (axis-aligned and 3-4-5), exact duplicates, isolated points;
    shuffled so that the first point of a cluster is not always its centre"""
    pts: list[list[float]] = []
    centre_pool = list(itertools.product(range(-3, 4), repeat=min(d, 2)))
    rng.shuffle(centre_pool)
    ci = 0

    def centre():
        nonlocal ci
        base = centre_pool[ci % len(centre_pool)]
        ci += 1
        return [16.0 * c * b for b in base] + [float(rng.randrange(-4, 5)) for _ in range(d - len(base))]
    while len(pts) < n:
        kind = rng.choice(["chain", "chain", "star", "at-cutoff", "pyth", "dup", "iso", "far-chain"])
        p = centre()
        ax = rng.randrange(d)
        if kind in ("chain", "far-chain"):
            step = 0.75 * c if kind == "chain" else 0.5 * c
            k = rng.randrange(3, 7)
            for i in range(k):
                q = p[:]
                q[ax] += i * step
                pts.append(q)
        elif kind == "star":
            pts.append(p[:])
            for a in range(d):
                for sgn in (1, -1):
                    if rng.random() < 0.8:
                        q = p[:]
                        q[a] += sgn * 0.75 * c
                        pts.append(q)
        elif kind == "at-cutoff":
            pts.append(p[:])
            q = p[:]
            q[ax] += c
            pts.append(q)
            q = p[:]
            q[ax] -= c - 0.0625
            pts.append(q)
        elif kind == "pyth" and d >= 2 and c in (1.25, 2.5, 5.0):
            pts.append(p[:])
            q = p[:]
            a2 = (ax + 1) % d
            q[ax] += 0.6 * c
            q[a2] += 0.8 * c
            pts.append(q)           # distance exactly c: not a duplicate under `<`
            q = p[:]
            q[ax] += 0.6 * c
            q[a2] += 0.8 * c - 0.0625
            pts.append(q)           # just inside
        elif kind == "dup":
            pts.append(p[:])
            pts.append(p[:])
            pts.append(p[:])
        else:
            pts.append(p[:])
    rng.shuffle(pts)
    return np.array(pts[:n], dtype=float).reshape(n, d)


def unique_tags(rng: random.Random, n: int, start: int = 0) -> np.ndarray:
    """responses that identify their row: distinct dyadic numbers in random order"""
    vals = [(start + i) * 0.125 - 3.0 for i in range(n)]
    rng.shuffle(vals)
    return np.array(vals, dtype=float)


def scaled_dataset(rng: random.Random, n: int, d: int, extreme: bool = False) -> tuple[np.ndarray, np.ndarray]:
    """columns offset + scale * u with scales 1e-6…1e6 (sometimes 1e-12, 1e-9, 1e9; responses down to 1e-20),
    |offset| <= 3e5 * scale, no constant column"""
    nr = np.random.RandomState(rng.getrandbits(31))
    while True:
        T = np.empty((n, d))
        for j in range(d):
            s = 10.0 ** (rng.randrange(-6, 7) if not extreme or rng.random() < 0.7 else rng.choice([-12, -9, 9]))
            # offsets up to 3e5 spreads: a two-pass standard deviation still resolves these to ~1e-11,
            # a one-pass (mean of squares minus squared mean) formula does not
            off = s * rng.choice([0.0, 1.0, -3.0, 10.0, -100.0, 1.0e5, -3.0e5])
            T[:, j] = off + s * nr.uniform(-4, 4, size=n)
        # responses in whatever unit the user has: energies in joules (1e-20), rates (1e-12), counts (1e9)
        s = 10.0 ** (rng.randrange(-4, 5) if not extreme or rng.random() < 0.4 else rng.choice([-20, -12, -9, 9]))
        R = s * rng.choice([0.0, 2.0, -50.0]) + s * nr.uniform(-4, 4, size=n)
        if n < 2 or (all(np.ptp(T[:, j]) > 0 for j in range(d)) and np.ptp(R) > 0):
            return T, R


# ----------------------------------------------------------------------------- streams


class Session:
    """one dataset driven through the real class and, line by line, through the model"""

    def __init__(self, T, R, exact: bool, label: str):
        self.T0, self.R0 = np.array(T, dtype=float), np.array(R, dtype=float)
        self.exact = exact
        self.label = label
        self.md = make_md(T, R)
        self.gp = None
        self.lines = [f"new {self.T0.shape[1]} {ftab(self.T0)} {fvec(self.R0)}"]
        self.expect = [("new", impl_state(self.md), None, None)]
        self.scale_t = [float(np.max(np.abs(self.T0[:, j]))) for j in range(self.T0.shape[1])]
        self.scale_r = float(np.max(np.abs(self.R0)))
        self.ops_log: list = [["new", self.T0.tolist(), self.R0.tolist()]]
        self.cond_t, self.cond_r = cond_of(self.md)
        self.conds: list = [(list(self.cond_t), self.cond_r)]

    def _grow_scale(self, t, r):
        t = np.asarray(t, dtype=float)
        for j in range(min(len(self.scale_t), t.shape[1])):
            self.scale_t[j] = max(self.scale_t[j], float(np.max(np.abs(t[:, j]))))
        self.scale_r = max(self.scale_r, float(np.max(np.abs(r))))

    def _grow_cond(self) -> None:
        try:
            ct, cr = cond_of(self.md)
        except Exception:  # noqa: BLE001
            return
        if len(ct) != len(self.cond_t):
            self.cond_t = ct                       # another set of columns (subset / reload)
        else:
            self.cond_t = [max(x, y) for x, y in zip(self.cond_t, ct)]
        self.cond_r = max(self.cond_r, cr)

    def op(self, kind: str, *a):
        md = self.md
        extra = None
        sig = None
        self._grow_cond()
        self.ops_log.append([kind] + [x.tolist() if isinstance(x, np.ndarray) else x for x in a])
        try:
            with warnings.catch_warnings():
                warnings.simplefilter("ignore")
                if kind == "append":
                    self._grow_scale(a[0], a[1])
                    md.append_data(np.array(a[0], dtype=float), np.array(a[1], dtype=float))
                    line = f"append {ftab(a[0])} {fvec(a[1])}"
                elif kind == "reload":
                    t2 = np.array(a[0], dtype=float)
                    reload_md(md, t2, a[1])
                    self.scale_t = [float(np.max(np.abs(t2[:, j]))) for j in range(t2.shape[1])]
                    self.scale_r = max(self.scale_r, float(np.max(np.abs(a[1]))))
                    line = f"reload {t2.shape[1]} {ftab(t2)} {fvec(a[1])}"
                elif kind == "subset":
                    md.feature_subset(list(a[0]))
                    self.scale_t = [self.scale_t[f] for f in a[0] if f < len(self.scale_t)]
                    line = "subset " + (",".join(map(str, a[0])) if a[0] else "-")
                elif kind == "dedup":
                    md.remove_duplicates(a[0])
                    line = f"dedup {frac(a[0])}"
                elif kind == "std_resp":
                    md.standardise_response()
                    sig = [float(md.resp_props["std"])]
                    line = f"std_resp {frac(sig[0])}"
                elif kind == "std_train":
                    md.standardise_training()
                    sig = [float(x) for x in np.atleast_1d(md.train_props["std"])]
                    line = f"std_train {fvec(sig)}"
                elif kind in ("unstd_resp", "norm_resp", "unnorm_resp", "unstd_train", "norm_train", "unnorm_train"):
                    getattr(md, {"unstd_resp": "unstandardise_response", "norm_resp": "normalise_response",
                                 "unnorm_resp": "unnormalise_response", "unstd_train": "unstandardise_training",
                                 "norm_train": "normalise_training", "unnorm_train": "unnormalise_training"}[kind])()
                    line = kind
                elif kind == "gp":
                    self.gp = make_gp(md, a[0], a[1])
                    sig = [float(md.resp_props["std"])] + [float(x) for x in np.atleast_1d(md.train_props["std"])]
                    line = f"gp {int(a[0])} {int(a[1])} {fvec(sig[1:])} {frac(sig[0])}"
                    extra = (a[0], a[1])
                elif kind == "add":
                    self._grow_scale(a[0], a[1])
                    self.gp.add_data(np.array(a[0], dtype=float), np.array(a[1], dtype=float))
                    sig = [float(md.resp_props["std"])] + [float(x) for x in np.atleast_1d(md.train_props["std"])]
                    line = f"add {ftab(a[0])} {fvec(a[1])} {fvec(sig[1:])} {frac(sig[0])}"
                    extra = (self.gp.standardise_training, self.gp.standardise_response)
                elif kind == "lowest":
                    low = self.gp.lowest_point()
                    sig = [float(md.resp_props["std"])]
                    line = f"lowest {frac(sig[0])}"
                    extra = ("low", float(low), self.gp.standardise_response)
                else:
                    raise ValueError(kind)
            st = impl_state(md)
            if not (np.isfinite(st["T"]).all() and np.isfinite(st["R"]).all()):
                st = "nonfinite"
        except Exception as e:
            line = _fallback_line(kind, a)
            st = f"raise:{type(e).__name__}"
            try:
                extra = ("after-refusal", impl_state(md))       # a refused operation must leave the dataset as it was
            except Exception:  # noqa: BLE001
                extra = ("after-refusal", None)
        self._grow_cond()
        self.conds.append((list(self.cond_t), self.cond_r))
        self.lines.append(line)
        self.expect.append((kind, st, sig, extra))


def _fallback_line(kind, a) -> str:
    if kind == "append":
        return f"append {ftab(a[0])} {fvec(a[1])}"
    if kind == "subset":
        return "subset " + (",".join(map(str, a[0])) if a[0] else "-")
    if kind == "reload":
        t2 = np.array(a[0], dtype=float)
        return f"reload {t2.shape[1]} {ftab(t2)} {fvec(a[1])}"
    if kind == "dedup":
        return f"dedup {frac(a[0])}"
    if kind in ("std_resp", "lowest"):
        return f"{kind} 1"
    if kind == "std_train":
        return "std_train 1"
    if kind == "gp":
        return f"gp {int(a[0])} {int(a[1])} 1 1"
    if kind == "add":
        return f"add {ftab(a[0])} {fvec(a[1])} 1 1"
    return kind


def check_sessions(ctx: Ctx, sessions: list[Session], cfg_line: str = "cfg gen") -> None:
    lines = [cfg_line]
    for s in sessions:
        lines += s.lines
    out = run_driver("ModelData", lines)[1:]
    if len(out) != len(lines) - 1:
        ctx.diverge("modeldata-driver-length", f"driver answered {len(out)} lines for {len(lines) - 1}", {})
        return
    k = 0
    for s in sessions:
        dead = False
        prev_m = None
        for li, ((kind, st, sig, extra), line) in enumerate(zip(s.expect, s.lines)):
            got = out[k]
            k += 1
            if dead or kind == "new":
                if kind == "new" and got in ("guard", "bad-op"):
                    dead = True
                elif kind == "new":
                    prev_m = parse_state(got)
                continue
            key = f"{s.label}:{kind}"
            replay = {"stream": s.label, "ops": s.ops_log[:li + 1]}
            if got == "bad-op":
                ctx.diverge(key + ":bad-op", f"the driver could not parse `{line[:80]}`", replay)
                dead = True
                continue
            if isinstance(st, str) and st.startswith("raise:"):
                ctx.stats.case({"stream": s.label, "op": line[:200], "impl": st}, False)
                ctx.stats.branch(kind + ":refused")
                if got != "guard":
                    ctx.diverge(key + ":raise-vs-accept", f"implementation raised {st} on `{line[:60]}` but the model "
                                f"accepts it", replay)
                    dead = True
                    continue
                # refused by both: the model's state is unchanged, so must the implementation's be (the session goes on)
                if prev_m is not None and isinstance(extra, tuple) and extra and extra[0] == "after-refusal":
                    why = "the object cannot be read any more" if extra[1] is None else \
                        compare_state(prev_m, extra[1], s.exact, s.scale_t, s.scale_r, *s.conds[li])
                    if why:
                        ctx.diverge(key + ":refused-operation-changed-the-dataset", f"`{line[:60]}` was refused ({st}) but "
                                    f"the dataset is not what it was before: {why}", replay)
                        dead = True
                continue
            if got == "guard":
                # outside the theorems' domain (sigma = 0, max = min, statistics of another width …)
                ctx.stats.case({"stream": s.label, "op": line[:200], "model": "guard"}, False)
                ctx.stats.branch(kind + ":guard")
                dead = True
                continue
            if st == "nonfinite":
                ctx.diverge(key + ":nonfinite", f"implementation produced nan/inf on `{line[:60]}` inside the "
                            f"model's guard", replay)
                dead = True
                continue
            m = parse_state(got)
            if m is None:
                ctx.diverge(key + ":parse", f"driver said `{got[:80]}`", replay)
                dead = True
                continue
            ctx.stats.case({"stream": s.label, "op": line[:300], "after": got[:300]}, True)
            ctx.stats.branch(kind)
            # every numpy standard deviation against the exact variance
            if sig is not None and "chk" in m:
                chk = m["chk"]
                pairs = []
                if kind == "std_resp":
                    pairs = [(sig[0], chk[0][0])]
                elif kind == "std_train":
                    pairs = list(zip(sig, chk[0]))
                elif kind in ("gp", "add"):
                    ft, fr = extra[0], extra[1]
                    if fr:
                        pairs.append((sig[0], chk[0][0]))
                    if ft and len(chk) > 1:
                        pairs += list(zip(sig[1:], chk[1]))
                elif kind == "lowest" and extra[2]:
                    pairs = [(sig[0], chk[0][0])]
                for sg, var in pairs:
                    ok = sigma_ok(sg, var)
                    ctx.contract("np.std: sigma>=0 and sigma^2 = exact population variance (1e-9)", ok)
                    if not ok:
                        ctx.diverge(key + ":sigma", f"stored std {sg!r} but the exact population variance of the data "
                                    f"is {float(var)!r} (sigma^2 = {sg * sg!r})", replay)
                        dead = True
            if dead:
                continue
            prev_m = m
            why = compare_state(m, st, s.exact, s.scale_t, s.scale_r, *s.conds[li])
            if why is None and kind == "lowest":
                lo_m, lo_i = m.get("low"), extra[1]
                if lo_m is None or abs(float(lo_m) - lo_i) > TOL * max(s.scale_r, 1e-300):
                    why = f"lowest_point: model {None if lo_m is None else float(lo_m)!r} / implementation {lo_i!r}"
            if why:
                ctx.diverge(key, f"after `{line[:60]}…`: {why}", replay)
                dead = True


def exact_sessions(ctx: Ctx, rng: random.Random, count: int) -> list[Session]:
    out = []
    for i in range(count):
        d = rng.randrange(1, 6)
        n = rng.choice([1, 2, 3, 3, 4, 5, 6, 8, 10, 12, 16, 20, 25, 30, 40])
        c = rng.choice(CUTOFFS)
        T = dyadic_clusters(rng, n, d, c)
        R = unique_tags(rng, n)
        s = Session(T, R, True, "exact")
        r = rng.random()
        appended = False
        if r < 0.35 and n >= 1:
            k = rng.randrange(1, 5)
            appended = True
            s.op("append", dyadic_clusters(rng, k, d, c), unique_tags(rng, k, start=100))
        if r > 0.75 and d >= 2:
            fs = rng.sample(range(d), rng.randrange(1, d + 1))
            if rng.random() < 0.3:
                fs.append(rng.choice(fs))
            s.op("subset", fs)
        # (a single-point dataset used to hold a 0-d response and raise here: repaired in 13ac8c5)
        s.op("dedup", c)
        if rng.random() < 0.3:
            s.op("dedup", rng.choice(CUTOFFS))
        if rng.random() < 0.35:
            # the same object reused for another dataset (other size, other width), then de-duplicated again
            d2 = rng.randrange(1, 6)
            n2 = rng.choice([1, 2, 3, 5, 8, 12, 20, 30])
            c2 = rng.choice(CUTOFFS)
            s.op("reload", dyadic_clusters(rng, n2, d2, c2), unique_tags(rng, n2, start=200))
            if rng.random() < 0.4 and d2 >= 2:
                s.op("subset", rng.sample(range(d2), rng.randrange(1, d2 + 1)))
            s.op("dedup", c2)
        out.append(s)
    return out


XF = ["std_resp", "unstd_resp", "norm_resp", "unnorm_resp", "std_train", "unstd_train", "norm_train", "unnorm_train"]


def transform_sessions(ctx: Ctx, rng: random.Random, count: int) -> list[Session]:
    out = []
    for i in range(count):
        d = rng.randrange(1, 6)
        n = rng.choice([2, 2, 3, 4, 5, 7, 10, 15, 25, 40])
        T, R = scaled_dataset(rng, n, d)
        s = Session(T, R, False, "transform")
        # mostly well-bracketed sequences (op then its inverse), sometimes nested / interleaved with append
        for _ in range(rng.randrange(1, 5)):
            fam = rng.choice(["std", "norm"])
            which = rng.choice(["resp", "train", "both"])
            seq = []
            if which in ("resp", "both"):
                seq.append(f"{fam}_resp")
            if which in ("train", "both"):
                seq.append(f"{fam}_train")
            for o in seq:
                s.op(o)
            if rng.random() < 0.15:       # a second scaling on top (only the last one can be undone)
                s.op(rng.choice(seq))
            for o in reversed(seq):
                s.op("un" + o)
            if rng.random() < 0.4:
                k = rng.randrange(1, 4)
                T2, R2 = scaled_dataset(rng, k, d)
                scale = np.array([max(x, 1e-300) for x in s.scale_t])
                s.op("append", T2 / np.maximum(np.max(np.abs(T2), axis=0), 1e-300) * scale * rng.uniform(0.1, 1.0),
                     R2 / max(np.max(np.abs(R2)), 1e-300) * max(s.scale_r, 1e-300) * rng.uniform(0.1, 1.0))
        out.append(s)
    return out


def cycle_ops(rng: random.Random, length: int, d: int, scale_t, scale_r, allow_empty: bool = False) -> list[tuple]:
    ops = []
    nr = np.random.RandomState(rng.getrandbits(31))
    for _ in range(length):
        if rng.random() < 0.7:
            k = rng.choice([1, 1, 1, 2, 3] + ([0, 0] if allow_empty else []))
            T2 = nr.uniform(-1, 1, size=(k, d)) * np.array(scale_t)
            R2 = nr.uniform(-1.5, 1.5, size=k) * scale_r
            ops.append(("add", T2, R2))
        else:
            ops.append(("lowest",))
    return ops


def cycle_sessions(ctx: Ctx, rng: random.Random, count: int, maxlen: int) -> list[Session]:
    out = []
    for i in range(count):
        d = rng.randrange(1, 6)
        n = rng.choice([2, 3, 4, 6, 10, 20, 40])
        T, R = scaled_dataset(rng, n, d)
        base = cycle_ops(rng, rng.randrange(1, maxlen + 1), d, [max(float(np.max(np.abs(T[:, j]))), 1e-300) for j in range(d)],
                         max(float(np.max(np.abs(R))), 1e-300))
        for ft, fr in itertools.product((False, True), repeat=2):     # every combination of the two flags
            s = Session(T, R, False, f"cycle:T{int(ft)}R{int(fr)}")
            s.op("gp", ft, fr)
            for o in base:
                s.op(*o)
            out.append(s)
    # single-point start (only without scaling: sigma = 0 otherwise)
    for i in range(max(2, count // 10)):
        d = rng.randrange(1, 4)
        T, R = scaled_dataset(rng, 1, d)
        s = Session(T, R, False, "cycle:T0R0")
        s.op("gp", False, False)
        for o in cycle_ops(rng, 3, d, [max(abs(float(T[0, j])), 1e-300) for j in range(d)], max(abs(float(R[0])), 1e-300)):
            s.op(*o)
        out.append(s)
    return out


def malformed_sessions(ctx: Ctx, rng: random.Random, count: int) -> list[Session]:
    """operations the class rejects by raising: the model must answer `guard`"""
    out = []
    for i in range(count):
        d = rng.randrange(2, 5)
        T, R = scaled_dataset(rng, rng.randrange(2, 6), d)
        s = Session(T, R, False, "malformed")
        r = rng.randrange(3)
        if r == 0:
            s.op("append", np.ones((2, d + 1)), np.ones(2))          # wrong number of columns
            t2, r2 = scaled_dataset(rng, 2, d)                       # ... resubmitted with the right ones
            s.op("append", t2, r2)
        elif r == 1:
            s.op("subset", [0, d + 2])                               # feature out of range
            s.op("subset", [0, d - 1])
        else:
            s.op("std_train")
            s.op("subset", list(range(d - 1)) if d > 2 else [0])
            if d - 1 != 1:
                s.op("unstd_train")                                  # statistics of another width
        out.append(s)
    return out


def correspond(ctx: Ctx) -> None:
    rng = ctx.rng
    # the two witnesses of the repaired defect, on the scan read from the source and on the original scan
    for T, c in (([[0.0], [0.6], [-0.6]], 1.0), ([[0.0], [0.6], [1.2]], 1.0)):
        s = Session(np.array(T), np.array([1.0, 2.0, 3.0]), True, "exact:witness")
        s.op("dedup", c)
        check_sessions(ctx, [s])
    check_sessions(ctx, exact_sessions(ctx, rng, ctx.scale(120, 700)))
    check_sessions(ctx, transform_sessions(ctx, rng, ctx.scale(50, 300)))
    check_sessions(ctx, cycle_sessions(ctx, rng, ctx.scale(25, 120), ctx.scale(6, 12)))
    check_sessions(ctx, malformed_sessions(ctx, rng, ctx.scale(12, 60)))
    sigma_zero_probe(ctx)


def sigma_zero_probe(ctx: Ctx) -> None:
    """what the real code does at the excluded point sigma = 0 (reported, never an alarm)"""
    md = make_md(np.array([[1.0], [2.0], [4.0]]), np.array([3.0, 3.0, 3.0]))
    with warnings.catch_warnings():
        warnings.simplefilter("ignore")
        try:
            md.standardise_response()
            a = np.atleast_1d(md.response).tolist()
            md.unstandardise_response()
            b = np.atleast_1d(md.response).tolist()
            ctx.stats.notes["sigma_zero"] = (f"constant response [3,3,3]: standardise_response stores std=0 and yields {a}; "
                                             f"unstandardise_response then yields {b} (division by zero, data lost; "
                                             f"excluded by the guard sigma != 0)")
        except Exception as e:
            ctx.stats.notes["sigma_zero"] = f"constant response: raises {type(e).__name__}"
    md = make_md(np.array([[1.0, 2.0]]), np.array([3.0]))
    try:
        md.remove_duplicates(1.0)
        ctx.stats.notes["single_point"] = "remove_duplicates on a 1-point dataset read from file: ok"
    except Exception as e:
        ctx.stats.notes["single_point"] = (f"remove_duplicates on a 1-point dataset read from file raises "
                                           f"{type(e).__name__} (np.loadtxt returns a 0-d response array)")


# ----------------------------------------------------------------------------- direct predicates


def sq(a, b) -> Fraction:
    return sum(((Fraction(float(x)) - Fraction(float(y))) ** 2 for x, y in zip(a, b)), Fraction(0))


def identify(md, T_all: np.ndarray, R_all: np.ndarray, features=None) -> tuple[list[int] | None, str | None]:
    """which original row sits at each position, recognised by its (unique) response tag; checks that
    the training row at that position is the tagged row's (alignment)"""
    T = np.array(md.training, dtype=float)
    R = np.atleast_1d(np.array(md.response, dtype=float))
    if T.ndim != 2 or T.shape[0] != R.shape[0]:
        return None, f"training has shape {T.shape} but response has {R.shape[0]} entries"
    if md.n_points != T.shape[0]:
        return None, f"n_points = {md.n_points} but the arrays hold {T.shape[0]} rows"
    where = {float(r): i for i, r in enumerate(R_all)}
    idx = []
    for p in range(T.shape[0]):
        i = where.get(float(R[p]))
        if i is None:
            return None, f"response {R[p]!r} at row {p} was never given"
        want = T_all[i] if features is None else T_all[i][features]
        if T[p].tolist() != want.tolist():
            return None, f"row {p}: response belongs to original row {i} = {want.tolist()} but the features are {T[p].tolist()}"
        idx.append(i)
    return idx, None


def predicate_exact(T, R, ops: list) -> tuple[str, str] | None:
    """alignment through append / subset / duplicate removal, and the duplicate-removal clauses, on the
    real class; exact rational distances; written from the statement"""
    T_all, R_all = np.array(T, dtype=float), np.array(R, dtype=float)
    try:
        md = make_md(T_all, R_all)
    except Exception as e:
        return ("construct-raises", f"{type(e).__name__}: {e}")
    features = None
    present = list(range(len(T_all)))
    for op in ops:
        kind = op[0]
        try:
            if kind == "append":
                t2, r2 = np.array(op[1], dtype=float), np.array(op[2], dtype=float)
                md.append_data(t2, r2)
                present += list(range(len(T_all), len(T_all) + len(t2)))
                T_all = np.vstack([T_all, t2.reshape(len(t2), -1)])
                R_all = np.concatenate([R_all, r2])
            elif kind == "subset":
                md.feature_subset(list(op[1]))
                features = list(op[1]) if features is None else [features[f] for f in op[1]]
            elif kind == "dedup":
                md.remove_duplicates(op[1])
            elif kind == "append_bad":
                # a batch with one column too many: the class refuses it (numpy raises); whatever it does, the pairs
                # (features, response) it holds afterwards are the ones it held before
                try:
                    md.append_data(np.array(op[1], dtype=float), np.array(op[2], dtype=float))
                    return ("append-accepts-wrong-width", "append_data accepted rows of another width")
                except Exception:  # noqa: BLE001
                    pass
            elif kind == "reload":
                T_all, R_all = np.array(op[1], dtype=float), np.array(op[2], dtype=float)
                reload_md(md, T_all, R_all)
                features = None
                present = list(range(len(T_all)))
        except Exception as e:
            if kind == "dedup" and len(present) == 1:
                return ("remove_duplicates:single-point-dataset", f"remove_duplicates raised {type(e).__name__} on a "
                        f"dataset of one point") if REPORT_SINGLE_POINT else None
            return (f"{kind}-raises", f"{kind} raised {type(e).__name__}: {e}")
        idx, why = identify(md, T_all, R_all, features)
        if why:
            return (f"alignment:{kind}", f"after {kind}: {why}")
        if md.n_dims != (T_all.shape[1] if features is None else len(features)):
            return (f"n_dims:{kind}", f"after {kind}: n_dims = {md.n_dims}")
        if md.n_points != len(present if kind != "dedup" else idx):
            return (f"n_points:{kind}", f"after {kind}: n_points = {md.n_points} but the object holds "
                    f"{len(present if kind != 'dedup' else idx)} rows")
        if len(np.asarray(md.response).reshape(-1)) != md.training.shape[0]:
            return (f"alignment:{kind}", f"after {kind}: {md.training.shape[0]} feature rows but "
                    f"{len(np.asarray(md.response).reshape(-1))} responses")
        if kind in ("append", "subset", "reload", "append_bad"):
            if idx != present:
                return (f"alignment:{kind}", f"after {kind}: rows present {idx}, expected {present}")
        else:
            c = Fraction(float(op[1]))
            rows = (lambda i: T_all[i] if features is None else T_all[i][features])
            near = (lambda i, j: c > 0 and sq(rows(i), rows(j)) < c * c)
            if idx != sorted(idx) or not set(idx) <= set(present) or len(set(idx)) != len(idx):
                return ("dedup:order", f"survivors {idx} are not a subsequence of the rows {present}")
            surv = idx
            for a in range(len(surv)):
                for b in range(a + 1, len(surv)):
                    if near(surv[a], surv[b]):
                        return ("dedup:survivors-within-cutoff",
                                f"rows {surv[a]} and {surv[b]} both survive although their distance "
                                f"{float(sq(rows(surv[a]), rows(surv[b]))) ** 0.5!r} is below the cut-off {float(c)!r}")
            pos = {i: k for k, i in enumerate(present)}
            for j in present:
                if j in surv:
                    continue
                if not any(pos[i] < pos[j] and near(i, j) for i in surv):
                    return ("dedup:removed-without-retained-neighbour",
                            f"row {j} was removed although no earlier retained row is within the cut-off {float(c)!r}")
            if present and present[0] not in surv:
                return ("dedup:first-removed", "the first row was removed")
            present = surv
    return None


def predicate_roundtrip(T, R) -> tuple[str, str] | None:
    """standardise/normalise then undo restores the values to rounding; standardised data have zero mean and
    unit spread per feature (needs non-constant columns)"""
    T, R = np.array(T, dtype=float), np.array(R, dtype=float)
    st = [max(float(np.max(np.abs(T[:, j]))), 1e-300) for j in range(T.shape[1])]
    sr = max(float(np.max(np.abs(R))), 1e-300)
    for fam in ("standardise", "normalise"):
        md = make_md(T, R)
        with warnings.catch_warnings():
            warnings.simplefilter("ignore")
            getattr(md, f"{fam}_training")()
            getattr(md, f"{fam}_response")()
            Ts, Rs = np.array(md.training), np.atleast_1d(np.array(md.response))
            if Ts.shape != T.shape or Rs.shape != R.shape:
                return (f"{fam}:shape", f"{fam} changed the shapes to {Ts.shape}, {Rs.shape}")
            if fam == "standardise":
                for j in range(T.shape[1]):
                    # rounding: the column is offset by up to cond = max|x| / spread spreads, and each standardised value
                    # carries a relative error of a few eps * cond
                    cond = float(np.max(np.abs(T[:, j]))) / max(float(np.std(T[:, j])), 1e-300)
                    tolj = 1e-9 + 200 * 2.3e-16 * cond
                    if abs(np.mean(Ts[:, j])) > tolj or abs(np.std(Ts[:, j]) - 1) > tolj:
                        return ("standardise_training:moments", f"feature {j} has mean {np.mean(Ts[:, j])!r} and spread "
                                f"{np.std(Ts[:, j])!r} after standardising")
                condr = float(np.max(np.abs(R))) / max(float(np.std(R)), 1e-300)
                if abs(np.mean(Rs)) > 1e-9 + 200 * 2.3e-16 * condr or abs(np.std(Rs) - 1) > 1e-9 + 200 * 2.3e-16 * condr:
                    return ("standardise_response:moments", f"response has mean {np.mean(Rs)!r} and spread {np.std(Rs)!r} "
                            f"after standardising")
            else:
                if np.min(Ts) < -1e-12 or np.max(Ts) > 1 + 1e-12 or np.min(Rs) < -1e-12 or np.max(Rs) > 1 + 1e-12:
                    return ("normalise:range", "normalised values leave [0, 1]")
            getattr(md, f"un{fam}_response")()
            getattr(md, f"un{fam}_training")()
        Tb, Rb = np.array(md.training), np.atleast_1d(np.array(md.response))
        for j in range(T.shape[1]):
            if not np.all(np.abs(Tb[:, j] - T[:, j]) <= TOL * st[j]):
                return (f"un{fam}_training:roundtrip", f"feature {j}: {T[:3, j].tolist()} came back as {Tb[:3, j].tolist()}")
        if not np.all(np.abs(Rb - R) <= TOL * sr):
            return (f"un{fam}_response:roundtrip", f"response {R[:3].tolist()} came back as {Rb[:3].tolist()}")
    return None


class CycleTrack:
    """one surrogate with its dataset, followed from outside: after every add_data / lowest_point the dataset in
    original units (stored statistics undone) is the old data followed by the new, whatever the flags"""

    def __init__(self, T, R, ft: bool, fr: bool, limit: bool = False, name: str = ""):
        self.ft, self.fr, self.name = ft, fr, name
        self.T_all, self.R_all = np.array(T, dtype=float), np.array(R, dtype=float)
        self.md = make_md(self.T_all, self.R_all)
        self.gp = make_gp(self.md, ft, fr, limit)
        if limit:
            # limit_highest_data clips the response ONCE, when the surrogate is constructed (by design): responses above
            # five times the magnitude of the mean response are set to that limit, in the units the data were given in.
            # The reference is computed here from the raw data, not read back from the object
            self.R_all = np.clip(self.R_all, None, 5.0 * abs(float(np.mean(self.R_all))))

    def apply(self, step: int, op) -> tuple[str, str] | None:
        md, gp, ft, fr = self.md, self.gp, self.ft, self.fr
        try:
            if op[0] == "check":
                low = None                      # nothing is done: the dataset as constructed is examined
            elif op[0] == "add":
                t2, r2 = np.array(op[1], dtype=float), np.array(op[2], dtype=float)
                if t2.size == 0:
                    t2 = t2.reshape(0, self.T_all.shape[1])
                gp.add_data(t2, r2)
                self.T_all = np.vstack([self.T_all, t2])
                self.R_all = np.concatenate([self.R_all, r2])
                low = None
            else:
                low = gp.lowest_point()
        except Exception as e:
            return (f"{op[0]}-raises", f"step {step}{self.name}: {type(e).__name__}: {e}")
        T_all, R_all = self.T_all, self.R_all
        Tn = np.array(md.training, dtype=float)
        Rn = np.atleast_1d(np.array(md.response, dtype=float))
        if ft:
            Tn = Tn * md.train_props["std"] + md.train_props["mean"]
        if fr:
            Rn = Rn * md.resp_props["std"] + md.resp_props["mean"]
        what = op[0] if not (op[0] == "add" and len(op[2]) == 0) else "add (empty batch)"
        where = f"step {step}{self.name} ({what}, standardise_training={ft}, standardise_response={fr})"
        if md.n_points != len(R_all) or Tn.shape != T_all.shape or Rn.shape != R_all.shape:
            return (f"cycle:{op[0]}:shape", f"{where}: n_points {md.n_points}, training {Tn.shape}, response "
                    f"{Rn.shape}; expected {len(R_all)} points")
        for j in range(T_all.shape[1]):
            s = max(float(np.max(np.abs(T_all[:, j]))), 1e-300)
            if not np.all(np.abs(Tn[:, j] - T_all[:, j]) <= TOL * s):
                k = int(np.argmax(np.abs(Tn[:, j] - T_all[:, j])))
                return (f"cycle:{op[0]}:training", f"{where}: feature {j} of row {k} is {Tn[k, j]!r} in original units, "
                        f"expected {T_all[k, j]!r}")
        s = max(float(np.max(np.abs(R_all))), 1e-300)
        if not np.all(np.abs(Rn - R_all) <= TOL * s):
            k = int(np.argmax(np.abs(Rn - R_all)))
            return (f"cycle:{op[0]}:response", f"{where}: response {k} is {Rn[k]!r} in original units, expected {R_all[k]!r}")
        if low is not None and abs(float(low) - float(np.min(R_all))) > TOL * s:
            return ("cycle:lowest:value", f"{where}: lowest_point returned {float(low)!r}, the lowest response is "
                    f"{float(np.min(R_all))!r}")
        return None


def predicate_cycle(T, R, ft: bool, fr: bool, ops: list, limit: bool = False) -> tuple[str, str] | None:
    with warnings.catch_warnings():
        warnings.simplefilter("ignore")
        tr = CycleTrack(T, R, ft, fr, limit)
        r = tr.apply(-1, ("check",))
        if r:
            return ("cycle:construct:" + r[0].split(":")[-1], r[1])
        if fr:
            Rs = np.atleast_1d(np.array(tr.md.response, dtype=float))
            condr = float(np.max(np.abs(tr.R_all))) / max(float(np.std(tr.R_all)), 1e-300)
            tolr = 1e-9 + 200 * 2.3e-16 * condr
            if len(Rs) >= 2 and np.ptp(tr.R_all) > 0 and (abs(float(np.mean(Rs))) > tolr or abs(float(np.std(Rs)) - 1) > tolr):
                return ("cycle:construct:moments", f"the response stored by a freshly constructed surrogate (standardise_response, "
                        f"limit_highest_data={limit}) has mean {float(np.mean(Rs))!r} and spread {float(np.std(Rs))!r}")
        for step, op in enumerate(ops):
            r = tr.apply(step, op)
            if r:
                return r
    return None


def predicate_pair(TA, RA, TB, RB, ft: bool, fr: bool, opsA: list, opsB: list) -> tuple[str, str] | None:
    """two surrogates alive at the same time (an objective and a constraint over the same inputs, say), their
    update cycles interleaved: each dataset must behave as if it were alone"""
    with warnings.catch_warnings():
        warnings.simplefilter("ignore")
        a = CycleTrack(TA, RA, ft, fr, False, " of dataset A (dataset B alive)")
        b = CycleTrack(TB, RB, ft, fr, False, " of dataset B (dataset A alive)")
        for step in range(max(len(opsA), len(opsB))):
            for tr, ops in ((a, opsA), (b, opsB)):
                if step < len(ops):
                    r = tr.apply(step, ops[step])
                    if r:
                        return r
    return None


def persist_predicate(seed: int):
    """a surrogate loop that is restarted from the files `write_data` left (examples: every Bayesian-optimisation cycle
    dumps the dataset and the next run starts from the dump): "the old data followed by the new, however many times
    this is repeated" has to survive the restart, so what is written must read back as the same doubles — numpy's
    default text format (`%.18e`) does that exactly; features and responses stay aligned row by row"""
    import os
    import random
    from topsearch.data.model_data import ModelData
    rng = random.Random(seed)
    n, d = rng.choice([1, 2, 3, 7, 20]), rng.choice([1, 2, 3, 5])
    scale = rng.choice([1e-9, 1e-3, 1.0, 1.0, 37.0, 2.5e6])
    T = np.array([[rng.uniform(-1, 1) * scale + rng.choice([0.0, 0.0, 1e5 * scale]) for _ in range(d)] for _ in range(n)])
    R = np.array([rng.uniform(-1, 1) * rng.choice([1e-12, 1.0, 1e7]) + (1.0 / 3.0) for _ in range(n)])
    md = make_md(T, R)
    want_T, want_R = np.array(md.training, dtype=float).reshape(n, -1), np.atleast_1d(np.array(md.response, dtype=float))
    k = next(_counter)
    for cycle in range(rng.choice([1, 2, 3])):
        tf, rf = f"c19_persist_t{k}_{cycle}.txt", f"c19_persist_r{k}_{cycle}.txt"
        try:
            md.write_data(tf, rf)
            with warnings.catch_warnings():
                warnings.simplefilter("ignore")
                md = ModelData(tf, rf)
        finally:
            for f in (tf, rf):
                if os.path.exists(f):
                    os.remove(f)
        got_T = np.array(md.training, dtype=float).reshape(len(want_T), -1) if np.size(md.training) == want_T.size else None
        got_R = np.atleast_1d(np.array(md.response, dtype=float))
        if got_T is None or got_R.shape != want_R.shape or not np.array_equal(got_T, want_T) or not np.array_equal(got_R, want_R):
            err = float(np.max(np.abs(got_T - want_T))) if got_T is not None else float("nan")
            return ("persist:write-read", f"a dataset of {n} points in {d} dimensions written with write_data and read back "
                    f"(restart {cycle + 1}) is not the dataset that was written (largest deviation {err:.3g}; numpy's "
                    "default text format round-trips doubles exactly)", {"persist_seed": seed})
        # the restarted loop goes on: new observations are appended after the old ones
        k_new = rng.randrange(1, 3)
        nt = np.array([[rng.uniform(-1, 1) * scale for _ in range(d)] for _ in range(k_new)])
        nr = np.array([rng.uniform(-1, 1) for _ in range(k_new)])
        md.append_data(nt, nr)
        want_T, want_R = np.vstack([want_T, nt]), np.concatenate([want_R, nr])
    return None


def predicates(ctx: Ctx) -> None:
    rng = ctx.rng
    deep = 4 if getattr(ctx, "deep_search", False) else 1
    for sd in range(ctx.seed * 1000, ctx.seed * 1000 + ctx.scale(30, 200)):
        r = persist_predicate(sd)
        ctx.stats.case({"stream": "predicate-persist", "seed": sd}, True)
        if r:
            ctx.fail(r[0], r[1], r[2])
            break
    # corpus: the two replays of the repaired defect, then small boundary datasets
    corpus = [
        ([[0.0], [0.6], [-0.6]], [1.0, 2.0, 3.0], [("dedup", 1.0)]),
        ([[0.0], [0.6], [1.2]], [1.0, 2.0, 3.0], [("dedup", 1.0)]),
        ([[0.0, 0.0], [1.5, 2.0], [1.5, 1.9375], [0.0, 0.0]], [1.0, 2.0, 3.0, 4.0], [("dedup", 2.5)]),
        ([[1.0, 2.0]], [3.0], [("append", [[5.0, 6.0]], [7.0]), ("subset", [1]), ("dedup", 0.5)]),
        ([[1.0, 2.0]], [3.0], [("dedup", 0.5)]),
        ([[7.0]], [0.0], [("reload", [[0.0], [5.0], [5.0]], [1.0, 2.0, 3.0]), ("dedup", 0.125)]),
        ([[1.0, 2.0], [3.0, 4.0]], [5.0, 6.0], [("append_bad", [[7.0, 8.0, 9.0]], [10.0]), ("append", [[7.0, 8.0]], [10.0]), ("dedup", 0.125)]),
        ([[0.0, 1.0], [4.0, 4.0], [8.0, 1.0]], [1.0, 2.0, 3.0], [("subset", [0]), ("reload", [[0.0, 0.0], [0.0, 0.0]], [4.0, 5.0]), ("dedup", 0.5)]),
    ]
    for T, R, ops in corpus:
        r = predicate_exact(T, R, ops)
        ctx.stats.case({"stream": "predicate-corpus", "T": T, "ops": [list(map(str, o)) for o in ops]}, True)
        if r:
            ctx.fail("remove_duplicates:" + r[0] if r[0].startswith("dedup") else r[0], r[1],
                     {"pred": "exact", "T": T, "R": R, "ops": ops})
    for _ in range(ctx.scale(60, 400) * deep):
        d = rng.randrange(1, 6)
        n = rng.choice([2, 3, 3, 4, 5, 6, 8, 12, 20, 40])
        c = rng.choice(CUTOFFS)
        T = dyadic_clusters(rng, n, d, c)
        R = unique_tags(rng, n)
        ops: list = []
        if rng.random() < 0.4:
            k = rng.randrange(1, 4)
            ops.append(("append", dyadic_clusters(rng, k, d, c).tolist(), unique_tags(rng, k, start=100).tolist()))
        if rng.random() < 0.3:
            # a batch of the wrong width is refused, the right one follows (as one would in a notebook)
            k = rng.randrange(1, 3)
            ops.append(("append_bad", dyadic_clusters(rng, k, d + 1, c).tolist(), unique_tags(rng, k, start=300).tolist()))
            ops.append(("append", dyadic_clusters(rng, k, d, c).tolist(), unique_tags(rng, k, start=300).tolist()))
        if rng.random() < 0.3 and d >= 2:
            ops.append(("subset", rng.sample(range(d), rng.randrange(1, d + 1))))
        ops.append(("dedup", c))
        if rng.random() < 0.3:
            ops.append(("dedup", rng.choice(CUTOFFS)))
        for _k in range(rng.choice([0, 0, 1, 1, 2])):
            # the object is reused for another dataset: read -> (subset) -> de-duplicate, as the example scripts do
            d2, n2, c2 = rng.randrange(1, 6), rng.choice([1, 2, 3, 5, 8, 12, 20, 40]), rng.choice(CUTOFFS)
            ops.append(("reload", dyadic_clusters(rng, n2, d2, c2).tolist(), unique_tags(rng, n2, start=200 * (_k + 1)).tolist()))
            if rng.random() < 0.4 and d2 >= 2:
                ops.append(("subset", rng.sample(range(d2), rng.randrange(1, d2 + 1))))
            ops.append(("dedup", c2))
        r = predicate_exact(T, R, ops)
        ctx.stats.case({"stream": "predicate-exact", "n": n, "d": d, "cutoff": c, "ops": [o[0] for o in ops]}, True)
        if r:
            T, R, ops = shrink_exact(T.tolist(), R.tolist(), ops, r[0])
            r = predicate_exact(T, R, ops) or r
            ctx.fail("remove_duplicates:" + r[0] if r[0].startswith("dedup") else r[0], r[1],
                     {"pred": "exact", "T": T, "R": R, "ops": ops})
    for _ in range(ctx.scale(30, 200) * deep):
        d = rng.randrange(1, 6)
        n = rng.choice([2, 3, 5, 10, 40])
        T, R = scaled_dataset(rng, n, d, extreme=rng.random() < 0.4)
        r = predicate_roundtrip(T, R)
        ctx.stats.case({"stream": "predicate-roundtrip", "n": n, "d": d}, True)
        if r:
            ctx.fail(r[0], r[1], {"pred": "roundtrip", "T": T.tolist(), "R": R.tolist()})
    for _ in range(ctx.scale(12, 80) * deep):
        d = rng.randrange(1, 6)
        n = rng.choice([2, 3, 5, 10, 40])
        T, R = scaled_dataset(rng, n, d, extreme=rng.random() < 0.4)
        ops = cycle_ops(rng, rng.randrange(1, ctx.scale(6, 12) + 1), d,
                        [max(float(np.max(np.abs(T[:, j]))), 1e-300) for j in range(d)], max(float(np.max(np.abs(R))), 1e-300),
                        allow_empty=True)          # a cycle that proposes nothing new hands over an empty batch
        ops = [tuple(x.tolist() if isinstance(x, np.ndarray) else x for x in o) for o in ops]
        # responses straddling zero with a few large ones, so that limit_highest_data has something to clip
        Rl = np.array(R, dtype=float) - float(np.mean(R)) * rng.choice([0.0, 0.9, 1.0])
        for ft, fr, lim in itertools.product((False, True), repeat=3):
            Ruse = Rl if lim else R
            r = predicate_cycle(T, Ruse, ft, fr, ops, lim)
            ctx.stats.case({"stream": "predicate-cycle", "n": n, "d": d, "flags": [ft, fr], "limit_highest_data": lim,
                            "len": len(ops)}, True)
            if r:
                for k in range(1, len(ops) + 1):        # shortest failing prefix
                    r2 = predicate_cycle(T, Ruse, ft, fr, ops[:k], lim)
                    if r2 and r2[0] == r[0]:
                        ops, r = ops[:k], r2
                        break
                ctx.fail("add_data/lowest_point:" + r[0], r[1] + (" [limit_highest_data=True]" if lim else ""),
                         {"pred": "cycle", "T": T.tolist(), "R": np.asarray(Ruse).tolist(), "flags": [ft, fr],
                          "limit": lim, "ops": ops})
                break


    for _ in range(ctx.scale(8, 50) * deep):
        d = rng.randrange(1, 4)
        TA, RA = scaled_dataset(rng, rng.choice([3, 5, 10]), d)
        TB, RB = scaled_dataset(rng, rng.choice([3, 5, 10]), d)
        RB = np.asarray(RB, dtype=float) * rng.choice([100.0, 0.01, 1.0]) + rng.choice([0.0, 250.0])
        mk = lambda T, R: [tuple(x.tolist() if isinstance(x, np.ndarray) else x for x in o) for o in cycle_ops(
            rng, rng.randrange(2, 6), d, [max(float(np.max(np.abs(T[:, j]))), 1e-300) for j in range(d)],
            max(float(np.max(np.abs(R))), 1e-300))]
        opsA, opsB = mk(TA, RA), mk(TB, RB)
        for ft, fr in itertools.product((False, True), repeat=2):
            r = predicate_pair(TA, RA, TB, RB, ft, fr, opsA, opsB)
            ctx.stats.case({"stream": "predicate-two-datasets", "d": d, "flags": [ft, fr]}, True)
            if r:
                ctx.fail("add_data/lowest_point:two-datasets:" + r[0], r[1],
                         {"pred": "pair", "TA": TA.tolist(), "RA": np.asarray(RA).tolist(), "TB": TB.tolist(),
                          "RB": np.asarray(RB).tolist(), "flags": [ft, fr], "opsA": opsA, "opsB": opsB})
                return


def shrink_exact(T: list, R: list, ops: list, key: str):
    """drop rows / leading operations while the same failure persists"""
    def fails(T, R, ops):
        try:
            r = predicate_exact(T, R, ops)
        except Exception:
            return False
        return r is not None and r[0] == key
    if len(ops) > 1 and fails(T, R, ops[-1:]):
        ops = ops[-1:]
    changed = True
    while changed and len(T) > 1:
        changed = False
        for i in range(len(T) - 1, -1, -1):
            T2, R2 = T[:i] + T[i + 1:], R[:i] + R[i + 1:]
            if len(T2) >= 1 and fails(T2, R2, ops):
                T, R = T2, R2
                changed = True
    return T, R, ops


def replay(ctx: Ctx, data: dict) -> bool:
    items = [data] + list(data.get("divergences", []))
    ok = True
    for d in items:
        r = None
        if "persist_seed" in d:
            r = persist_predicate(int(d["persist_seed"]))
        elif d.get("pred") == "exact":
            r = predicate_exact(d["T"], d["R"], [tuple(o) for o in d["ops"]])
        elif d.get("pred") == "roundtrip":
            r = predicate_roundtrip(d["T"], d["R"])
        elif d.get("pred") == "cycle":
            r = predicate_cycle(d["T"], d["R"], bool(d["flags"][0]), bool(d["flags"][1]), [tuple(o) for o in d["ops"]],
                                bool(d.get("limit", False)))
        elif d.get("pred") == "pair":
            r = predicate_pair(np.array(d["TA"]), d["RA"], np.array(d["TB"]), d["RB"], bool(d["flags"][0]), bool(d["flags"][1]),
                               [tuple(o) for o in d["opsA"]], [tuple(o) for o in d["opsB"]])
        elif "stream" in d and "ops" in d:
            ops = d["ops"]
            if ops and ops[0][0] == "new":
                s = Session(np.array(ops[0][1], dtype=float), np.array(ops[0][2], dtype=float),
                            str(d["stream"]).startswith("exact"), str(d["stream"]))
                for o in ops[1:]:
                    s.op(o[0], *[np.array(x, dtype=float) if isinstance(x, list) and o[0] in ("append", "add") else x
                                 for x in o[1:]])
                sub = Ctx(PROP, "quick", 0)
                check_sessions(sub, [s])
                if sub.divergences:
                    r = (sub.divergences[0].key, sub.divergences[0].what)
        if r:
            print(f"  {r[0]}: {r[1]}")
            ok = False
    return ok
