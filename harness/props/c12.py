"""C12 — pair selection proposes valid, distinct, useful pairs.

Tie #1: translate.pairs reads the slice bounds `[1:neighbours+1]`, `[1:]`, `[:cycles]`, the literal
pair dropped by unique_pairs, the tuple sort, the f_set/s_set membership test and the scheme strings
of select_minima into Gen/Pairs.lean (bridge lemmas C12_bridge_* in Props/C12.lean).
Tie #2 (pure correspondence): the real closest_enumeration / connect_unconnected / connect_to_set /
NetworkSampling.select_minima / unique_pairs on random REAL networks (KineticTransitionNetwork +
StandardSimilarity + StandardCoordinates; several components, isolated minima, self-connections,
n <= 12, dyadic coordinates with row-wise distinct distances) against Model/Pairs through
Drivers/Pairs.lean; outputs are compared as sorted lists (the code's order comes out of a `set`).
The components sent to the model are networkx's own; np.argsort is compared with the model's
sorting permutation on every row (oracle contracts, validated per run).
"""
from __future__ import annotations

import itertools
import os
from fractions import Fraction

import numpy as np

from common import Ctx, frac, run_driver
from translate import pairs as tr_pairs

PROP = "C12"
LEAN_MODULE = "TopSearch.Props.C12"
LEAN_FILES = ["TopSearch.Props.C12", "TopSearch.Model.Pairs"]
EXTRA_TARGETS = ["TopSearch.Gen.Pairs"]
_T = "TopSearch.Props.C12."
REQUIRED = [_T + n for n in [
    "C12_bridge_kernels", "C12_bridge_dispatch", "C12_bridge_viaSet",
    "C12_argsort_contract", "C12_argsort_unique", "C12_gmin_is_global_minimum",
    "C12_valid_distinct", "C12_closest_exact", "C12_bridge_only", "C12_bridge_complete",
    "C12_empty_iff_connected", "C12_select_minima", "C12_no_self_pairs_filter_inert",
    "C12_read_pairs_distinct",
]]
RULE = ("cases = (real network, selector, N) evaluated by the real code and by the model and compared "
        "as sorted pair lists; a case is non-trivial when the network has >= 2 minima and the answer "
        "is non-empty; distinct = distinct (network, selector, N, answer)")
ASSUMPTIONS = [
    "nx-components: nx.node_connected_component / connected_components report reachability "
    "(component ids are an oracle input of the model; checked per run against a union-find)",
    "argsort: np.argsort returns a sorting permutation of the row (under generic positions it is "
    "unique, theorem C12_argsort_unique; compared per run with the model's merge sort)",
    "generic positions (DESIGN 4.0): d(i,i) = 0 < d(i,j) and the entries of every row distinct; the "
    "model receives exact squared distances, np.linalg.norm is strictly monotone on the dyadic grid "
    "used (validated per run through the argsort comparison)",
    "the network store is coherent (minima labelled 0..n-1 = n_minima; property C02)",
    "the order of the returned list (iteration order of a Python set of int tuples) is not part of "
    "the statement; outputs are compared as sets with multiplicity",
]
PARTIAL = ""
TRUSTED_EXTRA = ["oracle contracts: nx-components, argsort (validated per run)"]


def regenerate(ctx: Ctx) -> None:
    ctx.gen_status.update(tr_pairs.regenerate())
    from translate import transcripts as _tr
    ctx.gen_status.update(_tr.constructor_wiring(['NetworkSampling']))


# ----------------------------------------------------------------------------- networks


def sqd(a, b) -> Fraction:
    return sum((Fraction(x) - Fraction(y)) ** 2 for x, y in zip(a, b))


def rows_of(pts) -> list[list[Fraction]]:
    return [[sqd(p, q) for q in pts] for p in pts]


def generic(rows) -> bool:
    n = len(rows)
    for i in range(n):
        if len(set(rows[i])) != n or any(rows[i][j] <= 0 for j in range(n) if j != i):
            return False
    return True


def random_network(rng, n: int | None = None) -> dict:
    """dyadic points with row-wise (mostly: globally) distinct distances, distinct dyadic energies,
    a random partition into components wired by random spanning trees plus extra edges/self-loops"""
    if n is None:
        n = rng.choice([0, 1, 2, 2, 3, 3, 4, 5, 6, 7, 8, 9, 10, 11, 12])
    dim = rng.choice([1, 2, 2, 3]) if n <= 6 else rng.choice([2, 3, 3])
    all_distinct = rng.random() < 0.8
    tries = 0
    while True:
        tries += 1
        if tries > 200:                  # a crowded draw: settle for the hypothesis itself (row-wise)
            all_distinct = False
        if tries > 2000:
            dim, tries = 3, 201
        pts = [[rng.randrange(-256, 257) / 32.0 for _ in range(dim)] for _ in range(n)]
        rows = rows_of(pts)
        if not generic(rows):
            continue
        if all_distinct:
            off = [rows[i][j] for i in range(n) for j in range(i + 1, n)]
            if len(set(off)) != len(off):
                continue
        break
    es = rng.sample(range(-40, 41), n)
    energies = [e / 4.0 for e in es]
    # partition into components
    style = rng.random()
    labels = list(range(n))
    rng.shuffle(labels)
    if style < 0.15:
        groups = [labels] if n else []
    elif style < 0.25:
        groups = [[x] for x in labels]
    else:
        k = rng.randint(1, max(1, min(n, 5)))
        groups = [[] for _ in range(k)]
        for x in labels:
            groups[rng.randrange(k)].append(x)
        groups = [g for g in groups if g]
    edges = []
    for g in groups:
        for idx in range(1, len(g)):
            edges.append((g[idx], g[rng.randrange(idx)]))
        for _ in range(rng.randrange(0, 3)):
            a, b = rng.choice(g), rng.choice(g)     # extra edge or self-connection
            edges.append((a, b))
    rng.shuffle(edges)
    return {"points": pts, "energies": energies, "edges": [list(e) for e in edges]}


def close_distance_network(rng) -> dict:
    """a landscape of large extent whose minima sit near a lattice (converged minima of a periodic surface):
    the candidate neighbours of a minimum are at distances that differ only in the 7th-9th significant figure,
    all exactly representable, row-wise distinct"""
    n = rng.choice([4, 5, 6, 8, 9])
    net = random_network(rng, n)
    while True:
        scale = rng.choice([64.0, 1024.0])
        cells = rng.sample([(a, b) for a in range(4) for b in range(4)], n)
        pts = [[scale * a + rng.randrange(-8, 9) / 65536.0, scale * b + rng.randrange(-8, 9) / 65536.0] for a, b in cells]
        if generic(rows_of(pts)):
            break
    net["points"] = pts
    return net


def build(net: dict):
    from topsearch.data.kinetic_transition_network import KineticTransitionNetwork
    from topsearch.data.coordinates import StandardCoordinates
    from topsearch.similarity.similarity import StandardSimilarity
    pts = net["points"]
    dim = len(pts[0]) if pts else 2
    ktn = KineticTransitionNetwork()
    for p, e in zip(pts, net["energies"]):
        ktn.add_minimum(np.array(p, dtype=float), float(e))
    for a, b in net["edges"]:
        ktn.add_ts((np.array(pts[a]) + np.array(pts[b])) / 2.0, 100.0, a, b)
    st = np.random.get_state()
    # the selectors rank by the plain Euclidean distance whatever the matching options of the similarity object are and
    # whatever the shape of the box: a third of the networks get a box that is 100 times wider along the first
    # coordinate, two thirds a similarity object that MATCHES in box-proportional units
    variant = len(pts) % 3
    bounds = [(-10.0, 10.0)] * dim
    if variant == 1 and dim >= 1:
        bounds = [(-1000.0, 1000.0)] + [(-10.0, 10.0)] * (dim - 1)
    coords = StandardCoordinates(ndim=dim, bounds=bounds)
    np.random.set_state(st)
    sim = StandardSimilarity(0.01, 0.01, proportional_distance=(variant != 0))
    return ktn, sim, coords


def nx_components(ktn) -> list[int]:
    import networkx as nx
    comp = [None] * ktn.n_minima
    for cid, c in enumerate(nx.connected_components(ktn.G)):
        for k in c:
            comp[int(k)] = cid
    return comp


def union_find(n: int, edges) -> list[int]:
    par = list(range(n))

    def f(x):
        while par[x] != x:
            par[x] = par[par[x]]
            x = par[x]
        return x
    for a, b in edges:
        par[f(a)] = f(b)
    return [f(x) for x in range(n)]


def canon_out(out) -> str:
    """the code's answer as a sorted list WITH multiplicity and WITHOUT reordering inside a pair"""
    ps = sorted((int(p[0]), int(p[1])) for p in out)
    return ",".join(f"{a}:{b}" for a, b in ps) if ps else "-"


def net_line(net: dict, comp: list[int]) -> str:
    n = len(net["points"])
    rows = rows_of(net["points"])
    sl = lambda xs: ",".join(xs) if xs else "-"
    return (f"net {n} {sl([frac(e) for e in net['energies']])} {sl([str(c) for c in comp])} "
            + (";".join(",".join(frac(x) for x in r) for r in rows) if n else "-"))


def call(f, *a):
    try:
        return canon_out(f(*a))
    except Exception as e:
        return f"raise:{type(e).__name__}"


def write_pairs_file(file_pairs) -> None:
    with open("pairs.txt", "w", encoding="utf-8") as fh:
        for a, b in file_pairs:
            fh.write(f"{a} {b}\n")


# ----------------------------------------------------------------------------- correspondence


def pred_second_selection() -> tuple[str, str] | None:
    """the ordinary loop: select on one network, then select again on ANOTHER one (or the same after it was joined up):
    the second answer concerns the second network only — valid pairs of ITS minima, and nothing at all once it is
    connected"""
    from topsearch.analysis import pair_selection as ps
    from topsearch.sampling.exploration import NetworkSampling
    big = {"points": [[float(i), 0.25 * (i % 3)] for i in range(8)], "energies": [-(i % 5) - 0.125 * i for i in range(8)],
           "edges": [(0, 1), (2, 3), (4, 5)]}
    small = {"points": [[0.0, 0.0], [1.0, 0.5], [2.5, 0.25]], "energies": [-1.0, -2.0, -0.5], "edges": [(0, 1), (1, 2)]}
    for via in ("connect_unconnected", "select_minima"):
        for N in (1, 2):
            for net in (big, small, small):
                ktn, sim, coords = build(net)
                samp = NetworkSampling(ktn, coords, None, None, None, sim)
                try:
                    out = ps.connect_unconnected(ktn, sim, coords, N) if via == "connect_unconnected" else \
                        samp.select_minima(coords, "ConnectUnconnected", N)
                except Exception as e:  # noqa: BLE001
                    return (f"second-selection:{via}:raises", f"{via} raised {type(e).__name__}: {e} on a network of {ktn.n_minima} minima")
                out = [[int(a), int(b)] for a, b in out]
                bad = check_pairs(out, ktn.n_minima)
                if bad is None and net is small and out:
                    bad = f"the network is connected but {out} is proposed"
                if bad:
                    return (f"second-selection:{via}", f"{via}(N={N}) on a network of {ktn.n_minima} minima, called after a selection "
                            f"on another network in the same process: {bad}")
    return None


def canary(ctx: Ctx) -> bool:
    """run once, before the long streams: a selector that carries pairs over from one call to the next makes every later
    answer grow; with a failing input in hand there is no point in (and, the lists growing, no end to) the rest"""
    if not hasattr(ctx, "_c12_canary"):
        r = pred_second_selection()
        ctx._c12_canary = r
        ctx.stats.case({"stream": "predicate-second-selection"}, True)
        if r:
            ctx.fail(r[0], r[1], {"second_selection": True})
    return ctx._c12_canary is not None


def correspond(ctx: Ctx) -> None:
    if canary(ctx):
        return
    from topsearch.analysis import pair_selection as ps
    from topsearch.analysis.graph_properties import unconnected_component
    from topsearch.sampling.exploration import NetworkSampling
    rng = ctx.rng
    nets = [corpus_net(k) for k in CORPUS] + [random_network(rng) for _ in range(ctx.scale(120, 900))]
    lines: list[str] = ["kern gen"]
    expect: list[tuple[str, str, dict, bool]] = []   # (impl answer, tag, case, compare?)
    for net in nets:
        ktn, sim, coords = build(net)
        n = ktn.n_minima
        comp = nx_components(ktn)
        uf = union_find(n, net["edges"])
        ok = all((comp[a] == comp[b]) == (uf[a] == uf[b]) for a in range(n) for b in range(n))
        ctx.contract("nx-components", ok)
        lines.append(net_line(net, comp))
        gmin = int(np.argmin(net["energies"])) if n else 0
        expect.append((f"ok gmin={gmin}", "net", {"n": n}, True))
        # argsort contract on every row (real distance matrix, numpy's own argsort)
        if n:
            from topsearch.analysis.minima_properties import get_distance_matrix
            dm = get_distance_matrix(ktn, sim, coords)
            for i in range(n):
                lines.append(f"argsort {i}")
                expect.append((",".join(str(int(x)) for x in np.argsort(dm[i, :])), "argsort",
                               {"n": n, "row": i}, True))
        Ns = sorted({1, 2, rng.randint(1, max(1, n)), n + 1})
        samp = NetworkSampling(ktn, coords, None, None, None, sim)
        for N in Ns:
            case = {"net": net, "N": N}
            lines.append(f"closest {N}")
            expect.append((call(ps.closest_enumeration, ktn, sim, coords, N), "closest", case, True))
            lines.append(f"unconnected {N}")
            expect.append((call(ps.connect_unconnected, ktn, sim, coords, N), "unconnected", case, True))
            for opt in ("ClosestEnumeration", "ConnectUnconnected"):
                lines.append(f"select {opt} {N} -")
                expect.append((call(samp.select_minima, coords, opt, N), "select:" + opt, case, True))
        for node in rng.sample(range(n), min(n, 3)):
            c = rng.randint(1, max(1, n))
            lines.append(f"toset {node} {c}")
            expect.append((call(ps.connect_to_set, ktn, sim, coords, node, c), "toset",
                           {"net": net, "node": node, "cycles": c}, True))
        # ReadPairs and an unknown scheme (the file needs >= 2 rows: genfromtxt gives a flat list for one)
        fp = [(rng.randrange(0, max(n, 1) + 1), rng.randrange(0, max(n, 1) + 1)) for _ in range(rng.randint(2, 8))]
        if rng.random() < 0.5:
            fp.append((0, 0))
        if rng.random() < 0.5:
            fp.append(fp[0][::-1])
        write_pairs_file(fp)
        fps = ",".join(f"{a}:{b}" for a, b in fp)
        lines.append(f"select ReadPairs 1 {fps}")
        expect.append((call(samp.select_minima, coords, "ReadPairs", 1), "select:ReadPairs", {"file": fp}, True))
        lines.append(f"unique {fps}")
        expect.append((call(ps.unique_pairs, [list(p) for p in fp]), "unique", {"file": fp}, True))
        bad = rng.choice(["closestenumeration", "Foo", ""]) or "Empty"
        lines.append(f"select {bad} 1 -")
        r = call(samp.select_minima, coords, bad, 1)
        expect.append(("none" if r == "raise:UnboundLocalError" else r, "select:unknown", {"option": bad}, True))
        # also the unconnected set itself (gmin + components): recoverable from `unconnected n+1`
        _ = unconnected_component
    # a few out-of-domain networks: the model must refuse (ties in a row / coincident minima)
    for _ in range(ctx.scale(6, 30)):
        net = random_network(rng, rng.randint(2, 6))
        net["points"][1] = list(net["points"][0])
        ktn, sim, coords = build(net)
        lines.append(net_line(net, nx_components(ktn)))
        expect.append(("guard", "net:non-generic", {"n": ktn.n_minima}, True))
    try:
        os.remove("pairs.txt")
    except OSError:
        pass
    out = run_driver("Pairs", lines)[1:]
    if len(out) != len(expect):
        ctx.diverge("pairs-driver-length", f"driver answered {len(out)} lines for {len(expect)}", {})
        return
    for (impl, tag, case, cmp_), got in zip(expect, out):
        if tag in ("argsort",):
            ctx.contract("argsort", impl == got)
            ctx.stats.branch(tag)
            if impl != got:
                ctx.diverge("argsort-contract", f"np.argsort gave {impl}, the model's sorting permutation is {got}", case)
            continue
        nontrivial = got not in ("-", "guard", "none", "bad-op") and tag != "net"
        if tag != "net":
            ctx.stats.case({"op": tag, "case": _brief(case), "answer": got}, nontrivial, sample_every=200)
        ctx.stats.branch(tag + ("" if got not in ("-", "guard", "none") else ":" + {"-": "empty"}.get(got, got)))
        if impl != got:
            ctx.diverge(f"pairs:{tag}", f"{tag}: implementation {impl} / model {got}", {**case, "impl": impl, "model": got})


def _brief(case: dict) -> dict:
    c = dict(case)
    if "net" in c:
        net = c.pop("net")
        c["n"] = len(net["points"])
        c["points"] = net["points"]
        c["edges"] = net["edges"]
    return c


# ----------------------------------------------------------------------------- predicates


CORPUS = ["empty", "single", "two-connected", "two-apart", "gmin-isolated", "zero-nearest-zero",
          "chain-and-isolated", "all-isolated"]


def corpus_net(name: str) -> dict:
    P = {
        "empty": ([], [], []),
        "single": ([[0.5, 1.0]], [1.0], [[0, 0]]),
        "two-connected": ([[0.0], [1.5]], [2.0, 1.0], [[0, 1]]),
        "two-apart": ([[0.0], [1.5]], [2.0, 1.0], []),
        # the global minimum (index 2) is isolated: every other minimum is outside its component
        "gmin-isolated": ([[0.0, 0.0], [1.0, 0.0], [4.0, 0.5], [1.5, 2.0]], [1.0, 2.0, -3.0, 0.5], [[0, 1], [1, 3]]),
        # minimum 0 is everybody's nearest neighbour: pairs (0, j) abound, (0, 0) must never arise
        "zero-nearest-zero": ([[0.0, 0.0], [1.0, 0.125], [-1.25, 0.0], [0.0, 1.5], [0.25, -1.75]],
                              [0.0, 1.0, 2.0, 3.0, 4.0], [[1, 2]]),
        "chain-and-isolated": ([[0.0], [1.0], [2.5], [4.5], [7.0], [-3.5]], [5.0, 4.0, 3.0, 2.0, 1.0, 0.0],
                               [[0, 1], [1, 2], [3, 4], [2, 2]]),
        "all-isolated": ([[0.0, 0.0], [1.0, 0.25], [2.5, 0.0], [0.125, 3.0]], [1.0, 0.0, 2.0, 3.0], []),
    }[name]
    return {"points": P[0], "energies": P[1], "edges": P[2]}


def nclosest(rows, i: int, N: int) -> list[int]:
    others = sorted((rows[i][j], j) for j in range(len(rows)) if j != i)
    return [j for _, j in others[:N]]


def check_pairs(out, n: int) -> str | None:
    """every pair names two different existing minima; no unordered pair twice"""
    seen = set()
    for p in out:
        if len(p) != 2:
            return f"malformed pair {p}"
        a, b = int(p[0]), int(p[1])
        if not (0 <= a < n and 0 <= b < n):
            return f"pair {[a, b]} names a minimum that does not exist (n = {n})"
        if a == b:
            return f"pair {[a, b]} joins a minimum to itself"
        if frozenset((a, b)) in seen:
            return f"unordered pair {{{a}, {b}}} proposed twice"
        seen.add(frozenset((a, b)))
    return None


def predicate_net(net: dict, N: int) -> tuple[str, str] | None:
    """the statement of C12 evaluated on the real code (components by networkx directly, N closest by
    brute force on exact squared distances)"""
    import networkx as nx
    from topsearch.analysis import pair_selection as ps
    from topsearch.sampling.exploration import NetworkSampling
    ktn, sim, coords = build(net)
    n = ktn.n_minima
    rows = rows_of(net["points"])
    comp = nx_components(ktn)
    samp = NetworkSampling(ktn, coords, None, None, None, sim)
    for site, f in (("closest_enumeration", lambda: ps.closest_enumeration(ktn, sim, coords, N)),
                    ("select_minima:ClosestEnumeration", lambda: samp.select_minima(coords, "ClosestEnumeration", N))):
        try:
            out = f()
        except Exception as e:
            return (f"{site}:raises", f"{site} raised {type(e).__name__}: {e}")
        bad = check_pairs(out, n)
        if bad:
            return (f"{site}:invalid-pair", f"N={N}: {bad}")
        got = {frozenset((int(a), int(b))) for a, b in out}
        want = {frozenset((i, j)) for i in range(n) for j in nclosest(rows, i, N)}
        if got != want:
            miss, extra = sorted(map(sorted, want - got)), sorted(map(sorted, got - want))
            return (f"{site}:not-N-closest", f"N={N}: missing {miss[:4]} extra {extra[:4]}")
    for site, f in (("connect_unconnected", lambda: ps.connect_unconnected(ktn, sim, coords, N)),
                    ("select_minima:ConnectUnconnected", lambda: samp.select_minima(coords, "ConnectUnconnected", N))):
        try:
            out = f()
        except Exception as e:
            return (f"{site}:raises", f"{site} raised {type(e).__name__}: {e}")
        bad = check_pairs(out, n)
        if bad:
            return (f"{site}:invalid-pair", f"N={N}: {bad}")
        got = {frozenset((int(a), int(b))) for a, b in out}
        for a, b in out:
            if comp[int(a)] == comp[int(b)]:
                return (f"{site}:same-component", f"N={N}: pair {[int(a), int(b)]} lies inside one connected component")
        if n:
            gmin = min(range(n), key=lambda k: net["energies"][k])
            for i in range(n):
                if comp[i] != comp[gmin]:
                    outside = [j for j in range(n) if comp[j] != comp[i]]
                    j = min(outside, key=lambda k: rows[i][k])
                    if frozenset((i, j)) not in got:
                        return (f"{site}:bridge-missing", f"N={N}: minimum {i} is outside the global minimum's "
                                f"component but its closest outside minimum {j} is not proposed")
        if not out and n and not nx.is_connected(ktn.G):
            return (f"{site}:empty-but-disconnected", f"N={N}: nothing proposed for a disconnected network")
    return None


def shrink_net(net: dict, N: int, key: str) -> dict:
    """drop minima / edges while the same failure persists"""
    def fails(nt):
        try:
            r = predicate_net(nt, N)
        except Exception:
            return False
        return r is not None and r[0] == key
    changed = True
    while changed:
        changed = False
        for k in reversed(range(len(net["points"]))):
            cand = {"points": net["points"][:k] + net["points"][k + 1:],
                    "energies": net["energies"][:k] + net["energies"][k + 1:],
                    "edges": [[a - (a > k), b - (b > k)] for a, b in net["edges"] if k not in (a, b)]}
            if fails(cand):
                net, changed = cand, True
                break
        if changed:
            continue
        for k in range(len(net["edges"])):
            cand = {**net, "edges": net["edges"][:k] + net["edges"][k + 1:]}
            if fails(cand):
                net, changed = cand, True
                break
    return net


def _want_closest(dist, n: int, N: int, margin: float):
    """{unordered pairs} of the N closest others of every minimum from a full distance table, or None when some
    N-th / (N+1)-th pair of distances is closer than `margin` (no unique answer)"""
    want = set()
    for i in range(n):
        others = sorted((dist[i][j], j) for j in range(n) if j != i)
        if N < len(others) and others[N][0] - others[N - 1][0] < margin:
            return None
        want |= {frozenset((i, j)) for _, j in others[:N]}
    return want


def pred_atomic_network(seed: int, N: int) -> tuple[str, str] | None:
    """clusters stored in different frames (rotated, translated, like atoms renumbered): "closest" is the distance
    AFTER alignment, which is what the molecular similarity reports; reference = that similarity asked pair by pair
    through a fresh object"""
    import random
    from topsearch.analysis import pair_selection as ps
    from topsearch.data.coordinates import AtomicCoordinates
    from topsearch.data.kinetic_transition_network import KineticTransitionNetwork
    from topsearch.sampling.exploration import NetworkSampling
    from topsearch.similarity.molecular_similarity import MolecularSimilarity
    rng = random.Random(seed)
    np.random.seed(seed % (2 ** 31))
    natoms, nmin = 4, rng.choice([4, 5, 6])
    labels = ["C"] * natoms
    base = np.array([[0, 0, 0], [1.2, 0, 0], [0.5, 1.1, 0], [0.6, 0.4, 1.0]], dtype=float)
    direction = np.array([[rng.uniform(-1, 1) for _ in range(3)] for _ in range(natoms)])
    ts = sorted(rng.sample(range(0, 40), nmin))
    structs = []
    for t in ts:                                    # one distortion coordinate: aligned distance grows with |t - t'|
        x = base + 0.05 * t * direction
        a = np.array([[rng.gauss(0, 1) for _ in range(3)] for _ in range(3)])
        q, r = np.linalg.qr(a)
        q = q * np.sign(np.diag(r))
        if np.linalg.det(q) < 0:
            q[:, 0] *= -1
        perm = list(range(natoms)); rng.shuffle(perm)
        structs.append((x[perm] @ q.T + np.array([rng.uniform(-3, 3) for _ in range(3)])).flatten())
    ktn = KineticTransitionNetwork()
    for k, x in enumerate(structs):
        ktn.add_minimum(x.copy(), -1.0 - 0.1 * k)
    sim = MolecularSimilarity(0.01, 1e-4, weighted=False)
    ref = MolecularSimilarity(0.01, 1e-4, weighted=False)
    coords = AtomicCoordinates(labels, structs[0].copy())
    rc = AtomicCoordinates(labels, structs[0].copy())
    dist = [[0.0] * nmin for _ in range(nmin)]
    for i in range(nmin):
        for j in range(i + 1, nmin):
            rc.position = structs[i].copy()
            dist[i][j] = dist[j][i] = float(ref.closest_distance(rc, structs[j].copy()))
    want = _want_closest(dist, nmin, N, 0.05)
    if want is None:
        return None
    samp = NetworkSampling(ktn, coords, None, None, None, sim)
    for site, f in (("closest_enumeration", lambda: ps.closest_enumeration(ktn, sim, coords, N)),
                    ("select_minima:ClosestEnumeration", lambda: samp.select_minima(coords, "ClosestEnumeration", N))):
        out = f()
        bad = check_pairs(out, nmin)
        if bad:
            return (f"{site}:invalid-pair:atomic", f"N={N}: {bad}")
        got = {frozenset((int(a), int(b))) for a, b in out}
        if got != want:
            return (f"{site}:not-N-closest:atomic", f"N={N}, {nmin} four-atom clusters stored in different frames: missing "
                    f"{sorted(map(sorted, want - got))[:4]} extra {sorted(map(sorted, got - want))[:4]} (closest = distance "
                    "after alignment)")
    return None


def pred_large_network(seed: int, nmin: int = 300) -> tuple[str, str] | None:
    """a network with a few hundred minima (a realistic size; every network of the repository's own tests has fewer than
    ten): valid pairs, and the N closest of every minimum, judged from the coordinates with a margin against near-ties"""
    import random
    from topsearch.analysis import pair_selection as ps
    from topsearch.sampling.exploration import NetworkSampling
    rng = random.Random(seed)
    pts = [[rng.uniform(-9.0, 9.0) for _ in range(3)] for _ in range(nmin)]
    net = {"points": pts, "energies": [-0.001 * k for k in range(nmin)], "edges": []}
    ktn, sim, coords = build(net)
    samp = NetworkSampling(ktn, coords, None, None, None, sim)
    P = np.array(pts)
    dist = np.linalg.norm(P[:, None, :] - P[None, :, :], axis=2).tolist()
    for N in (1, 3):
        want = _want_closest(dist, nmin, N, 1e-9)
        for site, f in (("closest_enumeration", lambda: ps.closest_enumeration(ktn, sim, coords, N)),
                        ("select_minima:ClosestEnumeration", lambda: samp.select_minima(coords, "ClosestEnumeration", N))):
            out = f()
            bad = check_pairs(out, nmin)
            if bad:
                return (f"{site}:invalid-pair:large-network", f"N={N}, {nmin} minima: {bad}")
            if want is not None:
                got = {frozenset((int(a), int(b))) for a, b in out}
                if got != want:
                    return (f"{site}:not-N-closest:large-network", f"N={N}, {nmin} minima: missing "
                            f"{sorted(map(sorted, want - got))[:4]} extra {sorted(map(sorted, got - want))[:4]}")
    return None


def pred_mutation_sequence(seed: int) -> tuple[str, str] | None:
    """the explore loop on ONE network / sampler / coordinates / similarity object: select, add what a search found,
    select again, prune, select again — every selection is judged against the network as it is at that moment"""
    import random
    rng = random.Random(seed)
    net = random_network(rng, rng.choice([4, 5, 6, 7]))
    from topsearch.analysis import pair_selection as ps
    from topsearch.sampling.exploration import NetworkSampling
    ktn, sim, coords = build(net)
    samp = NetworkSampling(ktn, coords, None, None, None, sim)
    pts = [list(p) for p in net["points"]]
    energies = list(net["energies"])
    edges = [tuple(e) for e in net["edges"]]
    dim = len(pts[0])
    for stage in range(4):
        n = len(pts)
        cur = {"points": pts, "energies": energies, "edges": [list(e) for e in edges]}
        rows = rows_of(pts)
        if not generic(rows):
            return None
        comp = union_find(n, edges)
        for N in (1, 2):
            for site, f in (("connect_unconnected", lambda: ps.connect_unconnected(ktn, sim, coords, N)),
                            ("select_minima:ConnectUnconnected", lambda: samp.select_minima(coords, "ConnectUnconnected", N)),
                            ("closest_enumeration", lambda: ps.closest_enumeration(ktn, sim, coords, N))):
                out = f()
                bad = check_pairs(out, n)
                if bad:
                    return (f"{site}:invalid-pair:after-network-change", f"stage {stage}, N={N}: {bad}")
                got = {frozenset((int(a), int(b))) for a, b in out}
                if site == "closest_enumeration":
                    want = {frozenset((i, j)) for i in range(n) for j in nclosest(rows, i, N)}
                    if got != want:
                        return (f"{site}:not-N-closest:after-network-change", f"stage {stage} of an explore loop on one set of "
                                f"objects, N={N}: missing {sorted(map(sorted, want - got))[:4]} extra {sorted(map(sorted, got - want))[:4]}")
                    continue
                for a, b in out:
                    if comp[int(a)] == comp[int(b)]:
                        return (f"{site}:same-component:after-network-change", f"stage {stage}, N={N}: pair {[int(a), int(b)]} "
                                "lies inside one connected component")
                gmin = min(range(n), key=lambda k: energies[k])
                for i in range(n):
                    if comp[i] != comp[gmin]:
                        outside = [j for j in range(n) if comp[j] != comp[i]]
                        j = min(outside, key=lambda k: rows[i][k])
                        if frozenset((i, j)) not in got:
                            return (f"{site}:bridge-missing:after-network-change",
                                    f"stage {stage} of an explore loop on one set of objects (the network has changed since "
                                    f"the first selection), N={N}: minimum {i} is outside the global minimum's component but its "
                                    f"closest outside minimum {j} is not proposed")
        # change the network through the public mutators
        if stage in (0, 1):
            while True:
                p = [rng.randrange(-256, 257) / 32.0 for _ in range(dim)]
                if generic(rows_of(pts + [p])):
                    break
            e = min(energies) + rng.choice([0.125, 1.5]) if stage == 0 else min(energies) - 0.25
            ktn.add_minimum(np.array(p), e)
            pts.append(p); energies.append(e)
            a = rng.randrange(len(pts) - 1)
            ktn.add_ts(np.array([0.0] * dim), max(energies) + 1.0, len(pts) - 1, a)
            edges.append((len(pts) - 1, a))
        elif stage == 2 and len(pts) > 3:
            k = rng.randrange(len(pts))
            ktn.remove_minimum(k)
            pts.pop(k); energies.pop(k)
            edges = [(u - (u > k), v - (v > k)) for u, v in edges if k not in (u, v)]
    return None


def predicates(ctx: Ctx) -> None:
    if canary(ctx):
        return
    rng = ctx.rng
    deep = getattr(ctx, "deep_search", False)
    for _k in range(ctx.scale(1, 3)):
        sd = rng.randrange(1 << 30)
        r = pred_large_network(sd)
        ctx.stats.case({"stream": "predicate-large-network", "seed": sd, "minima": 300}, True)
        if r:
            ctx.fail(r[0], r[1], {"large_seed": sd})
    for it in range(ctx.scale(6, 40) * (3 if deep else 1)):
        sd = rng.randrange(1 << 30)
        N = rng.choice([1, 1, 2])
        r = pred_atomic_network(sd, N)
        ctx.stats.case({"stream": "predicate-atomic-network", "seed": sd, "N": N}, r is not None or True)
        if r:
            ctx.fail(r[0], r[1], {"atomic_seed": sd, "N": N})
            break
    for it in range(ctx.scale(15, 100) * (3 if deep else 1)):
        sd = rng.randrange(1 << 30)
        r = pred_mutation_sequence(sd)
        ctx.stats.case({"stream": "predicate-mutation-sequence", "seed": sd}, True)
        if r:
            ctx.fail(r[0], r[1], {"sequence_seed": sd})
            break
    cases = [(corpus_net(k), N) for k in CORPUS for N in (1, 2, 5)]
    cases += [(close_distance_network(rng), None) for _ in range(ctx.scale(12, 80) * (3 if deep else 1))]
    cases += [(random_network(rng), None) for _ in range(ctx.scale(60, 500) * (5 if deep else 1))]
    for net, N in cases:
        n = len(net["points"])
        for NN in ([N] if N else sorted({1, rng.randint(1, max(1, n)), n + 1})):
            r = predicate_net(net, NN)
            ctx.stats.case({"stream": "predicate", "n": n, "N": NN, "edges": net["edges"],
                            "points": net["points"]}, n >= 2)
            if r:
                small = shrink_net(net, NN, r[0])
                r2 = predicate_net(small, NN) or r
                ctx.fail(r[0], r2[1], {"net": small, "N": NN})
    # unique_pairs on its own: [a, b] and [b, a] are one pair
    from topsearch.analysis import pair_selection as ps
    for _ in range(ctx.scale(30, 200)):
        l = [[rng.randrange(6), rng.randrange(6)] for _ in range(rng.randint(0, 10))]
        l = [p for p in l if p[0] != p[1]]
        out = ps.unique_pairs([list(p) for p in l])
        got = sorted(tuple(sorted(map(int, p))) for p in out)
        want = sorted({tuple(sorted(p)) for p in l})
        ctx.stats.case({"stream": "predicate-unique", "in": l}, bool(l))
        if got != want:
            ctx.fail("unique_pairs:not-the-set-of-unordered-pairs",
                     f"unique_pairs({l}) = {out}: not each unordered pair exactly once", {"pairs": l})


def replay(ctx: Ctx, data: dict) -> bool:
    if "large_seed" in data:
        r = pred_large_network(int(data["large_seed"]))
        if r:
            print(f"  {r[0]}: {r[1]}")
        return r is None
    if data.get("second_selection"):
        r = pred_second_selection()
        if r:
            print(f"  {r[0]}: {r[1]}")
        return r is None
    if "atomic_seed" in data or "sequence_seed" in data:
        r = pred_atomic_network(data["atomic_seed"], data["N"]) if "atomic_seed" in data else pred_mutation_sequence(data["sequence_seed"])
        if r:
            print(f"  {r[0]}: {r[1]}")
        return r is None
    if "net" in data:
        r = predicate_net(data["net"], int(data.get("N", 1)))
        if r:
            print(f"  {r[0]}: {r[1]}")
        return r is None
    if "pairs" in data:
        from topsearch.analysis import pair_selection as ps
        l = data["pairs"]
        out = ps.unique_pairs([list(p) for p in l])
        return sorted(tuple(sorted(map(int, p))) for p in out) == sorted({tuple(sorted(p)) for p in l})
    return True
