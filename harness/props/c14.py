"""C14 — results depend only on inputs and seeds, not on hashing, workers or timing.

Theorems (Props/C14.lean): slot collection is schedule independent (= List.map) for every
completion order; the parallel round equals the sequential merge in list order; every `set` built
in the current source is on the justified list (site scanner = tie #1).
Runtime differential (what a theorem cannot exhibit: CPython hashing, fork, OS scheduling):
seeded pipelines in separate interpreters under several PYTHONHASHSEED values -> byte digests;
the real fork pool and the real parallel round under 1..16 workers with injected per-task delays,
the observed completion order being fed to the model.
"""
from __future__ import annotations

import os
import subprocess
import sys
import time
from concurrent.futures import ThreadPoolExecutor

import numpy as np

from common import Ctx, REPO, VERIF, run_driver
from translate import hash_sites

PROP = "C14"
LEAN_MODULE = "TopSearch.Props.C14Coords"
LEAN_FILES = ["TopSearch.Props.C14", "TopSearch.Props.C14Coords", "TopSearch.Lemmas.Parallel", "TopSearch.Lemmas.AlignCoords",
              "TopSearch.Model.Parallel"]
EXTRA_TARGETS = ["TopSearch.Model.Parallel", "TopSearch.Gen.HashSites"]
P = "TopSearch.Props.C14."
REQUIRED = [P + n for n in ["C14_pool_order", "C14_parallel_merge", "C14_schedule_independent",
                            "C14_failed_skipped", "C14_sites_justified",
                            "C14_string_set_order_irrelevant", "C14_parallel_is_roundParallel",
                            "C14_bridge_dispatch", "C14_assembleCoords_order_irrelevant",
                            "C14_working_copy_read_order_dependent"]]
RULE = ("cases = (worker count, delay pattern) runs of the real fork pool / real parallel round compared "
        "with the model fed the observed completion order, and (pipeline, RNG seed, hash seed) interpreter "
        "runs compared by digest; non-trivial = the completion order differs from the task order (or >= 2 "
        "hash seeds were compared); distinct = distinct (workers, delays, outcomes) / (pipeline, seeds)")
ASSUMPTIONS = [
    "CPython: hashes of ints and tuples of ints do not depend on PYTHONHASHSEED; dicts iterate in insertion order",
    "multiprocessing.Pool.map returns results in task order (validated on every run under forced reorderings)",
    "fork semantics / OS scheduling are runtime behaviour: observed, not modelled",
]
PARTIAL = ("hash randomisation, fork and scheduling are runtime: the theorems cover the collection/merge logic and "
           "the order-irrelevance of the two string sets; bit-identity across hash seeds is the differential run")
TRUSTED_EXTRA = ["CPython hashing of ints/int tuples and Pool.map ordering as oracle contracts (validated per run)"]


def regenerate(ctx: Ctx) -> None:
    ctx.gen_status.update(hash_sites.regenerate())
    # "equals the result of merging those outcomes in list order" includes the attempt history: the recording loop of
    # run_connection_attempts is shared by both branches and reached on every path (read here, no Lean file of its own)
    from translate import history as tr_history
    from translate.base import Unavailable
    try:
        ctx.gen_status["Parallel.roundRecordsEveryPair"] = {"sorted": tr_history.round_sorts(), "reached_on_every_path": True}
    except Unavailable as e:
        ctx.gen_status["Parallel.roundRecordsEveryPair"] = f"unavailable ({e}); the predicates are the only tie"
    from translate import transcripts as _tr
    ctx.gen_status.update(_tr.constructor_wiring(['NetworkSampling']))


# ----------------------------------------------------------------------------- real pool


_LOG = None


def _task(arg):
    idx, delay, tok = arg
    time.sleep(delay)
    with open(_LOG, "a") as f:          # O_APPEND writes of one short line are atomic
        f.write(f"{idx}\n")
    return tok


def pool_case(ctx: Ctx, n: int, workers: int, delays: list[float]) -> tuple[list, list]:
    import multiprocessing
    global _LOG
    _LOG = os.path.join(ctx.scratch, f"pool-{time.time_ns()}.log")
    open(_LOG, "w").close()
    tasks = [(i, delays[i], f"t{i}") for i in range(n)]
    with multiprocessing.get_context('fork').Pool(processes=workers) as pool:
        res = pool.map(_task, tasks)
    order = [int(x) for x in open(_LOG).read().split()]
    return res, order


class ScriptedNEB:
    """double-ended search: a marker candidate per pair, after an injected delay (picklable)"""
    force_constant = 1.0

    def __init__(self, delays, log):
        self.delays, self.log = delays, log

    def run(self, coords, min2, repeats, permutation):
        key = (round(float(coords.position[0]), 6), round(float(min2[0]), 6))
        time.sleep(self.delays.get(key, 0.0))
        with open(self.log, "a") as f:
            f.write(f"{key[0]} {key[1]}\n")
        cand = np.zeros((1, coords.position.size))
        cand[0, :2] = key
        return np.array([1]), cand


class ScriptedHEF:
    """single-ended search: outcome scripted per candidate (None = failed search)"""
    failure = 'steps'

    def __init__(self, outcomes):
        self.outcomes = outcomes

    def run(self, coords, tag=-1):
        key = (round(float(coords.position[0]), 6), round(float(coords.position[1]), 6))
        o = self.outcomes.get(key)
        if o is None:
            return None, None, None, None, None, None, None
        ts, e, mp, ep, mm, em = o
        d = coords.position.size

        def pad(v):
            out = np.zeros(d)
            out[:len(v)] = v
            return out
        return pad(ts), e, pad(mp), ep, pad(mm), em, pad([1.0, 0.0])


def _logging_sim():
    """StandardSimilarity that records the order in which records reach the gate (module-level class so
    that the bound method NetworkSampling.connection_attempt stays picklable for the fork pool)"""
    global LoggingSim
    if "LoggingSim" not in globals():
        from topsearch.similarity.similarity import StandardSimilarity

        class LoggingSim(StandardSimilarity):
            def test_new_ts(self, ktn, c, e_ts, *rest):
                self.merged.append(f"r{int(round((e_ts - 2.0) * 16))}")
                return super().test_new_ts(ktn, c, e_ts, *rest)
        LoggingSim.__qualname__ = "LoggingSim"
        globals()["LoggingSim"] = LoggingSim
    sim = globals()["LoggingSim"](0.05, 0.01)
    sim.merged = []
    return sim


def make_network(nmin, dim=2):
    from topsearch.data.kinetic_transition_network import KineticTransitionNetwork
    k = KineticTransitionNetwork()
    for i in range(nmin):
        x = np.zeros(dim)
        x[0] = float(i)
        k.add_minimum(x, float(i) / 8)
    return k


def heavy_round(ctx: Ctx, workers: int, schedule: str):
    """A round whose tasks are expensive to hand to the workers (3000-dimensional network: every task
    carries ~240 kB): the first pair finishes quickly and its transition state joins the two minima of the
    LAST pair.  Every attempt has to be judged against the network as it was when the round started, so the
    last pair must still be searched and contribute, however slowly the tasks reach the workers."""
    from topsearch.data.coordinates import StandardCoordinates
    from topsearch.sampling.exploration import NetworkSampling
    dim, nmin = 3000, 10
    k = make_network(nmin, dim)
    pairs = [[0, 1], [2, 3], [4, 5], [6, 7], [1, 8], [3, 5], [0, 9]]
    outcomes, delays = {}, {}
    for j, (a, b) in enumerate(pairs):
        key = (float(a), float(b))
        slow = {"first-quick": 0.0 if j == 0 else 0.25, "all-quick": 0.0, "last-quick": 0.25 if j < 6 else 0.0}[schedule]
        delays[key] = slow
        e = 2.0 + j / 16
        if j == 0:        # descends to minima 0 and 9: connects the last pair's minima
            outcomes[key] = ([a + 0.25, b + 0.5], e, [0.0, 0.0], 0.0, [9.0, 0.0], 9 / 8)
        elif j == 6:      # the last pair finds its own transition state and a new minimum
            outcomes[key] = ([a + 0.25, b + 0.5], e, [9.0, 0.0], 9 / 8, [15.0, 1.0], 3.0)
        else:
            outcomes[key] = ([a + 0.25, b + 0.5], e, [float(a), 0.0], a / 8, [float(b), 0.0], b / 8)
    log = os.path.join(ctx.scratch, f"heavy-{time.time_ns()}.log")
    open(log, "w").close()
    coords = StandardCoordinates(ndim=dim, bounds=[(-50.0, 50.0)] * dim)
    sim = _logging_sim()
    ns = NetworkSampling(k, coords, None, ScriptedHEF(outcomes), ScriptedNEB(delays, log), sim,
                         multiprocessing_on=True, n_processes=workers)
    ns.run_connection_attempts([list(p) for p in pairs])
    return (k.n_minima, k.n_ts, tuple(sorted((min(int(u), int(v)), max(int(u), int(v))) for u, v in k.G.edges())),
            tuple(sim.merged))


LAST_ROUND: dict = {}


def round_case(ctx: Ctx, rng, workers: int, parallel: bool = True, fail_all: bool = False):
    """one real connection round under scripted searches; returns (merge order of record tokens,
    completion order of the searched pairs, per-pair outcome tokens, network digest)"""
    from topsearch.data.coordinates import StandardCoordinates
    from topsearch.sampling.exploration import NetworkSampling
    nmin = rng.randrange(3, 7)
    k = make_network(nmin)
    pairs = []
    while len(pairs) < rng.randrange(2, 7):
        a, b = rng.randrange(nmin), rng.randrange(nmin)
        if a != b and [a, b] not in pairs and [b, a] not in pairs:
            pairs.append([a, b])
    outcomes, delays, toks = {}, {}, []
    for j, (a, b) in enumerate(pairs):
        key = (float(a), float(b))
        delays[key] = rng.choice([0.0, 0.02, 0.05, 0.09])
        r = rng.random()
        if r < 0.3 or fail_all:
            toks.append("x")                              # failed search
        else:
            e = 2.0 + j / 16
            new = rng.random() < 0.4
            mm = [float(nmin + j) * 1.5, 1.0] if new else [float(b), 0.0]
            outcomes[key] = ([a + 0.25, b + 0.5], e, [float(a), 0.0], a / 8, mm, (nmin + j) / 4 if new else b / 8)
            toks.append(f"r{j}")
    log = os.path.join(ctx.scratch, f"round-{time.time_ns()}.log")
    open(log, "w").close()
    coords = StandardCoordinates(ndim=2, bounds=[(-50.0, 50.0), (-50.0, 50.0)])
    sim = _logging_sim()
    merged = sim.merged
    ns = NetworkSampling(k, coords, None, ScriptedHEF(outcomes), ScriptedNEB(delays, log), sim,
                         multiprocessing_on=parallel, n_processes=workers)
    ns.run_connection_attempts([list(p) for p in pairs])
    LAST_ROUND.clear()
    LAST_ROUND.update(pairs=[sorted(p) for p in pairs], history=np.asarray(k.pairlist).reshape(-1, 2).tolist(),
                      merged=list(merged), want_merged=[t for t in toks if t != "x"])
    order = []
    for line in open(log).read().splitlines():
        a, b = line.split()
        order.append(pairs.index([int(float(a)), int(float(b))]))
    digest = (k.n_minima, k.n_ts, tuple(sorted((min(int(u), int(v)), max(int(u), int(v)),
                                                float(k.get_ts_energy(u, v))) for u, v in k.G.edges())),
              tuple(tuple(np.asarray(k.get_minimum_coords(i)).tolist()) for i in range(k.n_minima)),
              tuple(map(tuple, np.asarray(k.pairlist).tolist())))
    return merged, order, toks, digest


def correspond(ctx: Ctx) -> None:
    rng = ctx.rng
    # (1) the real fork pool under forced completion orders vs `collect`
    lines, expect = [], []
    for _ in range(ctx.scale(10, 60)):
        n = rng.randrange(2, 9)
        workers = rng.choice([1, 2, 3, 4, 8, 16])
        delays = [rng.choice([0.0, 0.01, 0.03, 0.06]) for _ in range(n)]
        res, order = pool_case(ctx, n, workers, delays)
        ctx.contract("Pool.map returns results in task order", res == [f"t{i}" for i in range(n)])
        lines.append(f"collect {n} " + ",".join(f"{i}=t{i}" for i in order))
        expect.append((res, {"workers": workers, "delays": delays, "completion_order": order}))
    out = run_driver("Parallel", lines)
    for (res, canon), got in zip(expect, out):
        reordered = canon["completion_order"] != sorted(canon["completion_order"])
        ctx.stats.case(canon, reordered)
        ctx.stats.branch("pool:reordered" if reordered else "pool:in-order")
        if ",".join(res) != got:
            ctx.diverge("pool-collect", f"pool.map returned {res}, model collect gives {got}", canon)
    # (2) the real parallel round: merge order of the records vs the model fed the observed completion order
    lines, expect = [], []
    for _ in range(ctx.scale(10, 60)):
        workers = rng.choice([1, 2, 3, 4, 8, 16])
        merged, order, toks, _d = round_case(ctx, rng, workers)
        if sorted(order) != list(range(len(toks))):
            ctx.diverge("round-searched-pairs", f"searched pairs {order} for {len(toks)} pairs", {"order": order})
            continue
        lines.append("round " + ",".join(toks) + " " + ",".join(map(str, order)))
        lines.append("seq " + ",".join(toks))
        expect.append((merged, {"workers": workers, "outcomes": toks, "completion_order": order}))
    out = run_driver("Parallel", lines)
    for i, (merged, canon) in enumerate(expect):
        got, seq = out[2 * i], out[2 * i + 1]
        reordered = canon["completion_order"] != sorted(canon["completion_order"])
        ctx.stats.case(canon, reordered)
        ctx.stats.branch("round:reordered" if reordered else "round:in-order")
        real = ",".join(merged) if merged else "-"
        if real != got or got != seq:
            ctx.diverge("parallel-merge-order", f"records merged in order {real}; model (observed completion order) "
                        f"{got}; sequential reference {seq}", canon)


# ----------------------------------------------------------------------------- predicates


def run_pipe(kind: str, seed: int, hashseed: str) -> str:
    env = dict(os.environ, PYTHONHASHSEED=hashseed)
    p = subprocess.run([sys.executable, str(VERIF / "harness" / "pipelines" / "run_pipeline.py"), kind, str(seed),
                        str(REPO)], capture_output=True, text=True, env=env, timeout=900)
    for line in p.stdout.splitlines():
        if line.startswith("DIGEST"):
            return line
    return "ERROR " + (p.stderr.strip().splitlines() or ["no output"])[-1][:200]


def _worker_draws(_):
    """what a forked worker draws from the library's own random sources (runs in the child)"""
    import hashlib
    from topsearch.data.coordinates import AtomicCoordinates, StandardCoordinates
    from topsearch.similarity.molecular_similarity import MolecularSimilarity
    from topsearch.transition_states.hybrid_eigenvector_following import HybridEigenvectorFollowing
    h = hashlib.sha256()
    pts = np.array([[0.0, 0.0, 0.0], [1.1, 0.0, 0.0], [1.1, 1.1, 0.0], [0.0, 1.1, 0.3], [0.4, 0.2, 1.1]])
    sim = MolecularSimilarity(0.1, 0.05, weighted=False)
    for _k in range(3):
        h.update(np.asarray(sim.random_rotation(pts.flatten().copy()), dtype=float).tobytes())
    c1 = AtomicCoordinates(['C'] * 5, pts.flatten().copy())
    other = (pts[[2, 0, 1, 4, 3]] @ np.array([[0.0, -1.0, 0.0], [1.0, 0.0, 0.0], [0.0, 0.0, 1.0]]) + 0.3).flatten()
    d, a, b, perm = sim.optimal_alignment(c1, other.copy())
    h.update(np.float64(d).tobytes()); h.update(np.asarray(b, dtype=float).tobytes()); h.update(np.asarray(perm, dtype=np.int64).tobytes())
    hef = HybridEigenvectorFollowing(None, 1e-4, 10, 0.1)
    h.update(np.asarray(hef.generate_random_vector(6), dtype=float).tobytes())
    sc = StandardCoordinates(ndim=3, bounds=[(-1.0, 1.0)] * 3)
    h.update(np.asarray(sc.generate_random_point(), dtype=float).tobytes())
    return h.hexdigest()


def forked_worker_predicate(ctx: Ctx) -> None:
    """"with the random generators seeded identically … bit-identical networks on every run" inside the workers of a
    parallel round: a forked worker inherits the generators' state, so with identical seeds in the parent every run
    of a worker draws the same rotations / start vectors / points.  Observed through the library's own sources of
    randomness reachable from `connection_attempt` (random restart rotations of the alignment, the start vector of
    the curvature search, random points)."""
    import multiprocessing
    import random
    for seed in (ctx.seed % 1000 + 1, ctx.seed % 1000 + 2):
        digests = []
        for _run in range(3):
            random.seed(seed)
            np.random.seed(seed)
            with multiprocessing.get_context("fork").Pool(processes=1) as pool:
                digests.append(pool.map(_worker_draws, [0, 1]))
        ctx.stats.case({"pred": "forked-worker-reproducible", "seed": seed, "digests": [d[0][:8] for d in digests]}, True)
        if len({tuple(d) for d in digests}) != 1:
            ctx.fail("worker-draws-not-reproducible", f"with random.seed({seed}) and np.random.seed({seed}) in the parent, three "
                     f"identically seeded parallel runs (pool of one worker) drew different random rotations / start "
                     f"vectors inside the worker: {[d[0][:12] for d in digests]}", {"forked": True, "seed": seed})
            return


def group_order_predicate(ctx: Ctx) -> None:
    from topsearch.data.coordinates import AtomicCoordinates
    from topsearch.similarity.molecular_similarity import MolecularSimilarity
    rng = ctx.rng
    for _ in range(ctx.scale(40, 300)):
        n = rng.randrange(4, 11)
        pts = np.array([[rng.uniform(-2, 2) for _ in range(3)] for _ in range(n)])
        other = np.array([[rng.uniform(-2, 2) for _ in range(3)] for _ in range(n)]).flatten()
        atoms = list(range(n)); rng.shuffle(atoms)
        cuts = sorted(rng.sample(range(1, n), rng.randrange(1, min(4, n - 1) + 1)))
        g1 = [sorted(atoms[a:b]) for a, b in zip([0] + cuts, cuts + [n])]
        # second structure: same group sizes, membership either identical or exchanged between groups
        if rng.random() < 0.6:
            atoms2 = list(range(n)); rng.shuffle(atoms2)
            g2 = [sorted(atoms2[a:b]) for a, b in zip([0] + cuts, cuts + [n])]
        else:
            g2 = [list(g) for g in g1]
        coords = AtomicCoordinates(['C'] * n, pts.flatten().copy())
        outs = []
        for order in (list(range(len(g1))), list(reversed(range(len(g1)))), rng.sample(range(len(g1)), len(g1))):
            sim = MolecularSimilarity(0.1, 0.05)
            sim.get_permutable_groups = lambda c1, c2, o=order: ([list(g1[i]) for i in o], [list(g2[i]) for i in o])
            pc, perm = sim.permutational_alignment(coords, other.copy())
            outs.append((pc.tobytes(), perm.tobytes()))
        ctx.stats.case({"pred": "group-order", "n": n, "groups1": g1, "groups2": g2}, g1 != g2)
        if len(set(outs)) != 1:
            ctx.fail("alignment-depends-on-group-order", f"permutational_alignment gives different results when the "
                     f"permutable groups {g1} / {g2} are processed in a different order (the order comes from iterating "
                     f"a set of strings, i.e. from PYTHONHASHSEED)", {"groups1": g1, "groups2": g2,
                                                                     "coords1": pts.flatten().tolist(), "coords2": other.tolist()})
            return


def predicates(ctx: Ctx) -> None:
    rng = ctx.rng
    deep = getattr(ctx, "deep_search", False)
    # (a) the merged network of a parallel round depends only on pairs and outcomes
    import random
    for _ in range(ctx.scale(4, 24) * (3 if deep else 1)):
        s = rng.randrange(1 << 30)
        results = []
        fail_all = _ % 4 == 3            # a batch in which no search finds anything is still a batch that was attempted
        for workers in rng.sample([1, 2, 3, 4, 6, 8, 12, 16], ctx.scale(3, 5)):
            r = random.Random(s)
            merged, order, toks, digest = round_case(ctx, r, workers, fail_all=fail_all)
            results.append((workers, order, digest, toks))
            # the records reach the merge in list order of their pairs, whatever order the workers finished in
            want_merged = [t for t in toks if t != "x"]
            if list(merged) != want_merged:
                ctx.fail("parallel-merge-not-in-list-order", f"parallel round with outcomes {toks} ({workers} workers, completion "
                         f"order {order}): the records were merged in the order {list(merged)}; list order is {want_merged}",
                         {"round_seed": s, "workers": [workers], "fail_all": fail_all, "merge_order": True})
                break
            # merging in list order records every pair of the batch in the attempt history, found something or not
            if LAST_ROUND["history"] != LAST_ROUND["pairs"]:
                ctx.fail("parallel-round-history", f"parallel round over the pairs {LAST_ROUND['pairs']} with outcomes {toks} "
                         f"({workers} workers): the attempt history afterwards is {LAST_ROUND['history']}; merging the "
                         f"outcomes in list order records every pair of the batch",
                         {"round_seed": s, "workers": [workers], "fail_all": fail_all, "history": True})
                break
        ctx.stats.case({"pred": "parallel-round", "outcomes": results[0][3],
                        "orders": [x[1] for x in results]}, len({tuple(x[1]) for x in results}) > 1)
        if len({x[2] for x in results}) != 1:
            ctx.fail("parallel-network-depends-on-schedule", f"the merged network differs between worker counts "
                     f"{[x[0] for x in results]} (completion orders {[x[1] for x in results]})",
                     {"round_seed": s, "workers": [x[0] for x in results]})
    # (a2) heavy tasks: the result must not depend on how fast tasks reach the workers
    ref = None
    for workers, schedule in [(1, "first-quick"), (2, "first-quick"), (4, "first-quick"), (16, "all-quick")] + \
            ([(3, "last-quick"), (2, "all-quick"), (8, "first-quick")] if (ctx.thorough or deep) else []):
        d = heavy_round(ctx, workers, schedule)
        ctx.stats.case({"pred": "heavy-round", "workers": workers, "schedule": schedule, "minima": d[0], "ts": d[1]}, True)
        want = (11, 7)
        if (d[0], d[1]) != want or (ref is not None and d != ref):
            ctx.fail("parallel-network-depends-on-task-dispatch", f"heavy round with {workers} workers, schedule "
                     f"{schedule}: {d[0]} minima / {d[1]} transition states, records merged {list(d[3])}; merging the "
                     f"outcomes in list order gives {want[0]} minima / {want[1]} transition states (the last pair [0, 9] "
                     f"must be searched although the first pair's result joins minima 0 and 9)",
                     {"heavy": True, "workers": workers, "schedule": schedule})
            break
        ref = ref or d
    # (a3) the order in which permutable groups are processed comes from iterating sets of strings, i.e. from
    # the hash seed: the assembled permutation and permuted copy must not depend on it — also when the two
    # structures distribute their atoms differently over the groups
    group_order_predicate(ctx)
    forked_worker_predicate(ctx)
    # (b) bit-identical networks whatever the interpreter's hash seed
    jobs = []
    kinds = [("standard", ctx.seed % 5 + 1), ("atomic", ctx.seed % 3 + 1), ("schwefel", ctx.seed % 7 + 1)]
    if ctx.thorough or deep:
        kinds += [("standard", 11), ("standard", 12), ("atomic", 7), ("schwefel", 11), ("schwefel", 12)]
    hashseeds = ["0", "1", "2", "random"] if not ctx.thorough else ["0", "1", "2", "77", "random", "random"]
    for kind, seed in kinds:
        for hs in hashseeds:
            jobs.append((kind, seed, hs))
    with ThreadPoolExecutor(max_workers=12) as ex:
        outs = list(ex.map(lambda j: run_pipe(*j), jobs))
    by = {}
    for (kind, seed, hs), o in zip(jobs, outs):
        by.setdefault((kind, seed), []).append((hs, o))
    for (kind, seed), runs in by.items():
        ctx.stats.case({"pred": "hash-seed", "pipeline": kind, "rng_seed": seed, "runs": runs}, True)
        ctx.stats.traces += len(runs)
        if any(o.startswith("ERROR") for _, o in runs):
            ctx.fail(f"pipeline-crashed:{kind}", f"{kind} pipeline (seed {seed}) crashed: {runs}",
                     {"pipeline": kind, "rng_seed": seed, "runs": runs})
        elif len({o for _, o in runs}) != 1:
            ctx.fail(f"network-depends-on-hash-seed:{kind}", f"{kind} pipeline with RNG seed {seed} gives different "
                     f"networks under different PYTHONHASHSEED: {runs}", {"pipeline": kind, "rng_seed": seed, "runs": runs})


def replay(ctx: Ctx, data: dict) -> bool:
    if "pipeline" in data:
        runs = [(hs, run_pipe(data["pipeline"], data["rng_seed"], hs)) for hs in ("0", "1", "2", "random")]
        print("  ", runs)
        return len({o for _, o in runs}) == 1 and not any(o.startswith("ERROR") for _, o in runs)
    if data.get("heavy"):
        d = heavy_round(ctx, data["workers"], data["schedule"])
        print("  ", d[:3])
        return (d[0], d[1]) == (11, 7)
    if data.get("forked"):
        r = forked_worker_predicate(ctx)
        return not ctx.failures
    if "round_seed" in data:
        import random
        ds = set()
        ok = True
        for w in data["workers"]:
            ds.add(round_case(ctx, random.Random(data["round_seed"]), w, fail_all=data.get("fail_all", False))[3])
            if LAST_ROUND["history"] != LAST_ROUND["pairs"]:
                print(f"  history {LAST_ROUND['history']} after the batch {LAST_ROUND['pairs']}")
                ok = False
            if data.get("merge_order") and list(LAST_ROUND.get("merged", [])) != LAST_ROUND.get("want_merged"):
                print(f"  records merged in the order {LAST_ROUND.get('merged')}, list order is {LAST_ROUND.get('want_merged')}")
                ok = False
        return len(ds) == 1 and ok
    predicates(ctx)
    return not ctx.failures
