"""C15 — the uphill direction is the softest mode, points uphill and stays in the box.

Tie #1: translate.hef reads the flip condition of check_eigenvector_direction (classified as
overlap rule / first-component rule / other) and the sign tests of project_onto_bounds from the
source into Gen/Hef.lean (bridge lemmas in Props/C15.lean).
Tie #2 (Drivers/Hef.lean): check_eigenvector_direction on dyadic (vector, gradient) pairs incl. zero
leading components (exact); project_onto_bounds and update_eigenvector_bounds on dyadic vectors x
all pinning patterns (decisions exact, normalisation to rounding); rayleigh_ritz_function_gradient
on dyadic quadratic surfaces against the model formula (1e-6 relative: the 1e-3 displacement
arithmetic); every get_smallest_eigenvector call of traced real searches against the model's
assembly (validity -> direction -> projection).
Predicates (from the statement, on the real code): the direction handed on is +-v with
non-negative overlap; get_smallest_eigenvector against dense numpy eigh of the known Hessian at
interior points (dimensions 2-6); unit norm and no outward component at boundary points.
"""
from __future__ import annotations

import itertools
import math
import random
import warnings

import numpy as np

from common import Ctx, frac
from props import c04 as H
from props.c04 import B, Batch, V, call, close, imports, make_coords, make_stub, patterns, vec_close, parse_vec
from translate import hef as hef_tr

PROP = "C15"
LEAN_MODULE = "TopSearch.Props.C15"
LEAN_FILES = ["TopSearch.Props.C15", "TopSearch.Lemmas.Hef", "TopSearch.Model.Hef"]
EXTRA_TARGETS = ["TopSearch.Model.Hef", "TopSearch.Gen.Hef"]
_P = "TopSearch.Props.C15."
REQUIRED = [_P + n for n in [
    "C15_bridge_flip", "C15_bridge_projection",
    "C15_uphill", "C15_uphill_gen", "C15_first_component_witness",
    "C15_projection", "C15_projection_gen", "C15_projection_overlap", "C15_projection_all_zeroed",
    "C15_eigbounds_no_outward",
    "C15_rayleigh", "C15_bridge_rayleigh", "C15_rayleigh_at_source_displacement",
]]
RULE = ("cases = one (vector, gradient) / (vector, pinning pattern) / (quadratic surface, point, vector) input or "
        "one traced get_smallest_eigenvector call, compared model-vs-implementation; non-trivial = answered by "
        "the model (not a guard); distinct = distinct canonical inputs")
ASSUMPTIONS = [
    "np.linalg.norm enters the model as a value with the contract 0 <= n and n*n = sum of squares",
    "L-BFGS-B finds the global minimiser of the Rayleigh quotient to its tolerance (checked against dense "
    "numpy eigh on every run, not proved)",
    "C15_rayleigh is exact for quadratic surfaces; on other smooth surfaces the central difference has the "
    "usual O(delta^2) truncation error (observed numerically)",
    "StandardCoordinates (remove_trans_rot = False)",
]
TRUSTED_EXTRA = ["numpy.linalg.eigh as the reference eigen-solver of the predicate"]
PARTIAL = ("that L-BFGS-B converges to the global minimiser of the Rayleigh quotient, and finite-difference "
           "accuracy on non-quadratic surfaces, are numerical; the projection theorem carries the explicit "
           "guard 'some component survives' (DESIGN §6 row 13)")

SMALL = H.SMALL
VALS = (0.0, 1.0, -1.0, 0.5, -0.5, 2.0, -2.0, 0.25)


def regenerate(ctx: Ctx) -> None:
    ctx.gen_status.update(hef_tr.regenerate())
    from translate import transcripts as _tr
    ctx.gen_status.update(_tr.constructor_wiring(['HybridEigenvectorFollowing']))


# ----------------------------------------------------------------------------- correspondence


def dyadic_vectors(rng, d: int, n: int):
    out = [[0.0] * (d - 1) + [1.0], [0.0] * d, [1.0] + [0.0] * (d - 1)]
    if d >= 2:
        out.append([0.0, -1.0] + [0.0] * (d - 2))
    while len(out) < n:
        v = [rng.choice(VALS) for _ in range(d)]
        if rng.random() < 0.4:
            v[0] = 0.0          # zero leading component on purpose
        out.append(v)
    return out


def corr_direction(ctx: Ctx) -> None:
    _, HEF, _ = imports()
    rng = ctx.rng
    b = Batch(ctx)
    for d in range(1, 7):
        for v in dyadic_vectors(rng, d, ctx.scale(25, 120)):
            for _ in range(2):
                g = [rng.choice(VALS) for _ in range(d)]
                if rng.random() < 0.25:     # exactly orthogonal / opposite on purpose
                    g = [-x for x in v] if rng.random() < 0.5 else [0.0] * d
                h = HEF(make_stub(g), H.TOL, 10, 1.0)
                arr = np.array(v)
                r, err = call(h.check_eigenvector_direction, arr, np.zeros(d))
                impl = f"raise:{err}" if err else "ok " + V(r)
                flipped = (not err) and np.any(np.array(v)) and np.array_equal(r, -np.array(v))
                b.add(f"dir {SMALL} {V(v)} {V(g)}", impl, "check_eigenvector_direction:" + ("flip" if flipped else "keep"),
                      {"d": d, "v": V(v), "g": V(g), "lead0": v[0] == 0.0})
    b.run("direction")


PYTH_VECS = [[3.0, 4.0], [3.0, -4.0, 0.0], [1.0, 2.0, 2.0], [-2.0, 3.0, 6.0], [1.0, 4.0, 8.0], [4.0, -4.0, 7.0],
             [1.0, 2.0, 2.0, 4.0], [0.5, 0.5, 0.5, 0.5], [2.0, 4.0, 5.0, 6.0], [1.0, 1.0, 1.0, 2.0, 3.0],
             [1.0, 1.0, 3.0, 3.0, 4.0, 0.0], [-0.75, 1.0]]


def exact_sqrt(x: float):
    from fractions import Fraction
    f = Fraction(x)
    n, dd = math.isqrt(f.numerator), math.isqrt(f.denominator)
    return n / dd if n * n == f.numerator and dd * dd == f.denominator else None


def corr_projection(ctx: Ctx) -> None:
    _, HEF, _ = imports()
    rng = ctx.rng
    b = Batch(ctx)
    h = HEF(make_stub([0.0]), H.TOL, 10, 1.0)
    for d in range(1, 7):
        pats = patterns(d, ctx, ctx.scale(81 if d <= 4 else 40, 3 ** d))
        for pat in pats:
            lo = [p == 1 for p in pat]
            up = [p == 2 for p in pat]
            vs = dyadic_vectors(rng, d, 3)[-1:] + [rng.choice([p for p in PYTH_VECS if len(p) == d] or [[1.0] * d])]
            # a vector pointing out through every active bound (everything pinned is zeroed)
            vs.append([-1.0 if p == 1 else 1.0 if p == 2 else rng.choice((0.0, 0.5)) for p in pat])
            for v in vs:
                v = [x * rng.choice((1.0, -1.0)) for x in v]
                arr = np.array(v)
                r, err = call(h.project_onto_bounds, arr, np.array(lo), np.array(up))
                w = arr.copy()           # zeroed in place by the code
                if err:
                    b.add(f"projz {V(v)} {B(lo)} {B(up)}", f"raise:{err}", "project_onto_bounds", {"d": d})
                    continue
                b.add(f"projz {V(v)} {B(lo)} {B(up)}", V(w), "project_onto_bounds:zeroing",
                      {"d": d, "pattern": "".join(map(str, pat)), "v": V(v)})
                ss = float(np.dot(w, w))
                s = exact_sqrt(ss)
                nrm = float(np.linalg.norm(w))
                eps = "0" if s is not None and s == nrm else "1/1000000000000"

                def cmp(impl, got):
                    if got == "nan":
                        return bool(np.all(np.isnan(impl)))
                    if not got.startswith("ok "):
                        return False
                    return vec_close(impl, got[3:], 1e-13, 0.0) and \
                        all((a == 0.0) == (q == 0) for a, q in zip(impl, parse_vec(got[3:])))
                b.add(f"proj {eps} {frac(nrm)} {V(v)} {B(lo)} {B(up)}", r, "project_onto_bounds",
                      {"d": d, "pattern": "".join(map(str, pat)), "v": V(v), "exact_norm": eps == "0"}, cmp)
            hh = HEF(make_stub([0.0] * d), H.TOL, 10, 1.0)
            hh.eigenvector_bounds = [(-math.inf, math.inf)] * d
            _, err = call(hh.update_eigenvector_bounds, np.array(lo), np.array(up))
            code = {(-math.inf, 0.0): "n", (0.0, math.inf): "p", (-math.inf, math.inf): "f"}
            impl = f"raise:{err}" if err else ",".join(code.get(tuple(t), "?") for t in hh.eigenvector_bounds)
            b.add(f"eigb {B(lo)} {B(up)}", impl, "update_eigenvector_bounds", {"d": d, "pattern": "".join(map(str, pat))})
    # both masks active in one coordinate (degenerate box): upper is tested first by the bounds update
    for lo, up in itertools.product(([True, False], [True, True]), repeat=2):
        hh = HEF(make_stub([0.0, 0.0]), H.TOL, 10, 1.0)
        hh.eigenvector_bounds = [(-math.inf, math.inf)] * 2
        hh.update_eigenvector_bounds(np.array(lo), np.array(up))
        code = {(-math.inf, 0.0): "n", (0.0, math.inf): "p", (-math.inf, math.inf): "f"}
        b.add(f"eigb {B(lo)} {B(up)}", ",".join(code[tuple(t)] for t in hh.eigenvector_bounds),
              "update_eigenvector_bounds", {"d": 2, "lo": B(lo), "up": B(up)})
        for v in ([1.0, -1.0], [-0.5, 2.0]):
            arr = np.array(v)
            call(h.project_onto_bounds, arr, np.array(lo), np.array(up))
            b.add(f"projz {V(v)} {B(lo)} {B(up)}", V(arr), "project_onto_bounds:zeroing", {"d": 2, "both": True})
    b.run("projection")


def quad_potential(A, bvec):
    _, _, Potential = imports()

    class Quad(Potential):
        def __init__(self):
            self.A, self.b, self.atomistic = np.array(A, dtype=float), np.array(bvec, dtype=float), False

        def function(self, x):
            return float(0.5 * x @ self.A @ x + self.b @ x)

        def gradient(self, x):
            return self.A @ x + self.b

        def hessian(self, x):
            return self.A.copy()
    return Quad()


def corr_rayleigh(ctx: Ctx) -> None:
    _, HEF, _ = imports()
    rng = ctx.rng
    b = Batch(ctx)
    for _ in range(ctx.scale(60, 400)):
        d = rng.randrange(1, 7)
        A = [[0.0] * d for _ in range(d)]
        for i in range(d):
            for j in range(i, d):
                A[i][j] = A[j][i] = rng.choice((0.0, 1.0, -1.0, 0.5, 2.0, -3.0, 0.25))
        bv = [rng.choice(VALS) for _ in range(d)]
        x = [rng.choice(VALS) for _ in range(d)]
        vec = [rng.choice(VALS) for _ in range(d)]
        if rng.random() < 0.15:
            vec = [0.0] * d
        pot = quad_potential(A, bv)
        h = HEF(pot, H.TOL, 10, 1.0)
        h.remove_trans_rot = False
        arr = np.array(vec)
        r, err = call(h.rayleigh_ritz_function_gradient, arr, *x)
        if err:
            ctx.diverge("rayleigh:raises", f"rayleigh_ritz_function_gradient raised {err}", {"A": A, "x": x, "vec": vec})
            continue
        if not np.any(np.array(vec)):
            # the code answers (0, zeros) for the zero vector; the model starts after the normalisation
            ctx.stats.case({"stream": "rayleigh", "zero-vector": True}, False)
            if not (r[0] == 0.0 and not np.any(r[1])):
                ctx.diverge("rayleigh:zero-vector", "zero vector not answered (0, zeros)", {"A": A})
            continue
        u = arr            # normalised in place by the code
        amat = "|".join(V(row) for row in A)
        scale = max(1.0, float(np.max(np.abs(np.array(A)))))

        def cmp(impl, got, scale=scale):
            if got in ("guard", "bad-op"):
                return False
            f, g = got.split(" ")
            from fractions import Fraction
            return close(impl[0], Fraction(f), 1e-6, 1e-6 * scale) and vec_close(impl[1], g, 1e-6, 1e-6 * scale)
        b.add(f"rayleigh {frac(1e-3)} {amat} {V(bv)} {V(x)} {V(u)}", (float(r[0]), list(r[1])),
              "rayleigh_ritz_function_gradient", {"d": d, "A": amat, "x": V(x), "vec": V(vec)}, cmp)
    b.run("rayleigh")


def corr_traced_gse(ctx: Ctx) -> None:
    rng = ctx.rng
    b = Batch(ctx)
    specs = H.surface_specs(ctx, ctx.scale(3, 20))
    n = 0
    for spec in specs:
        _, bounds = H.make_surface(spec)
        for _ in range(ctx.scale(2, 5)):
            x0 = H.start_point(rng, bounds, on_bound_prob=0.3)
            h, pot, c, t, ret = H.traced_search(spec, x0, rng.randrange(2 ** 31), 25)
            H.add_component_lines(b, t, h, c, limit=25)
            n += 1
    ctx.stats.traces += n
    b.run("traced")


def correspond(ctx: Ctx) -> None:
    np.random.seed(ctx.rng.randrange(2 ** 31))
    corr_direction(ctx)
    corr_projection(ctx)
    corr_rayleigh(ctx)
    corr_traced_gse(ctx)


# ----------------------------------------------------------------------------- predicates


def pred_direction(v, g):
    """the direction handed on is +-v and has non-negative overlap with the gradient"""
    _, HEF, _ = imports()
    d = len(v)
    h = HEF(make_stub(g), H.TOL, 10, 1.0)
    v0, g0 = np.array(v, dtype=float), np.array(g, dtype=float)
    # the same direction in three memory layouts: a fresh array, a column of a matrix (what np.linalg.eigh hands back) and
    # every second element of a longer array — a direction is a direction
    mat = np.zeros((d, 3))
    mat[:, 1] = v0
    long = np.zeros(2 * d)
    long[::2] = v0
    for layout, arr in (("contiguous", np.array(v, dtype=float)), ("matrix-column", mat[:, 1]), ("strided", long[::2])):
        r, err = call(h.check_eigenvector_direction, arr, np.zeros(d))
        if err:
            return ("check_eigenvector_direction:raises", f"raised {err} for v={v} ({layout}), g={g}")
        r = np.array(r)
        if not (np.array_equal(r, v0) or np.array_equal(r, -v0)):
            return ("check_eigenvector_direction:not-plus-minus-v", f"v={v} ({layout}), g={g}: returned {r.tolist()}")
        ov = float(np.dot(r, g0))
        if ov < -1e-12 * max(1.0, float(np.linalg.norm(v0) * np.linalg.norm(g0))):
            return ("check_eigenvector_direction:downhill",
                    f"v={v} (given as a {layout} array), g={g}: the direction handed on {r.tolist()} has overlap {ov} "
                    f"with the gradient")
    return None


def pred_direction_walk(points, vs):
    """one search object and one position array that is updated in place along a walk (surface x.x/2, whose
    gradient at x is x): at every point the direction handed on is +-v with non-negative overlap with the
    gradient AT THAT POINT"""
    _, HEF, Potential = imports()

    class Bowl(Potential):
        def __init__(self):
            self.atomistic = False

        def function(self, x):
            return 0.5 * float(np.dot(x, x))

        def gradient(self, x):
            return np.array(x, dtype=float).copy()
    h = HEF(Bowl(), H.TOL, 10, 1.0)
    buf = np.zeros(len(points[0]))
    for step, (x, v) in enumerate(zip(points, vs)):
        buf[:] = np.array(x, dtype=float)
        r, err = call(h.check_eigenvector_direction, np.array(v, dtype=float), buf)
        if err:
            return ("check_eigenvector_direction:raises", f"raised {err} at step {step} of a walk")
        r = np.array(r)
        v0, g0 = np.array(v, dtype=float), np.array(x, dtype=float)
        if not (np.array_equal(r, v0) or np.array_equal(r, -v0)):
            return ("check_eigenvector_direction:not-plus-minus-v", f"step {step} of a walk: v={v}: returned {r.tolist()}")
        ov = float(np.dot(r, g0))
        if ov < -1e-12 * max(1.0, float(np.linalg.norm(v0) * np.linalg.norm(g0))):
            return ("check_eigenvector_direction:downhill:position-updated-in-place",
                    f"step {step} of a walk whose position array is updated in place: at x={list(x)} (gradient {list(x)}) "
                    f"the direction handed on {r.tolist()} has overlap {ov} with the gradient")
    return None


RATIOS: list = []


def pred_eigen(spec: dict, x, np_seed: int, chain: dict | None = None):
    """get_smallest_eigenvector against dense eigh of the known Hessian (interior point), or unit
    norm / no outward component (boundary point)"""
    StandardCoordinates, HEF, _ = imports()
    pot, bounds = H.make_surface(spec)
    d = len(bounds)
    if chain is not None and chain.get("inplace") and chain.get("c") is not None:
        c = chain["c"]
        c.position[:] = np.array(x, dtype=float)        # the walker's array is updated in place, not replaced
    else:
        c = StandardCoordinates(ndim=d, bounds=bounds)
        c.position = np.array(x, dtype=float)
    if chain is not None:
        chain["c"] = c
    np.random.seed(np_seed)
    if chain is not None and chain.get("h") is not None:
        # the SAME search object as for the previous point of this surface, driven as `run` drives it:
        # bounds are reset once per search and then only updated; the previous direction is the start vector
        h = chain["h"]
        iv = chain["v"].copy() if chain.get("v") is not None and chain["warm"] else h.generate_random_vector(d)
    else:
        # the options of the search that have nothing to do with the curvature search are not left at their
        # defaults: step-length limits, push-off, number of steps (all drawn from the case's own seed)
        orng = random.Random(np_seed * 7919 + 13)
        opts = {}
        if orng.random() < 0.5:
            opts = {"max_uphill_step_size": orng.choice([0.05, 0.3, 5.0, 20.0, 50.0]),
                    "min_uphill_step_size": orng.choice([1e-7, 1e-5, 1e-3]),
                    "positive_eigenvalue_step": orng.choice([0.01, 0.1, 1.0]),
                    "steepest_descent_conv_crit": orng.choice([1e-6, 1e-4, 1e-2])}
        h = HEF(pot, orng.choice([1e-4, 1e-2, 1e-6]), orng.choice([10, 3, 200]), orng.choice([0.8, 0.05, 5.0]), **opts)
        h.remove_trans_rot = False
        iv = h.generate_random_vector(d)
        h.eigenvector_bounds = [(-math.inf, math.inf)] * d
    lo, up = c.active_bounds()                     # what `run` hands on
    h.update_eigenvector_bounds(lo, up)
    # how the curvature search's own minimisation ended (observed from outside): the accuracy bounds below hold for a
    # search that stopped on its gradient criterion, not for one cut short by the iteration limit or the line search
    import topsearch.transition_states.hybrid_eigenvector_following as _hefmod
    ended = {}
    _real_min = _hefmod.lbfgs.minimise

    def _spy(*a, **k):
        out = _real_min(*a, **k)
        ended["warn"], ended["task"] = out[2].get("warnflag"), str(out[2].get("task"))
        return out
    _hefmod.lbfgs.minimise = _spy
    try:
        ret, err = call(h.get_smallest_eigenvector, iv, c, lo, up)
    finally:
        _hefmod.lbfgs.minimise = _real_min
    on_criterion = ended.get("warn") == 0 and "NORM_OF_PROJECTED_GRADIENT" in ended.get("task", "")
    # where the point really is: direct comparison with the box, written here
    xa = np.array(x, dtype=float)
    lo = xa <= np.array([b[0] for b in bounds], dtype=float)
    up = xa >= np.array([b[1] for b in bounds], dtype=float)
    if chain is not None:
        chain["h"] = h
        chain["v"] = None if (err or ret[0] is None or np.any(np.isnan(ret[0]))) else np.array(ret[0], dtype=float)
    if err:
        return ("get_smallest_eigenvector:raises", f"raised {err} at {list(x)}"), None
    v, ev, nit = ret
    interior = not (np.any(lo) or np.any(up))
    if v is None:
        if h.failure is None:
            return ("get_smallest_eigenvector:refusal-without-reason", f"refused at {list(x)} without a reason"), None
        return None, "refused:" + str(h.failure)
    if np.any(np.isnan(v)):
        return ("get_smallest_eigenvector:nan-direction",
                f"at {list(x)} (lower {lo.tolist()}, upper {up.tolist()}) every component of the direction was "
                f"zeroed by project_onto_bounds and a NaN vector is handed on"), None
    if abs(float(np.linalg.norm(v)) - 1.0) > 1e-9:
        return ("get_smallest_eigenvector:not-unit", f"|v| = {float(np.linalg.norm(v))} at {list(x)}"), None
    g = pot.gradient(np.array(x, dtype=float))
    if interior:
        ov = float(np.dot(g, v))
        if ov < -1e-12 * max(1.0, float(np.linalg.norm(g))):
            return ("get_smallest_eigenvector:downhill", f"overlap with the gradient {ov} at {list(x)}"), None
        w, U = np.linalg.eigh(pot.hessian(np.array(x, dtype=float)))
        scale = max(1.0, float(np.max(np.abs(w))))
        if d >= 2 and w[1] - w[0] < 1e-2 * scale:
            return None, "near-tie"          # nearly degenerate lowest pair: direction ill-conditioned
        if abs(ev - w[0]) > 1e-3 * scale:
            return ("get_smallest_eigenvector:eigenvalue",
                    f"returned eigenvalue {ev}, lowest Hessian eigenvalue {w[0]} at {list(x)} (d={d})"), None
        if hasattr(pot, "a") and hasattr(pot, "w") and hasattr(pot, "p"):
            # "to finite-difference accuracy", derived for this surface: f = sum a_k cos(w_k.x + p_k); the central
            # difference of the gradient along a unit vector with the documented displacement 1e-3 is off by at most
            # sum a_k |w_k|^4 h^2 / 6; the Rayleigh quotient at the converged vector adds second-order terms only
            fd = float(np.sum(np.abs(pot.a) * np.sum(pot.w ** 2, axis=1) ** 2)) * (1e-3) ** 2 / 6.0
            # ... and the direction: the search stops when the gradient of the Rayleigh quotient, 2(Hv - lambda v), is below
            # the REQUESTED eigenvalue criterion (default 1e-5) in every component, so sin(angle to the softest mode) is at
            # most (sqrt(d) * crit / 2 + fd) / gap; a factor 4 of slack
            crit = 1e-5
            sin_a = math.sqrt(max(0.0, 1.0 - float(np.dot(v, U[:, 0])) ** 2))
            bound = 4.0 * (math.sqrt(d) * crit + fd) / float(w[1] - w[0]) if d >= 2 else None
            RATIOS.append(sin_a / bound if bound else 0.0)
            if bound is not None and sin_a > bound and on_criterion:
                return ("get_smallest_eigenvector:eigenvector-beyond-requested-accuracy",
                        f"returned direction makes an angle with the softest mode of sine {sin_a:.3e} at {list(x)} (d={d}, gap "
                        f"{float(w[1] - w[0]):.3g}); with the requested eigenvalue criterion {crit} and the finite-difference "
                        f"error {fd:.2e} it is at most {bound:.3e} (search options: steepest-descent criterion "
                        f"{getattr(h, 'steepest_descent_conv_crit', None)})"), None
            if on_criterion and abs(ev - w[0]) > 2.0 * fd + 2e-5 * scale:
                return ("get_smallest_eigenvector:eigenvalue-beyond-finite-difference-accuracy",
                        f"returned eigenvalue {ev!r}, lowest Hessian eigenvalue {w[0]!r} at {list(x)} (d={d}): off by "
                        f"{abs(ev - w[0]):.3e}, the finite-difference error of the displacement 1e-3 on this surface is "
                        f"at most {fd:.3e} (search options {getattr(h, 'max_uphill_step_size', None)}, "
                        f"{getattr(h, 'positive_eigenvalue_step', None)})"), None
        if abs(float(np.dot(v, U[:, 0]))) < 1.0 - 1e-3:
            return ("get_smallest_eigenvector:eigenvector",
                    f"returned direction has overlap {float(np.dot(v, U[:, 0]))} with the softest mode at {list(x)}"), None
        return None, "interior"
    out = [(lo[i] and v[i] < 0.0) or (up[i] and v[i] > 0.0) for i in range(d)]
    if any(out):
        return ("get_smallest_eigenvector:outward-component",
                f"direction {v.tolist()} points out of the box through an active bound at {list(x)}"), None
    return None, "boundary"


def pred_run_directions(seed: int) -> tuple[str, str] | None:
    """the curvature searches made INSIDE a real `run`: an index-one quadratic saddle whose stationary point lies just
    outside a wall, soft mode oblique to it, started a little inside — the walker reaches the wall during a subspace
    minimisation.  Every direction `get_smallest_eigenvector` returns is judged against the walker's position at the
    moment of the call (direct comparison with the box): on a face a unit vector with no outward component, in the
    interior the lowest eigenpair of the (constant) Hessian, pointing uphill."""
    import random
    StandardCoordinates, HEF, _ = imports()
    rng = random.Random(seed)
    d = rng.choice([2, 2, 3])
    q, _r = np.linalg.qr(np.array([[rng.gauss(0, 1) for _ in range(d)] for _ in range(d)]))
    eigs = [-rng.uniform(0.6, 1.5)] + [rng.uniform(0.8, 2.5) for _ in range(d - 1)]
    A = (q * np.array(eigs)) @ q.T
    A = (A + A.T) / 2
    wall = rng.randrange(d)
    cpt = np.array([rng.uniform(-0.5, 0.5) for _ in range(d)])
    cpt[wall] = -rng.uniform(0.02, 0.08)                    # stationary point just outside the wall x[wall] = 0
    pot = quad_potential(A, -A @ cpt)
    bounds = [(-2.0, 2.0)] * d
    bounds[wall] = (0.0, 2.0)
    c = StandardCoordinates(ndim=d, bounds=bounds)
    x0 = cpt + np.array([rng.uniform(-0.15, 0.15) for _ in range(d)])
    # started a little inside the wall — or ON it, as a candidate pinned at a bound is (the very first curvature
    # search of the run then already sits on a face)
    x0[wall] = rng.uniform(0.03, 0.09) if rng.random() < 0.55 else 0.0
    if rng.random() < 0.25 and d >= 2:
        other = (wall + 1) % d
        x0[other] = rng.choice([-2.0, 2.0])          # and sometimes on a second face, lower or upper
    c.position = np.clip(x0, [b[0] for b in bounds], [b[1] for b in bounds])
    h = HEF(pot, 1e-5, 40, 0.3, max_uphill_step_size=0.2, positive_eigenvalue_step=0.05)
    log = []
    real = h.get_smallest_eigenvector

    def spy(iv, coords, lo, up):
        at = np.array(coords.position, dtype=float).copy()
        out = real(iv, coords, lo, up)
        log.append((at, out))
        return out
    h.get_smallest_eigenvector = spy
    np.random.seed(seed % (2 ** 31))
    _, err = call(h.run, c)
    if err:
        return ("run:raises", f"run raised {err} (seed {seed})")
    # the sampler uses ONE search object for all candidates of a connection attempt: a second search on the same
    # object, started well inside the box after the first one ended on (or near) the wall, and sometimes a third one
    # from a face again.  Nothing the earlier search left behind may constrain these directions.
    second = random.Random(seed + 77)
    for again in range(second.choice([0, 1, 1, 2])):
        x1 = cpt + np.array([second.uniform(-0.2, 0.2) for _ in range(d)])
        x1[wall] = second.uniform(0.3, 0.8) if again == 0 else second.choice([0.0, second.uniform(0.2, 0.5)])
        c.position = np.clip(x1, [b[0] for b in bounds], [b[1] for b in bounds])
        _, err = call(h.run, c)
        if err:
            return ("run:raises", f"search {again + 2} on the same object raised {err} (seed {seed})")
    # a search that legitimately gives up ('steps' after two iterations) leaves its reason on the object; a curvature
    # search asked of that object afterwards (as `run` itself asks: active bounds, direction bounds, softest mode) still
    # answers for the point it is given
    if second.random() < 0.5:
        h2 = HEF(pot, 1e-9, 2, 0.3, max_uphill_step_size=0.05, positive_eigenvalue_step=0.05)
        x2 = cpt + np.array([second.uniform(-0.2, 0.2) for _ in range(d)])
        x2[wall] = second.uniform(0.4, 0.9)
        c.position = np.clip(x2, [b[0] for b in bounds], [b[1] for b in bounds])
        _, err = call(h2.run, c)
        if err:
            return ("run:raises", f"a two-step search raised {err} (seed {seed})")
        x3 = cpt + np.array([second.uniform(-0.2, 0.2) for _ in range(d)])
        x3[wall] = second.uniform(0.3, 0.8)
        c.position = np.clip(x3, [b[0] for b in bounds], [b[1] for b in bounds])
        lo3, up3 = c.active_bounds()
        h2.update_eigenvector_bounds(lo3, up3)
        at3 = np.array(c.position, dtype=float).copy()
        out3, err = call(h2.get_smallest_eigenvector, h2.generate_random_vector(d), c, lo3, up3)
        if err:
            return ("run:raises", f"a curvature search after a search that gave up raised {err} (seed {seed})")
        if out3[0] is None:
            return ("get_smallest_eigenvector:refused-after-failed-search",
                    f"a search that gave up with reason {h2.failure!r} was followed by a curvature search at the interior point "
                    f"{at3.tolist()} on the same object: no direction was returned (seed {seed}, d={d})")
        log.append((at3, out3))
    w, U = np.linalg.eigh(A)
    lob, upb = np.array([b[0] for b in bounds]), np.array([b[1] for b in bounds])
    for n_call, (at, (v, ev, _nit)) in enumerate(log):
        if v is None:
            continue
        v = np.array(v, dtype=float)
        lo, up = at <= lob, at >= upb
        where = f"curvature search {n_call + 1} of a run (seed {seed}, d={d}) at {at.tolist()}"
        if np.any(np.isnan(v)) or abs(float(np.linalg.norm(v)) - 1.0) > 1e-9:
            return ("get_smallest_eigenvector:not-unit:inside-run", f"{where}: |v| = {float(np.linalg.norm(v))}")
        if np.any(lo) or np.any(up):
            if any((lo[i] and v[i] < -1e-12) or (up[i] and v[i] > 1e-12) for i in range(d)):
                return ("get_smallest_eigenvector:outward-component:inside-run",
                        f"{where}: the walker sits on a face (lower {lo.tolist()}, upper {up.tolist()}) and the direction "
                        f"{v.tolist()} points out of the box through it")
        else:
            if abs(ev - w[0]) > 1e-3 * max(1.0, float(np.max(np.abs(w)))) or abs(float(v @ U[:, 0])) < 1.0 - 1e-3:
                return ("get_smallest_eigenvector:eigenvector:inside-run",
                        f"{where}: an interior point, but the direction has overlap {float(v @ U[:, 0]):.4f} with the softest "
                        f"mode and eigenvalue {ev} (lowest {w[0]})")
            g = pot.gradient(at)
            if float(g @ v) < -1e-9 * max(1.0, float(np.linalg.norm(g))):
                return ("get_smallest_eigenvector:downhill:inside-run", f"{where}: overlap with the gradient {float(g @ v)}")
    return None


def predicates(ctx: Ctx) -> None:
    rng = ctx.rng
    deep = 4 if getattr(ctx, "deep_search", False) else 1
    for _ in range(ctx.scale(25, 150) * deep):
        sd = rng.randrange(2 ** 31)
        r = pred_run_directions(sd)
        ctx.stats.case({"stream": "predicate-directions-inside-run", "seed": sd}, True)
        if r:
            ctx.fail(r[0], r[1], {"kind": "run", "seed": sd})
            break
    for v, g in [([0.0, 1.0, 0.0], [0.0, -1.0, 0.0]), ([0.0, 0.0, 1.0], [5.0, 0.0, -1.0]), ([1.0, 0.0], [-1.0, 0.0]),
                 ([0.0], [1.0]), ([1.0, 1.0], [1.0, -1.0])]:
        r = pred_direction(v, g)
        ctx.stats.case({"stream": "predicate-corpus", "v": V(v), "g": V(g)}, True)
        if r:
            ctx.fail(r[0], r[1], {"kind": "direction", "v": v, "g": g})
    for d in range(1, 7):
        for v in dyadic_vectors(rng, d, ctx.scale(30, 200) * deep):
            g = [rng.choice(VALS) for _ in range(d)] if rng.random() < 0.7 else [rng.uniform(-1, 1) for _ in range(d)]
            if rng.random() < 0.3:
                v = [rng.uniform(-1, 1) if x != 0.0 else 0.0 for x in v]
            r = pred_direction(v, g)
            ctx.stats.case({"stream": "predicate-direction", "d": d, "lead0": v[0] == 0.0}, True)
            if r:
                ctx.fail(r[0], r[1], {"kind": "direction", "v": v, "g": g})
    for _ in range(ctx.scale(10, 60) * deep):
        d = rng.randrange(1, 6)
        pts = [[rng.choice(VALS) if rng.random() < 0.6 else rng.uniform(-1, 1) for _ in range(d)] for _ in range(rng.randrange(2, 7))]
        vs = [[rng.choice(VALS) for _ in range(d)] for _ in pts]
        r = pred_direction_walk(pts, vs)
        ctx.stats.case({"stream": "predicate-direction-walk", "d": d, "len": len(pts)}, True)
        if r:
            ctx.fail(r[0], r[1], {"kind": "walk", "points": pts, "vs": vs})
            break
    # eigen-solver against dense eigh
    kinds: dict = {}
    specs = [{"kind": "camel"}] + [{"kind": "cos", "d": d, "seed": rng.randrange(10 ** 6)}
                                   for d in (2, 3, 4, 5, 6) for _ in range(ctx.scale(2, 10) * deep)]
    specs += [{"kind": "sep", "c": [0.5]}, {"kind": "sep", "c": [0.5, -0.25]}]
    for si, spec in enumerate(specs):
        _, bounds = H.make_surface(spec)
        # every other surface: one search object for the whole sequence of points (boundary and interior
        # points alternate), with or without warm start from the previous direction
        chain = {"h": None, "v": None, "warm": si % 4 == 1, "inplace": si % 8 in (1, 3)} if si % 2 == 1 else None
        for k in range(ctx.scale(4, 10)):
            x = H.start_point(rng, bounds, on_bound_prob=(0.0 if k % 2 == 0 else 0.5) if chain is None
                              else (0.9 if k % 2 == 0 else 0.0))
            if rng.random() < 0.25:
                # strictly inside the box, a hair's breadth from a wall (a minimiser stopping just short of it): an
                # interior point like any other
                j = rng.randrange(len(bounds))
                w = bounds[j][1] - bounds[j][0]
                delta = w * 10.0 ** rng.uniform(-7.0, -3.5)
                x = list(x)
                x[j] = bounds[j][1] - delta if rng.random() < 0.5 else bounds[j][0] + delta
            seed = rng.randrange(2 ** 31)
            r, kind = pred_eigen(spec, x, seed, chain)
            ctx.stats.case({"stream": "predicate-eigen", "surface": spec, "x": V(x)}, True)
            kinds[kind or "FAIL"] = kinds.get(kind or "FAIL", 0) + 1
            if kind == "near-tie":
                ctx.stats.near_ties += 1
            if r:
                key = r[0] + (":same-search-object" if chain is not None else "")
                ctx.fail(key, r[1] + (" (search object reused across points, as within one run)" if chain is not None else ""),
                         {"kind": "eigen", "surface": spec, "x": x, "np_seed": seed, "chained": chain is not None})
    # boxes that freeze a coordinate (lower == upper, which the bounded minimiser accepts): the frozen coordinate sits on
    # both of its bounds, so the direction handed on has no component along it at all
    for _ in range(ctx.scale(10, 60) * deep):
        d = rng.choice([3, 4, 5])
        bounds = [[-1.0, 1.0] for _k in range(d)]
        kf, vf = rng.randrange(d), rng.choice([-0.5, 0.0, 0.25, 1.0])
        bounds[kf] = [vf, vf]
        spec = {"kind": "sep", "c": [rng.choice([0.5, -0.25, 1.0, -1.0]) for _k in range(d - 2)], "bounds": bounds}
        x = [vf if i == kf else rng.choice([-1.0, 1.0, rng.uniform(-0.9, 0.9)]) for i in range(d)]
        seed = rng.randrange(2 ** 31)
        r, kind = pred_eigen(spec, x, seed)
        ctx.stats.case({"stream": "predicate-eigen-frozen", "d": d, "frozen": kf, "x": V(x)}, True)
        kinds["frozen:" + (kind or "FAIL")] = kinds.get("frozen:" + (kind or "FAIL"), 0) + 1
        if r:
            ctx.fail(r[0] + ":frozen-coordinate", r[1] + f" (box {bounds})", {"kind": "eigen", "surface": spec, "x": x, "np_seed": seed})
    # constant-Hessian surfaces, warm start: the direction found at x is already converged at -x (zero
    # L-BFGS iterations) although the gradient there is reversed — it must still be re-oriented uphill
    for spec in ({"kind": "sep", "c": [0.5]}, {"kind": "sep", "c": [0.5, -0.25]}, {"kind": "sep", "c": [1.0, 1.0, -1.0]}):
        _, bounds = H.make_surface(spec)
        chain = {"h": None, "v": None, "warm": True, "inplace": True}
        for k in range(ctx.scale(6, 16)):
            if k % 2 == 0:
                x = [rng.uniform(0.2, 0.8) * rng.choice((-1, 1)) for _ in bounds]
            else:
                x = [-t for t in x]
            seed = rng.randrange(2 ** 31)
            r, kind = pred_eigen(spec, x, seed, chain)
            ctx.stats.case({"stream": "predicate-eigen-warm", "surface": spec, "x": V(x)}, True)
            kinds[kind or "FAIL"] = kinds.get(kind or "FAIL", 0) + 1
            if r:
                ctx.fail(r[0] + ":warm-start", r[1] + " (warm start from the direction found at the mirrored point)",
                         {"kind": "eigen", "surface": spec, "x": x, "np_seed": seed, "chained": True})
    ctx.stats.notes["predicate_eigen"] = kinds
    # DESIGN §6 row 13: keep trying to reach the all-zeroed projection through the public path
    ctx.stats.notes["row13_nan_direction"] = probe_row13(ctx)


def probe_row13(ctx: Ctx) -> dict:
    """separable surfaces whose softest mode is exactly axis-aligned, boundary points, random
    starting vectors (the property's quantifier) and — recorded separately, never reported as a
    failure — an exactly axis-aligned starting vector"""
    rng = ctx.rng
    res = {"random_start_tries": 0, "random_start_nan": 0, "axis_aligned_start_nan": 0}
    # box [0.5,1] x [-1,1]: on the face x0 = 0.5 the gradient component -2*x0 points out of the box
    spec = {"kind": "sep", "c": [], "bounds": [[0.5, 1.0], [-1.0, 1.0]]}
    for _ in range(ctx.scale(20, 200)):
        x = [0.5, rng.uniform(-0.9, 0.9)]
        seed = rng.randrange(2 ** 31)
        res["random_start_tries"] += 1
        r, kind = pred_eigen(spec, x, seed)
        if r and r[0].endswith("nan-direction"):
            res["random_start_nan"] += 1
            ctx.fail(r[0], r[1], {"kind": "eigen", "surface": spec, "x": x, "np_seed": seed})
    # crafted start: lower face x0 = -1 has gradient +2 (uphill = inward), upper face x0 = 1 has
    # gradient -2; an exactly axis-aligned start that L-BFGS-B leaves untouched is flipped outward
    StandardCoordinates, HEF, _ = imports()
    pot, bounds = H.make_surface(spec)
    for x0, iv in (([0.5, 0.25], [1.0, 0.0]), ([0.5, -0.5], [1.0, 0.0]), ([0.5, 0.25], [0.0, 1.0])):
        c = StandardCoordinates(ndim=2, bounds=bounds)
        c.position = np.array(x0)
        h = HEF(pot, 1e-4, 10, 0.8)
        h.remove_trans_rot = False
        h.eigenvector_bounds = [(-math.inf, math.inf)] * 2
        lo, up = c.active_bounds()
        h.update_eigenvector_bounds(lo, up)
        ret, err = call(h.get_smallest_eigenvector, np.array(iv), c, lo, up)
        if not err and ret[0] is not None and np.any(np.isnan(ret[0])):
            res["axis_aligned_start_nan"] += 1
    return res


def replay(ctx: Ctx, data: dict) -> bool:
    kind = data.get("kind")
    if kind == "direction":
        r = pred_direction(data["v"], data["g"])
    elif kind == "run":
        r = pred_run_directions(data["seed"])
    elif kind == "walk":
        r = pred_direction_walk(data["points"], data["vs"])
    elif kind == "eigen":
        r, _ = pred_eigen(data["surface"], data["x"], data["np_seed"])
    else:
        print("  replay file names a broken obligation / divergence, not a failing input")
        return True
    if r:
        print(f"  {r[0]}: {r[1]}")
    return r is None
