"""C11 — structure alignment: invariant to rigid motion and relabelling, and rigid.

What the theorems carry (Props/C11.lean): the candidate-selection logic of optimal_alignment /
test_exact_same (returns one of the produced alignments; early exit iff some candidate is below the
criterion, otherwise the minimum), the group-by-group assembly of the permutation (a like-atom
bijection, independent of the group order), and the rigidity algebra.  The Kabsch and Hungarian
solvers and the random restarts are oracles: their contracts are validated per call, and that the
heuristic *finds* the zero-distance alignment is sampled (PARTIAL).
"""
from __future__ import annotations

import numpy as np

from common import Ctx, REPO, frac, run_driver
from translate import align as align_tr

PROP = "C11"
LEAN_MODULE = "TopSearch.Props.C11Ties"
LEAN_FILES = ["TopSearch.Props.C11", "TopSearch.Props.C11Ties", "TopSearch.Lemmas.Align", "TopSearch.Model.Align"]
EXTRA_TARGETS = ["TopSearch.Gen.Align", "TopSearch.Model.Align"]
P = "TopSearch.Props.C11."
REQUIRED = [P + n for n in [
    "C11_bridge_returns", "C11_scan_mem", "C11_scan_min", "C11_returns_candidate", "C11_match_iff",
    "C11_min_otherwise", "C11_perm_assembly", "C11_group_order_irrelevant", "C11_rigid_image",
    "C11_species_preserved",
    # tie-breaking left open (Props/C11Ties.lean)
    "C11_improve_admissible", "C11_optimalAlignmentG_strict", "C11_scanG_early", "C11_tie_returns_candidate",
    "C11_tie_match_iff", "C11_tie_min_otherwise", "C11_tie_distance_independent", "C11_tie_current_source", "C11_tie_exact_same"]]
RULE = ("cases = scripted candidate-distance sequences through the real optimal_alignment / "
        "test_exact_same (which candidate is returned, return types), permutation assemblies of the real "
        "permutational_alignment on random clusters and the test molecules, and rigid-copy alignments; "
        "non-trivial = at least two candidates / a group with two or more atoms / a non-identity motion; "
        "distinct = distinct canonical inputs")
ASSUMPTIONS = [
    "Kabsch (scipy Rotation.align_vectors): returns a proper rotation and the root-sum-square distance "
    "after rotation — validated on every call observed",
    "Hungarian (scipy linear_sum_assignment): returns a permutation of the columns — validated per call",
    "alignment domain: same species, same per-atom bonding environment, generic geometry",
]
PARTIAL = ("that the randomised heuristic finds the zero-distance alignment of every rigid, like-atom-permuted "
           "copy is sampled (distance <= 1e-5 on generic clusters), not proved")
TRUSTED_EXTRA = ["scipy Kabsch / Hungarian solvers as oracles (contracts validated per call)"]


def regenerate(ctx: Ctx) -> None:
    ctx.gen_status.update(align_tr.regenerate())
    from translate import transcripts as _tr
    ctx.gen_status.update(_tr.constructor_wiring(['MolecularSimilarity', 'NetworkSampling']))


# ----------------------------------------------------------------------------- helpers


def random_rotation(rng):
    a = np.array([[rng.gauss(0, 1) for _ in range(3)] for _ in range(3)])
    q, r = np.linalg.qr(a)
    q = q * np.sign(np.diag(r))
    if np.linalg.det(q) < 0:
        q[:, 0] *= -1
    return q


def cluster(rng, n, spread=1.6):
    while True:
        pts = np.array([[rng.uniform(-spread, spread) for _ in range(3)] for _ in range(n)])
        d = [np.linalg.norm(pts[i] - pts[j]) for i in range(n) for j in range(i + 1, n)]
        if min(d) > 0.6:
            return pts


def ball(rng, n, radius=3.0, sep=0.9):
    """densely packed points inside a ball (no symmetry): the hard case for assignment-based restarts"""
    pts = []
    while len(pts) < n:
        t = np.array([rng.uniform(-radius, radius) for _ in range(3)])
        if np.linalg.norm(t) > radius:
            continue
        if all(np.linalg.norm(t - p) > sep for p in pts):
            pts.append(t)
    return np.array(pts)


def make_sim(crit=0.1, weighted=False, inversion=False):
    from topsearch.similarity.molecular_similarity import MolecularSimilarity
    return MolecularSimilarity(crit, 0.05, weighted=weighted, allow_inversion=inversion)


def dq(rng):
    """dyadic distance around the criterion 1/8 (ties and exact hits on purpose)"""
    return rng.choice([1 / 8, 1 / 16, 3 / 16, 1 / 4, 1 / 4, 1 / 2, 1 / 2, 3 / 8, 1.0, 2.0, 1 / 32])


# ----------------------------------------------------------------------------- correspondence


def correspond(ctx: Ctx) -> None:
    skeleton_optimal(ctx)
    skeleton_exact(ctx)
    assembly(ctx)


def skeleton_optimal(ctx: Ctx) -> None:
    """the real optimal_alignment with test_exact_same / align / random_rotation scripted"""
    from topsearch.data.coordinates import AtomicCoordinates
    rng = ctx.rng
    restarts = ctx.gen_status.get("Align.cfg", {}).get("restarts", 150) if isinstance(ctx.gen_status.get("Align.cfg"), dict) else 150
    lines, expect = [], []
    for _ in range(ctx.scale(120, 800)):
        inversion = rng.random() < 0.5
        sim = make_sim(1 / 8, False, inversion)
        pts = cluster(rng, 4)
        coords = AtomicCoordinates(['C'] * 4, pts.flatten().copy())
        mode = rng.random()
        hi = mode < 0.45            # no candidate below the criterion: the minimum must be returned

        def draw():
            d = dq(rng)
            if hi and d < 1 / 8:
                d = 1 / 8 if rng.random() < 0.3 else 1 / 4
            elif not hi and rng.random() < 0.9 and d < 1 / 8:
                d = 1 / 4            # make early exits rare enough to happen late
            return d
        exact = [draw(), draw()]
        rand = [[draw() for _ in range(restarts)], [draw() for _ in range(restarts)]]
        calls = {"exact": 0, "align": 0}

        def tes(c1, c2, _s=sim):
            k = calls["exact"]; calls["exact"] += 1
            idx = 0 if k == 0 else 1 + restarts
            return exact[k], np.array([float(idx)]), np.array([idx])

        def al(c1, c2, _s=sim):
            k = calls["align"]; calls["align"] += 1
            phase, j = divmod(k, restarts)
            idx = 1 + j if phase == 0 else 2 + restarts + j
            return rand[phase][j], np.array([float(idx)]), np.array([idx])
        sim.test_exact_same = tes
        sim.align = al
        sim.random_rotation = lambda p: p
        out = sim.optimal_alignment(coords, pts.flatten()[::-1].copy())
        got = int(out[2][0])
        types_ok = isinstance(out[1], np.ndarray) and isinstance(out[2], np.ndarray)
        canon = {"crit": 1 / 8, "exact": exact[0], "randoms": rand[0][:6] + ["..."], "inversion": inversion,
                 "returned_index": got}
        if inversion:
            lines.append(f"opti 1/8 {frac(exact[0])} " + ",".join(frac(d) for d in rand[0]) + f" {frac(exact[1])} "
                         + ",".join(frac(d) for d in rand[1]))
        else:
            lines.append(f"opt 1/8 {frac(exact[0])} " + ",".join(frac(d) for d in rand[0]))
        expect.append((got, out[0], types_ok, canon, exact, rand, inversion))
    outl = run_driver("Align", lines)
    for (got, dist, types_ok, canon, exact, rand, inversion), m in zip(expect, outl):
        ctx.stats.case(canon, True)
        ctx.stats.branch("opt:early" if dist < 1 / 8 else "opt:minimum")
        if str(got) != m:
            ctx.diverge("optimal_alignment:candidate", f"optimal_alignment returned candidate {got}, the model "
                        f"chooses {m}", {**canon, "exact": exact, "randoms": rand, "inversion": inversion})
        if not types_ok:
            ctx.diverge("optimal_alignment:return-type", "optimal_alignment did not return plain arrays", canon)


def skeleton_exact(ctx: Ctx) -> None:
    """the real test_exact_same with `align` scripted: which alignment is returned"""
    from topsearch.data.coordinates import AtomicCoordinates
    rng = ctx.rng
    lines, expect = [], []
    for _ in range(ctx.scale(60, 400)):
        sim = make_sim(1 / 8)
        n = rng.randrange(3, 8)
        pts = cluster(rng, n)
        pts -= pts.mean(axis=0)
        if rng.random() < 0.5:          # several atoms at (almost) the same largest radius -> many pairs
            r = np.linalg.norm(pts, axis=1).max()
            for i in range(min(3, n)):
                pts[i] *= r / np.linalg.norm(pts[i])
        coords = AtomicCoordinates(['C'] * n, pts.flatten().copy())
        seq = []

        def al(c1, c2):
            d = dq(rng)
            if rng.random() < 0.7 and d < 1 / 8:
                d = 1 / 4
            seq.append(d)
            k = len(seq)
            return d, np.array([float(k)]), np.array([k])
        sim.align = al
        other = (pts[::-1] @ random_rotation(rng).T).flatten()
        # how many (furthest, perpendicular) pairings there are to try — from the class's own helpers
        expected = 0
        for i0, i1 in sim.generate_pairs(sim.get_furthest_from_centre(coords.position), sim.get_furthest_from_centre(other)):
            expected += len(sim.get_furthest_perpendicular(coords.position, i0)) * len(sim.get_furthest_perpendicular(other, i1))
        out = sim.test_exact_same(coords, other)
        got = int(out[2][0]) if out[1].size == 1 else 0
        if not any(d < 1 / 8 for d in seq) and len(seq) != expected:
            ctx.diverge("test_exact_same:candidates-not-all-tried", f"no alignment was below the criterion, yet only "
                        f"{len(seq)} of the {expected} (furthest, perpendicular) pairings were tried",
                        {"tried": len(seq), "expected": expected, "coords1": coords.position.tolist(), "coords2": other.tolist()})
        lines.append(f"tes 1/8 {frac(1e30)} " + (",".join(frac(d) for d in seq) if seq else "-"))
        expect.append((got, {"alignments": seq, "returned_index": got}))
    outl = run_driver("Align", lines)
    for (got, canon), m in zip(expect, outl):
        ctx.stats.case(canon, len(canon["alignments"]) >= 2)
        ctx.stats.branch(f"tes:{min(len(canon['alignments']), 5)}-candidates")
        if str(got) != m:
            ctx.diverge("test_exact_same:candidate", f"test_exact_same returned alignment {got}, model {m}", canon)


def molecules():
    """(labels, positions) of the molecules in the repository's test data"""
    import ase.io
    out = []
    for name in ("ethanol.xyz", "ethanol_scramble.xyz", "cyclopentane.xyz", "hexane.xyz", "benzene.xyz", "ethanol2.xyz"):
        p = REPO / "tests" / "test_data" / name
        if p.exists():
            a = ase.io.read(str(p))
            out.append((name, list(a.get_chemical_symbols()), a.get_positions()))
    return out


def assembly(ctx: Ctx) -> None:
    """the real permutational_alignment: groups and Hungarian answers recorded from outside, the
    assembled permutation compared with the model; permuted[a] == coords2[perm[a]] bit-for-bit"""
    from topsearch.data.coordinates import AtomicCoordinates, MolecularCoordinates
    import topsearch.similarity.molecular_similarity as ms
    rng = ctx.rng
    cases = []
    for _ in range(ctx.scale(40, 300)):
        n = rng.randrange(3, 14)
        labels = [rng.choice(["C", "C", "O"]) if rng.random() < 0.6 else "C" for _ in range(n)]
        if rng.random() < 0.5:
            labels = ["C"] * n
        cases.append(("cluster", labels, cluster(rng, n), False))
    for name, labels, pos in molecules():
        for _ in range(ctx.scale(2, 8)):
            cases.append((name, labels, pos, True))
    lines, expect = [], []
    real_lsa = ms.linear_sum_assignment
    for name, labels, pos, mol in cases:
        n = len(labels)
        sim = make_sim()
        try:
            coords = (MolecularCoordinates if mol else AtomicCoordinates)(labels, pos.flatten().copy())
        except Exception as e:
            ctx.stats.notes[f"assembly:{name}"] = f"skipped ({type(e).__name__})"
            continue
        # a like-atom permuted, rotated copy (for molecules keep the bonding environments: permute
        # only atoms the code itself regards as permutable)
        g1, _g2 = sim.get_permutable_groups(coords, pos.flatten().copy())
        perm0 = list(range(n))
        for g in g1:
            sh = list(g); rng.shuffle(sh)
            for a, b in zip(g, sh):
                perm0[a] = b
        other = (pos[perm0] @ random_rotation(rng).T).flatten()
        cols = []

        def lsa(m):
            r = real_lsa(m)
            ok = sorted(r[1].tolist()) == list(range(m.shape[1])) and r[0].tolist() == list(range(m.shape[0]))
            ctx.contract("Hungarian: returns a permutation", ok)
            cols.append(r[1].tolist())
            return r
        ms.linear_sum_assignment = lsa
        try:
            groups1, groups2 = sim.get_permutable_groups(coords, other.copy())
            cols.clear()
            permuted, perm = sim.permutational_alignment(coords, other.copy())
        finally:
            ms.linear_sum_assignment = real_lsa
        if groups1 != groups2:
            ctx.stats.near_ties += 1          # outside the alignment's domain (environments differ)
            continue
        it = iter(cols)
        cs = [next(it) if len(g) > 1 else [0] for g in groups1]
        fmt = lambda ll: ";".join(":".join(map(str, l)) if l else "_" for l in ll) if ll else "-"
        lines.append(f"asm {n} {fmt(groups1)} {fmt(cs)}")
        ok_coords = all(np.array_equal(permuted[3 * a:3 * a + 3], other[3 * perm[a]:3 * perm[a] + 3]) for a in range(n))
        expect.append((perm.tolist(), ok_coords, {"system": name, "n": n, "groups": groups1, "hungarian": cs}))
    outl = run_driver("Align", lines)
    for (perm, ok_coords, canon), m in zip(expect, outl):
        ctx.stats.case(canon, any(len(g) > 1 for g in canon["groups"]))
        ctx.stats.branch("asm:" + ("molecule" if canon["system"] != "cluster" else "cluster"))
        if ",".join(map(str, perm)) != m:
            ctx.diverge("permutational_alignment:assembly", f"permutation {perm} but the model assembles {m}", canon)
        if not ok_coords:
            ctx.diverge("permutational_alignment:coords", "permuted coordinates are not coords2[perm]", canon)


# ----------------------------------------------------------------------------- predicates


def generic(flat) -> bool:
    """no two inter-atomic distances closer than 0.02 (no near-symmetry)"""
    p = np.asarray(flat).reshape(-1, 3)
    d = sorted(np.linalg.norm(p[i] - p[j]) for i in range(len(p)) for j in range(i + 1, len(p)))
    return all(b - a > 0.02 for a, b in zip(d, d[1:]))


def check_alignment(ctx: Ctx, sim, coords, labels, other, tag, expect_zero: bool, weights=None) -> None:
    """the property's clauses for one call of optimal_alignment on the real code"""
    n = len(labels)
    other_in = other.copy()
    out = sim.optimal_alignment(coords, other)
    dist, c1, c2, perm = out
    rep = {"system": tag, "labels": labels, "coords1": coords.position.tolist(), "coords2": other_in.tolist(),
           "crit": float(sim.distance_criterion), "weighted": bool(getattr(sim, "weighted", False)),
           "inversion": bool(getattr(sim, "allow_inversion", False)), "expect_zero": bool(expect_zero)}
    if not (isinstance(c1, np.ndarray) and isinstance(c2, np.ndarray)):
        ctx.fail("returns-non-array", f"optimal_alignment returned {type(c1).__name__}/{type(c2).__name__} "
                 f"instead of plain coordinate arrays ({tag})", rep)
        return
    if not np.all(np.isfinite(c2)) or not np.isfinite(dist):
        ctx.fail("non-finite-alignment", f"non-finite alignment result ({tag})", rep)
        return
    if expect_zero and not dist < sim.distance_criterion:
        ctx.fail("rigid-copy-not-recognised", f"a rotated/translated/like-atom-permuted copy is reported at "
                 f"distance {dist}, not below the criterion {sim.distance_criterion} ({tag}, {n} atoms)", rep)
    # "numerically zero": the search stops at the FIRST alignment below the criterion, so with a loose
    # criterion a nearly symmetric structure may legitimately stop at another alignment; the clause is
    # therefore checked with a tight criterion, on geometries without near-degenerate distances
    if expect_zero and sim.distance_criterion <= 1e-3 and generic(other_in) and not dist < 1e-5:
        ctx.fail("rigid-copy-distance-not-zero", f"a rotated/translated/like-atom-permuted copy of a generic "
                 f"structure is reported at distance {dist} ({tag}, {n} atoms)", rep)
    # reported distance = distance between the returned arrays (weighted if so configured)
    d = (c1 - c2).reshape(-1, 3)
    if weights is not None:
        real = float(np.sqrt(np.sum(weights * np.sum(d * d, axis=1))))
    else:
        real = float(np.linalg.norm(d))
    # (the Kabsch solver reports sqrt of a difference of sums: ~1e-7 absolute noise at distance 0)
    if abs(real - dist) > 2e-6 + 1e-7 * real:
        ctx.fail("reported-distance-wrong", f"reported distance {dist} but the returned arrays are {real} apart "
                 f"({tag})", rep)
    # rigid, like-atom-permuted image: species preserved by the permutation, and the returned copy
    # has the inter-atomic distances of the input relabelled by the reported permutation
    perm = [int(p) for p in perm]
    if sorted(perm) != list(range(n)):
        ctx.fail("permutation-not-bijective", f"reported permutation {perm} is not a permutation ({tag})", rep)
        return
    if any(labels[perm[a]] != labels[a] for a in range(n)):
        ctx.fail("permutation-mixes-species", f"reported permutation {perm} maps atoms to other species ({tag})", rep)
    src = other_in.reshape(-1, 3)[perm]
    A, Bm = c2.reshape(-1, 3), src
    da = np.linalg.norm(A[:, None, :] - A[None, :, :], axis=2)
    db = np.linalg.norm(Bm[:, None, :] - Bm[None, :, :], axis=2)
    if np.max(np.abs(da - db)) > 1e-7 * max(1.0, float(np.max(db))):
        ctx.fail("aligned-copy-not-rigid", f"the returned copy is not a rigid image of the input ordered by the "
                 f"reported permutation (max distance error {np.max(np.abs(da - db)):.2e}, {tag})", rep)


def prepare_attempts(ctx: Ctx) -> None:
    """NetworkSampling.prepare_connection_attempt, the place the alignment is used from: for a pair (a, b) given in
    either order the first array is minimum a, the second a rigid like-atom-permuted image of minimum b, both
    plain arrays, and the permutation reproduces the returned ordering"""
    from topsearch.data.coordinates import AtomicCoordinates
    from topsearch.data.kinetic_transition_network import KineticTransitionNetwork
    from topsearch.sampling.exploration import NetworkSampling
    rng = ctx.rng

    def dmat(x):
        p = np.asarray(x, dtype=float).reshape(-1, 3)
        return np.linalg.norm(p[:, None, :] - p[None, :, :], axis=2)
    for _ in range(ctx.scale(4, 20)):
        n = rng.randrange(5, 9)
        labels = (lambda sp: [rng.choice(sp) for _ in range(n)])(two_species(rng))
        a, b = cluster(rng, n), cluster(rng, n)
        perm = list(range(n))
        for sp in set(labels):
            idx = [i for i in range(n) if labels[i] == sp]
            sh = idx[:]; rng.shuffle(sh)
            for u, v in zip(idx, sh):
                perm[u] = v
        a2 = a[perm] @ random_rotation(rng).T + np.array([rng.uniform(-2, 2) for _ in range(3)])
        # minimum 3 is stored with exactly the coordinates of minimum 0 (a duplicate kept apart by its energy)
        stored = [a.flatten(), b.flatten(), a2.flatten(), a.flatten().copy()]
        if not prepare_check(ctx, labels, stored, ([0, 1], [1, 0], [0, 2], [2, 0], [1, 2], [2, 1], [0, 3], [3, 0], [0, 1])):
            return


SPECIES_PAIRS = [("Au", "Ag"), ("Au", "Ag"), ("C", "O"), ("C", "Cl"), ("N", "Ni"), ("S", "Si"), ("B", "Br")]


def two_species(rng):
    """a pair of element symbols; in some of them one symbol is the beginning of the other (C / Cl, N / Ni, ...)"""
    return list(rng.choice(SPECIES_PAIRS))


def prepare_check(ctx: Ctx, labels, stored, pairs) -> bool:
    from topsearch.data.coordinates import AtomicCoordinates
    from topsearch.data.kinetic_transition_network import KineticTransitionNetwork
    from topsearch.sampling.exploration import NetworkSampling
    n = len(labels)
    stored = [np.asarray(x, dtype=float) for x in stored]

    def dmat(x):
        p = np.asarray(x, dtype=float).reshape(-1, 3)
        return np.linalg.norm(p[:, None, :] - p[None, :, :], axis=2)
    for out_level in (0, 1):               # the sampler's public output option must not change what is handed on
        ktn = KineticTransitionNetwork()
        for i, x in enumerate(stored):
            ktn.add_minimum(x.copy(), -10.0 + i)
        coords = AtomicCoordinates(labels, stored[0].copy())
        ns = NetworkSampling(ktn, coords, None, None, None, make_sim(0.1), output_level=out_level)
        for pair in pairs:
            m1, m2, repeats, pm = ns.prepare_connection_attempt(coords, list(pair))
            rep = {"prepare": True, "labels": labels, "stored": [x.tolist() for x in stored], "pair": pair}
            ctx.stats.case({"pred": "prepare_connection_attempt", "n": n, "descending": pair[0] > pair[1]}, True)
            if not (isinstance(m1, np.ndarray) and isinstance(m2, np.ndarray)):
                ctx.fail("prepare:returns-non-array", f"prepare_connection_attempt({pair}) returned "
                         f"{type(m1).__name__}/{type(m2).__name__}", rep)
                return False
            pm = [int(q) for q in pm]
            tol = 1e-7 * max(1.0, float(np.max(dmat(stored[pair[0]]))))
            if np.max(np.abs(dmat(m1) - dmat(stored[pair[0]]))) > tol:
                ctx.fail("prepare:first-array-is-not-first-minimum", f"prepare_connection_attempt({pair}): the first "
                         f"array returned is not minimum {pair[0]}", rep)
                return False
            # the two arrays are returned ALIGNED, i.e. in one frame: no translation can bring them closer (their centroids
            # coincide, the similarity is unweighted here), and a rigid like-atom-permuted copy comes back on top of the
            # reference
            c1 = np.asarray(m1, dtype=float).reshape(-1, 3).mean(axis=0)
            c2 = np.asarray(m2, dtype=float).reshape(-1, 3).mean(axis=0)
            if float(np.max(np.abs(c1 - c2))) > 1e-6:
                ctx.fail("prepare:arrays-in-different-frames", f"prepare_connection_attempt({pair}): the two arrays are returned "
                         f"in different frames — their centroids differ by {np.round(c1 - c2, 6).tolist()}, so a pure translation "
                         "would bring them closer", rep)
                return False
            if set(pair) == {0, 2} and float(np.linalg.norm(np.asarray(m1, dtype=float) - np.asarray(m2, dtype=float))) > 1e-4:
                ctx.fail("prepare:copy-not-on-top-of-reference", f"prepare_connection_attempt({pair}): minimum 2 is a rotated, "
                         f"translated, relabelled copy of minimum 0 but comes back "
                         f"{float(np.linalg.norm(np.asarray(m1) - np.asarray(m2))):.3g} away from it", rep)
                return False
            if sorted(pm) != list(range(n)) or any(labels[pm[i]] != labels[i] for i in range(n)) or \
                    np.max(np.abs(dmat(m2) - dmat(stored[pair[1]].reshape(-1, 3)[pm]))) > tol:
                ctx.fail("prepare:second-array-is-not-image-of-second-minimum", f"prepare_connection_attempt({pair}): "
                         f"the second array is not a rigid like-atom-permuted image of minimum {pair[1]} under the "
                         f"reported permutation {pm}", rep)
                return False
            # the caller builds its band from the two arrays and is free to change them: the network keeps its own
            m1 += 7.5
            m2 -= 3.25
            for q, x in enumerate(stored):
                if not np.array_equal(np.asarray(ktn.get_minimum_coords(q), dtype=float), x):
                    ctx.fail("prepare:returned-array-is-the-stored-one", f"prepare_connection_attempt({pair}): changing the arrays "
                             f"it returned changed the stored coordinates of minimum {q}", rep)
                    return False
    return True


def refused_comparison(ctx: Ctx) -> None:
    """a comparison the library refuses (two isomers: same atoms, different bonding — ethanol against dimethyl ether —
    there is no like-atom matching of bonding environments) may raise, but the caller's coordinates object must come
    back holding ITS structure (rigidly: the alignment centres it), and go on working: it still matches its own rotated,
    translated, relabelled copy"""
    from scipy.spatial.transform import Rotation
    from topsearch.data.coordinates import MolecularCoordinates
    from props.c07 import ETHANOL
    labels, eth = list(ETHANOL[0]), np.array(ETHANOL[1])
    c1, c2, o = np.array([-1.18, -0.2, 0.0]), np.array([1.18, -0.2, 0.0]), np.array([0.0, 0.47, 0.0])
    hs = []
    for c in (c1, c2):
        u = (c - o) / np.linalg.norm(c - o)
        e1 = np.cross(u, [0.0, 0.0, 1.0]); e1 /= np.linalg.norm(e1)
        e2 = np.cross(u, e1)
        for phi in (0.0, 2.0944, 4.1888):
            hs.append(c + 1.09 * (0.3338 * u + 0.9426 * (np.cos(phi) * e1 + np.sin(phi) * e2)))
    ether = np.array([c1, c2, o] + hs)

    def dmat(x):
        p = np.asarray(x, dtype=float).reshape(-1, 3)
        return np.linalg.norm(p[:, None, :] - p[None, :, :], axis=2)
    try:
        coords = MolecularCoordinates(labels, eth.flatten().copy())
    except Exception as e:  # noqa: BLE001 - ase / rdkit missing would be infrastructure
        ctx.stats.notes["refused-comparison"] = f"skipped ({type(e).__name__})"
        return
    d0 = dmat(coords.position)
    rep = {"refused_comparison": True}
    for call_name in ("optimal_alignment", "test_same"):
        sim = make_sim(0.1)
        refused = None
        try:
            if call_name == "optimal_alignment":
                sim.optimal_alignment(coords, ether.flatten().copy())
            else:
                sim.test_same(coords, ether.flatten().copy(), -1.0, -1.0)
        except Exception as e:  # noqa: BLE001
            refused = type(e).__name__
        ctx.stats.case({"pred": "refused-comparison", "call": call_name, "refused": refused}, True)
        if np.asarray(coords.position).shape != (27,) or float(np.max(np.abs(dmat(coords.position) - d0))) > 1e-9:
            ctx.fail("comparison-leaves-other-structure-in-caller", f"{call_name}(ethanol, dimethyl ether) "
                     f"{'raised ' + refused if refused else 'returned'}, and the ethanol coordinates object now holds another "
                     f"structure (inter-atomic distances changed by "
                     f"{float(np.max(np.abs(dmat(coords.position) - d0))) if np.asarray(coords.position).shape == (27,) else 'shape'})", rep)
            return
        rot = Rotation.from_euler("xyz", [0.4, -1.1, 2.0])
        perm = [0, 1, 2, 4, 3, 6, 5, 7, 8]                        # exchanges within the two pairs of like hydrogens
        copy = (rot.apply(np.asarray(coords.position).reshape(-1, 3)[perm]) + np.array([0.7, -0.3, 1.9])).flatten()
        try:
            dist = float(make_sim(0.1).optimal_alignment(coords, copy)[0])
        except Exception as e:  # noqa: BLE001
            ctx.fail("comparison-leaves-other-structure-in-caller", f"after a refused {call_name} the same ethanol object can no "
                     f"longer be aligned with its own rigid copy: {type(e).__name__}: {e}", rep)
            return
        if dist > 1e-3:
            ctx.fail("comparison-leaves-other-structure-in-caller", f"after a refused {call_name} the ethanol object is {dist:.3g} "
                     "away from its own rotated, translated, relabelled copy", rep)
            return


def predicates(ctx: Ctx) -> None:
    refused_comparison(ctx)
    from topsearch.data.coordinates import AtomicCoordinates, MolecularCoordinates
    import topsearch.similarity.molecular_similarity as ms
    from scipy.spatial.transform import Rotation
    rng = ctx.rng
    deep = 3 if getattr(ctx, "deep_search", False) else 1
    np.random.seed(ctx.seed + 11)
    # Kabsch contract, validated on every call made during the predicates
    real_av = Rotation.align_vectors

    def av(a, b, weights=None, return_sensitivity=False):
        r = real_av(a, b, weights=weights) if weights is not None else real_av(a, b)
        rot, rssd = r[0], r[1]
        m = rot.as_matrix()
        ok = abs(np.linalg.det(m) - 1) < 1e-9 and np.allclose(m @ m.T, np.eye(3), atol=1e-9)
        w = np.ones(len(a)) if weights is None else np.asarray(weights, float)
        real = float(np.sqrt(np.sum(w * np.sum((np.asarray(a) - rot.apply(b)) ** 2, axis=1))))
        ok = ok and abs(real - rssd) <= 2e-6 + 1e-7 * real
        ctx.contract("Kabsch: proper rotation, rssd = distance after rotation", ok)
        return r
    real_rotations = ms.rotations

    class Shim:                     # the Rotation class itself is immutable: swap the module's name for it
        align_vectors = staticmethod(av)
        random = staticmethod(Rotation.random)
    ms.rotations = Shim
    try:
        # corpus: the 7-atom rotated+permuted copy whose early exit used to return the object
        crng = np.random.default_rng(5)
        pos = crng.uniform(-2, 2, size=(7, 3))
        c = AtomicCoordinates(['C'] * 7, pos.flatten().copy())
        other = (Rotation.random(random_state=2).apply(pos[crng.permutation(7)]) + 0.3).flatten()
        ctx.stats.case({"pred": "corpus:7-atom-rigid-copy"}, True)
        check_alignment(ctx, make_sim(0.1), c, ['C'] * 7, other, "corpus-7", True)
        for _ in range(ctx.scale(14, 90) * deep):
            n = rng.randrange(3, 14)
            two = rng.random() < 0.5
            labels = (lambda sp: [rng.choice(sp) for _ in range(n)])(two_species(rng)) if two else ["C"] * n
            if rng.random() < 0.5:
                # species symbols as they come out of a file / json / a numpy string array: equal strings, but every
                # atom carries a string object of its own
                labels = [str(l.encode("ascii"), "ascii") for l in labels]
            pts = cluster(rng, n)
            weighted, inversion = rng.random() < 0.3, rng.random() < 0.3
            sim = make_sim(rng.choice([0.1, 1e-4]), weighted, inversion)
            coords = AtomicCoordinates(labels, pts.flatten().copy())
            same = rng.random() < 0.7
            if same:
                perm = list(range(n))
                for sp in set(labels):
                    idx = [i for i in range(n) if labels[i] == sp]
                    sh = idx[:]; rng.shuffle(sh)
                    for a, b in zip(idx, sh):
                        perm[a] = b
                q = random_rotation(rng)
                sign = -1.0 if (inversion and rng.random() < 0.5) else 1.0
                other = (sign * pts[perm] @ q.T + np.array([rng.uniform(-2, 2) for _ in range(3)])).flatten()
            else:
                other = cluster(rng, n).flatten()
            ctx.stats.case({"pred": "cluster", "n": n, "two_species": two, "weighted": weighted,
                            "inversion": inversion, "rigid_copy": same}, True)
            w = coords.atom_weights.astype(float) if weighted else None
            check_alignment(ctx, sim, coords, labels, other, f"cluster-{n}", same, w)
        # genuinely different structures with inversion allowed: the best alignment then often comes from a
        # restart of the INVERTED structure, and distance / copy / permutation must still belong together
        for _ in range(ctx.scale(10, 40) * deep):
            n = rng.randrange(6, 11)
            labels = (lambda sp: [rng.choice(sp) for _ in range(n)])(two_species(rng))
            sim = make_sim(0.1, False, True)
            ctx.stats.case({"pred": "different-structures-inversion", "n": n}, True)
            check_alignment(ctx, sim, AtomicCoordinates(labels, cluster(rng, n).flatten().copy()), labels,
                            cluster(rng, n).flatten(), f"different-{n}", False)
        # mirror images in weighted mode: two species in a non-centrosymmetric arrangement (centre of mass differs
        # from the centroid), inversion allowed, and a copy that matches only after inversion
        for _ in range(ctx.scale(8, 40) * deep):
            n = rng.randrange(5, 12)
            labels = (lambda sp: [rng.choice(sp) for _ in range(n)])(two_species(rng))
            if len(set(labels)) < 2:
                labels[0], labels[1] = ("Au", "Ag") if labels[0] in ("Au", "Ag") else two_species(rng)
                labels = [labels[0] if l == labels[0] else labels[1] for l in labels]
            pts = cluster(rng, n)
            perm = list(range(n))
            for sp in set(labels):
                idx = [i for i in range(n) if labels[i] == sp]
                sh = idx[:]; rng.shuffle(sh)
                for a, b in zip(idx, sh):
                    perm[a] = b
            other = (-pts[perm] @ random_rotation(rng).T + np.array([rng.uniform(-2, 2) for _ in range(3)])).flatten()
            for weighted in (True, False):
                sim = make_sim(0.1, weighted, True)
                coords = AtomicCoordinates(labels, pts.flatten().copy())
                ctx.stats.case({"pred": "mirror-image", "n": n, "weighted": weighted}, True)
                check_alignment(ctx, sim, coords, labels, other.copy(), f"mirror-{n}-{'weighted' if weighted else 'plain'}",
                                True, coords.atom_weights.astype(float) if weighted else None)
        # larger generic clusters: here the 150 random restarts cannot rescue a broken identity test, so
        # the deterministic path (furthest atoms + Kabsch + Hungarian) must itself recognise the copy
        for _ in range(ctx.scale(60, 300) * deep):
            n = rng.choice([18, 24, 30])
            labels = (lambda sp: [rng.choice(sp) for _ in range(n)])(two_species(rng)) if rng.random() < 0.5 else (["C", "C", "O"] * 10)[:n]
            if rng.random() < 0.5:
                labels = [str(l.encode("ascii"), "ascii") for l in labels]
            pts = ball(rng, n) if rng.random() < 0.8 else cluster(rng, n, spread=3.0)
            perm = list(range(n))
            for sp in set(labels):
                idx = [i for i in range(n) if labels[i] == sp]
                sh = idx[:]; rng.shuffle(sh)
                for a, b in zip(idx, sh):
                    perm[a] = b
            other = (pts[perm] @ random_rotation(rng).T + np.array([rng.uniform(-2, 2) for _ in range(3)])).flatten()
            sim = make_sim(rng.choice([0.1, 1e-4]))
            ctx.stats.case({"pred": "large-cluster", "n": n}, True)
            check_alignment(ctx, sim, AtomicCoordinates(labels, pts.flatten().copy()), labels, other,
                            f"cluster-{n}", True)
        # several atoms (not symmetry-equivalent) within the 0.05 "furthest from the centre" window: every
        # pairing of them has to be tried by the identity test
        p13 = REPO / "tests" / "test_data" / "lj13.xyz"
        ico = np.genfromtxt(str(p13)).reshape(-1, 3) if p13.exists() else None
        for _ in range(ctx.scale(40, 200) * deep):
            if ico is not None and rng.random() < 0.5:
                pts = ico + np.array([[rng.uniform(-0.02, 0.02) for _ in range(3)] for _ in range(13)])
            else:
                pts = []
                while len(pts) < 13:
                    v = np.array([rng.gauss(0, 1) for _ in range(3)])
                    v = v / np.linalg.norm(v) * (2.0 + rng.uniform(-0.02, 0.02))
                    if all(np.linalg.norm(v - q) > 0.9 for q in pts):
                        pts.append(v)
                pts = np.array(pts)
            perm = list(range(13)); rng.shuffle(perm)
            other = (pts[perm] @ random_rotation(rng).T + np.array([rng.uniform(-2, 2) for _ in range(3)])).flatten()
            ctx.stats.case({"pred": "near-spherical-shell"}, True)
            check_alignment(ctx, make_sim(0.1), AtomicCoordinates(['C'] * 13, pts.flatten().copy()), ['C'] * 13,
                            other, "shell-13", True)
        # LJ13 icosahedron and the molecules of the test data
        import ase.io
        p13 = REPO / "tests" / "test_data" / "lj13.xyz"
        if p13.exists():
            pos = np.genfromtxt(str(p13)).reshape(-1, 3)
            for _ in range(ctx.scale(2, 10)):
                perm = list(range(13)); rng.shuffle(perm)
                other = (pos[perm] @ random_rotation(rng).T + 0.7).flatten()
                ctx.stats.case({"pred": "lj13"}, True)
                check_alignment(ctx, make_sim(0.1), AtomicCoordinates(['C'] * 13, pos.flatten().copy()),
                                ['C'] * 13, other, "lj13", True)
        # every molecule with a similarity object of its own, then all of them through ONE object (a run keeps a
        # single similarity object for every pair it aligns; ethanol and ethanol_scramble list the same species
        # in the same order with the bonding at different atoms)
        shared = make_sim(0.1)
        for use_shared in (False, True):
            for name, labels, pos in molecules():
                for _ in range(ctx.scale(1, 5)):
                    try:
                        coords = MolecularCoordinates(labels, pos.flatten().copy())
                    except Exception as e:
                        ctx.stats.notes[f"molecule:{name}"] = f"skipped ({type(e).__name__})"
                        break
                    sim = shared if use_shared else make_sim(0.1)
                    judge = make_sim(0.1)              # the domain guard never goes through the object under test
                    g1, _ = judge.get_permutable_groups(coords, pos.flatten().copy())
                    perm = list(range(len(labels)))
                    for g in g1:
                        sh = list(g); rng.shuffle(sh)
                        for a, b in zip(g, sh):
                            perm[a] = b
                    other = (pos[perm] @ random_rotation(rng).T + 1.3).flatten()
                    coords.position = pos.flatten().copy()
                    g1b, g2b = judge.get_permutable_groups(coords, other.copy())
                    if g1b != g2b:
                        ctx.stats.near_ties += 1       # permuted copy changes an environment: outside the domain
                        continue
                    ctx.stats.case({"pred": "molecule", "name": name, "shared_object": use_shared}, True)
                    # permuting atoms the code regards as equivalent may still not be a symmetry of the
                    # molecule as a whole (e.g. hydrogens on different carbons): only the structural clauses apply
                    check_alignment(ctx, sim, coords, labels, other, name + (":shared-object" if use_shared else ""), False)
        prepare_attempts(ctx)
    finally:
        ms.rotations = real_rotations


def replay(ctx: Ctx, data: dict) -> bool:
    from topsearch.data.coordinates import AtomicCoordinates
    labels = data.get("labels")
    if data.get("refused_comparison"):
        refused_comparison(ctx)
    elif data.get("prepare"):
        prepare_check(ctx, labels, data["stored"], [data["pair"]])
    elif not labels or ":shared-object" in str(data.get("system", "")):
        predicates(ctx)
    else:
        labels = [str(l.encode("ascii"), "ascii") for l in labels]      # as from a file: one string object per atom
        coords = AtomicCoordinates(labels, np.array(data["coords1"], float))
        sim = make_sim(data.get("crit", 0.1), data.get("weighted", False), data.get("inversion", False))
        w = coords.atom_weights.astype(float) if data.get("weighted") else None
        check_alignment(ctx, sim, coords, labels, np.array(data["coords2"], float), "replay",
                        bool(data.get("expect_zero", data.get("key") == "rigid-copy-not-recognised")), w)
    for f in ctx.failures:
        print(f"  {f.key}: {f.what}")
    return not ctx.failures
