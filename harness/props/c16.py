"""C16 — surfaces: coded derivatives are exact; energies have the right symmetries.

Tie #1 (primary): translate.surfaces symbolically executes the current source of Camelback,
LennardJones (2–4 atoms), BinaryGupta (Au–Ag–Au), Quadratic + the inherited finite-difference
routines, and reads the classifier thresholds; Props/C16.lean proves the derivative identities
(HasDerivAt via reflective differentiation), the finite-difference identities, the symmetries and the
classifier characterisations *about those generated expressions*.
Tie #2: the generated expressions are evaluated by the Lean driver at exact rationals and compared
with the real functions on the same points (this validates the translator itself), and the direct
predicates check every clause numerically on the real code for the surfaces the symbolic route does
not reach (arbitrary atom counts, Schwefel, MMFF94 through RDKit).
"""
from __future__ import annotations

import math
from fractions import Fraction

import numpy as np

from common import Ctx, REPO, frac, run_driver
from translate import surfaces

PROP = "C16"
LEAN_MODULE = "TopSearch.Props.C16General"
LEAN_FILES = ["TopSearch.Props.C16", "TopSearch.Props.C16General", "TopSearch.Model.LjN", "TopSearch.Lemmas.Deriv", "TopSearch.Model.Surfaces", "TopSearch.Py.Expr"]
EXTRA_TARGETS = ["TopSearch.Gen.Surfaces", "TopSearch.Model.LjN"]
P = "TopSearch.Props.C16."
REQUIRED = [P + n for n in [
    "C16_camel_grad", "C16_camel_hess", "C16_camel_hess_symm",
    "C16_lj_grad_2", "C16_lj_grad_3", "C16_lj_grad_4", "C16_fg_agree",
    "C16_ljN_pairs", "C16_ljN_energy_sum", "C16_lj_grad_N", "C16_lj_grad_N_local", "C16_lj_grad_N_sq", "C16_lj_fg_N",
    "C16_ljN_matches_unrolled", "C16_ljN_matches_unrolled_env", "C16_ljN_translation",
    "C16_fd_exact_quadratic", "C16_fd_is_central_difference", "C16_fd_cubic_error",
    "C16_fd_camel_is_central_difference", "C16_fd_camel_hess_is_central_difference", "C16_fd_camel_hess_symm",
    "C16_fd_hess_symm", "C16_fd_hess_exact_quadratic", "C16_fd_caller_array_untouched",
    "C16_lj_invariant", "C16_gupta_invariant", "sq3_moveAtoms", "C16_lj_rigid_motion",
    "C16_exchange_like_atoms",
    "C16_classifier_at_bounds", "C16_classifier_min_std", "C16_classifier_ts_std",
    "C16_ts_exactly_one_negative", "C16_classifier_min_atom", "C16_classifier_ts_atom",
]] + ["TopSearch.Py.E.sound"]
RULE = ("cases = (generated expression, rational point) evaluations compared with the real function at "
        "the same point, classifier decisions on spectra around every threshold, and numeric predicate "
        "evaluations on the real surfaces; non-trivial = the point is generic (no vanishing denominator, "
        "non-zero gradient); distinct = distinct (expression, point) pairs")
ASSUMPTIONS = [
    "decimal literals of the source are read as exact rationals (2.1 = 21/10); the identities are exact "
    "over the reals, IEEE rounding of the coded formulas is only observed (tolerance 1e-9)",
    "numpy.linalg.eigvalsh returns the ascending spectrum (oracle for the classifiers)",
    "MMFF94 is RDKit: only the numeric predicates apply to it",
]
PARTIAL = ("symbolic route covers Camelback, Lennard-Jones (the regenerated pair kernel and the code unrolled for "
           "2–4 atoms; for EVERY atom count through the loop model Model/LjN.lean, whose double loop is written by "
           "hand, proved equal to the unrolled regenerated terms at N = 2, 3, 4 and compared with the real class up "
           "to 13 atoms), Gupta Au–Ag–Au and the finite differences on the Quadratic surface; Gupta with other atom "
           "counts / Schwefel / MMFF94 and the O(h²) truncation order for general smooth f are checked numerically only")

_EXPRS: dict = {}


def regenerate(ctx: Ctx) -> None:
    status, exprs = surfaces.regenerate()
    ctx.gen_status.update(status)
    _EXPRS.clear()
    _EXPRS.update(exprs)


# ----------------------------------------------------------------------------- helpers


def dyadic(rng, lo, hi, bits=6):
    return round(rng.uniform(lo, hi) * (1 << bits)) / (1 << bits)


def close(a, b, rel=1e-9, absol=1e-12):
    return abs(a - b) <= absol + rel * max(abs(a), abs(b))


def rat_to_float(s: str) -> float:
    return float(Fraction(s))


def lj_points(rng, n):
    """generic cluster: dyadic coordinates, no two atoms closer than 0.7"""
    while True:
        pts = [[dyadic(rng, -1.5, 1.5) for _ in range(3)] for _ in range(n)]
        ok = all(math.dist(pts[i], pts[j]) > 0.7 for i in range(n) for j in range(i + 1, n))
        if ok:
            return [c for p in pts for c in p]


# ----------------------------------------------------------------------------- correspondence


def correspond(ctx: Ctx) -> None:
    from topsearch.potentials.test_functions import Camelback, Quadratic
    from topsearch.potentials.atomic import LennardJones, BinaryGupta
    from topsearch.potentials.potential import Potential
    rng = ctx.rng
    lines, checks = [], []          # checks: (label, expected float, canon)

    def ask(name, idx, vals, expected, label):
        lines.append(f"eval {name} {idx} " + ",".join(frac(v) for v in vals))
        checks.append((label, expected, {"expr": name, "index": idx, "point": [float(v) for v in vals]}))

    cam = Camelback()
    for _ in range(ctx.scale(40, 300)):
        p = [dyadic(rng, -3, 3), dyadic(rng, -2, 2)]
        x = np.array(p)
        ask("camelF", 0, p, cam.function(x.copy()), "camel-function")
        g = cam.gradient(x.copy())
        h = cam.hessian(x.copy())
        for i in range(2):
            ask("camelGrad", i, p, g[i], "camel-gradient")
        for i in range(4):
            ask("camelHess", i, p, h[i // 2, i % 2], "camel-hessian")
    for n in (2, 3, 4):
        for _ in range(ctx.scale(15, 100)):
            p = lj_points(rng, n)
            eps, sig = dyadic(rng, 0.5, 2.0, 3), dyadic(rng, 0.5, 1.5, 3)
            lj = LennardJones(epsilon=eps, sigma=sig)
            x = np.array(p)
            vals = p + [eps, sig]
            ask(f"ljF{n}", 0, vals, lj.function(x.copy()), f"lj{n}-function")
            g = lj.gradient(x.copy())
            k = rng.randrange(3 * n)
            ask(f"ljGrad{n}", k, vals, g[k], f"lj{n}-gradient")
            fv, fg = lj.function_gradient(x.copy())
            ask(f"ljFG{n}", 0, vals, fv, f"lj{n}-function_gradient")
            ask(f"ljFG{n}", 1 + k, vals, fg[k], f"lj{n}-function_gradient")
    quad = Quadratic()
    for _ in range(ctx.scale(20, 100)):
        p = [dyadic(rng, -2, 2) for _ in range(3)]
        h = 2.0 ** -rng.randrange(6, 14)
        vals = p + [0] * 6 + [h]
        g = Potential.gradient(quad, np.array(p), displacement=h)
        k = rng.randrange(3)
        ask("quadFDGrad3", k, vals, g[k], "fd-gradient-quadratic")
        hs = Potential.hessian(quad, np.array(p[:2]), displacement=h)
        vals2 = p[:2] + [0] * 7 + [h]
        j = rng.randrange(4)
        # the Hessian stencil divides differences of O(h) numbers by h: compare loosely
        lines.append(f"eval quadFDHess2 {j} " + ",".join(frac(v) for v in vals2))
        checks.append(("fd-hessian-quadratic:loose", hs[j // 2, j % 2],
                       {"expr": "quadFDHess2", "index": j, "point": vals2}))
    out = run_driver("Surfaces", lines)
    for (label, expected, canon), got in zip(checks, out):
        ctx.stats.branch(label)
        if got in ("bad-op", "has-fn"):
            ctx.diverge(f"driver:{label}", f"driver answered {got}", canon)
            continue
        val = rat_to_float(got)
        ctx.stats.case(canon, nontrivial=abs(val) > 1e-12)
        tol = 1e-5 if label.endswith(":loose") else 1e-9
        # the Hessian stencil divides rounding noise of size ~1e-16 by h²
        # the Hessian stencil differences two inner finite-difference gradients (step 1e-6), each carrying a rounding
        # error of about eps*|f|/1e-6, and divides by h: allow 100 * eps * max(1, |f|) / (1e-6 * h); |f| <= 10 on these points
        absol = 100 * 2.3e-16 * 10.0 / (1e-6 * abs(canon["point"][-1])) if label.endswith(":loose") else tol * 1e-2
        if not close(val, float(expected), rel=tol, absol=absol):
            ctx.diverge(label.split(":")[0], f"{canon['expr']}[{canon['index']}] at {canon['point']}: generated "
                        f"expression gives {val!r}, the code gives {float(expected)!r}", canon)
    # the loop model of Model/LjN.lean (any number of atoms; the pair kernel inside it is the regenerated ljF2 /
    # ljGrad2) against function / gradient / function_gradient of the real class
    ljn_lines, ljn_exp = [], []
    for n in [2, 3, 5, 6, 8, 13][: ctx.scale(5, 6)]:
        for _ in range(ctx.scale(4, 20)):
            p = [c * (1.0 + 0.15 * n ** (1 / 3)) for c in lj_points(rng, n)]
            p = [round(c * 64) / 64 for c in p]
            if any(math.dist(p[3 * i:3 * i + 3], p[3 * j:3 * j + 3]) < 0.6 for i in range(n) for j in range(i + 1, n)):
                continue
            eps, sig = dyadic(rng, 0.5, 2.0, 3), dyadic(rng, 0.5, 1.5, 3)
            lj = LennardJones(epsilon=eps, sigma=sig)
            x = np.array(p)
            fv, fg = lj.function_gradient(x.copy())
            ljn_lines.append(f"ljn {n} {frac(eps)} {frac(sig)} " + ",".join(frac(v) for v in p))
            ljn_exp.append((n, p, eps, sig, lj.function(x.copy()), lj.gradient(x.copy()), fv, fg))
    for (n, p, eps, sig, f, g, fv, fg), got in zip(ljn_exp, run_driver("Surfaces", ljn_lines) if ljn_lines else []):
        canon = {"expr": "ljn", "n": n, "point": p, "eps": eps, "sigma": sig}
        ctx.stats.branch(f"ljN-loop:{n}")
        ctx.stats.case(canon, True)
        if got == "bad-op" or got.count("|") != 2:
            ctx.diverge("driver:ljN-loop", f"driver answered {got[:60]}", canon)
            continue
        me, mg, agree = got.split("|")
        me = rat_to_float(me)
        mg = [rat_to_float(t) for t in mg.split(",")]
        scale = max(1.0, max(abs(v) for v in mg))
        if not (close(me, float(f)) and close(me, float(fv))):
            ctx.diverge("ljN-function", f"{n} atoms at {p}: loop model energy {me!r}, function {float(f)!r}, "
                        f"function_gradient {float(fv)!r}", canon)
        elif len(mg) != len(g) or any(not close(a, float(b), absol=1e-9 * scale) for a, b in zip(mg, g)) or \
                any(not close(a, float(b), absol=1e-9 * scale) for a, b in zip(mg, fg)):
            ctx.diverge("ljN-gradient", f"{n} atoms at {p}: loop model gradient differs from gradient / function_gradient "
                        f"(max deviation {max(abs(a - float(b)) for a, b in zip(mg, g)):.3e})", canon)
        elif agree != "1":
            ctx.diverge("ljN-fg", "the model's combined loop disagrees with its separate loops", canon)
    # Gupta: named functions — the translator is cross-checked in floating point
    gup = _EXPRS.get("gupta")
    if gup:
        fns = {"sqrt": math.sqrt, "exp": math.exp}
        pot = BinaryGupta(gup["species"])
        for _ in range(ctx.scale(10, 60)):
            p = [x * 2.5 for x in lj_points(rng, 3)]
            val = float(gup["guptaF3"].eval({i: p[i] for i in range(9)}, fns))
            ref = pot.function(np.array(p))
            ctx.stats.case({"expr": "guptaF3", "point": p}, True)
            ctx.stats.branch("gupta-function")
            if not close(val, ref):
                ctx.diverge("gupta-function", f"generated Gupta energy {val} vs code {ref} at {p}", {"point": p})
    # classifiers: spectra around every threshold, through a surface with a prescribed Hessian
    classifier_correspondence(ctx)


class _DiagSurface:
    """Potential with a prescribed (diagonal) Hessian: eigvalsh returns exactly the sorted entries"""

    def __new__(cls, eigs, atomistic):
        from topsearch.potentials.potential import Potential

        class D(Potential):
            def __init__(s):
                s.atomistic = atomistic

            def hessian(s, position, displacement=1e-4):
                return np.diag(np.array(eigs, dtype=float))
        return D()


class _Coords:
    def __init__(self, n, at_bounds):
        self.position = np.zeros(n)
        self._ab = at_bounds

    def at_bounds(self):
        return self._ab


def classifier_correspondence(ctx: Ctx) -> None:
    rng = ctx.rng
    thr = [-1.0, -1e-3, -1e-5, 1e-9, 1e-6, 0.0]
    lines, exp = [], []
    for _ in range(ctx.scale(300, 2000)):
        n = rng.choice([1, 2, 3, 6, 6, 7, 8, 9, 12])       # 6 = a pair of atoms: no vibrational block beyond index 6
        eigs = []
        for _k in range(n):
            t = rng.choice(thr)
            eigs.append(t + rng.choice([-1, 1]) * abs(t if t else 1e-7) * rng.choice([0.01, 0.5, 3.0]))
        if rng.random() < 0.3:
            eigs = [abs(e) + 1e-3 for e in eigs]
        if rng.random() < 0.3:
            eigs[0] = -abs(eigs[0]) - 2e-3
        eigs.sort()
        if any(abs(e - t) <= 1e-6 * abs(t) for e in eigs for t in thr if t):
            ctx.stats.near_ties += 1      # a spectrum value exactly at a (decimal) threshold: skipped
            continue
        atom = rng.random() < 0.5
        ab = rng.random() < 0.1
        kind = rng.choice(["min", "ts"])
        pot = _DiagSurface(eigs, atom)
        co = _Coords(n, ab)
        try:
            r = pot.check_valid_minimum(co) if kind == "min" else pot.check_valid_ts(co)
            r = "1" if r else "0"
        except IndexError:
            r = "index-error"
        lines.append(f"valid {kind} {int(ab)} {int(atom)} " + ",".join(frac(e) for e in eigs))
        exp.append((r, {"kind": kind, "at_bounds": ab, "atomistic": atom, "eigs": eigs}))
    out = run_driver("Surfaces", lines)
    for (r, canon), got in zip(exp, out):
        ctx.stats.case(canon, nontrivial=not canon["at_bounds"])
        ctx.stats.branch(f"classifier-{canon['kind']}-{'atom' if canon['atomistic'] else 'std'}:{got}")
        if r != got:
            ctx.diverge(f"classifier-{canon['kind']}", f"check_valid_{canon['kind']} returned {r}, model {got} "
                        f"for spectrum {canon['eigs']}", canon)


# ----------------------------------------------------------------------------- predicates


def random_rotation(rng):
    a = np.array([[rng.gauss(0, 1) for _ in range(3)] for _ in range(3)])
    q, r = np.linalg.qr(a)
    q = q * np.sign(np.diag(r))
    if np.linalg.det(q) < 0:
        q[:, 0] *= -1
    return q


def richardson_grad(f, x, h=1e-3):
    """4th-order central difference — independent reference for a coded gradient"""
    g = np.zeros(x.size)
    for i in range(x.size):
        e = np.zeros(x.size); e[i] = 1.0
        d1 = (f(x + h * e) - f(x - h * e)) / (2 * h)
        d2 = (f(x + 2 * h * e) - f(x - 2 * h * e)) / (4 * h)
        g[i] = (4 * d1 - d2) / 3
    return g


def predicates(ctx: Ctx) -> None:
    from topsearch.potentials.test_functions import Camelback, Schwefel, Quadratic
    from topsearch.potentials.atomic import LennardJones, BinaryGupta
    rng = ctx.rng
    deep = 4 if getattr(ctx, "deep_search", False) else 1
    cam, sch, quad = Camelback(), Schwefel(), Quadratic()
    # 1. coded derivatives vs independent numerical derivatives; combined call = separate calls
    for _ in range(ctx.scale(30, 200) * deep):
        x = np.array([rng.uniform(-2.5, 2.5), rng.uniform(-1.8, 1.8)])
        ctx.stats.case({"pred": "camel-derivatives", "x": x.tolist()}, True)
        g = cam.gradient(x.copy())
        ref = richardson_grad(cam.function, x)
        if not np.allclose(g, ref, rtol=1e-6, atol=1e-7):
            ctx.fail("coded-gradient:Camelback", f"Camelback.gradient({x.tolist()}) = {g.tolist()} but the "
                     f"derivative of Camelback.function is {ref.tolist()}", {"x": x.tolist()})
        H = cam.hessian(x.copy())
        refH = np.array([richardson_grad(lambda y, i=i: cam.gradient(y)[i], x) for i in range(2)])
        if not np.allclose(H, refH, rtol=1e-6, atol=1e-6):
            ctx.fail("coded-hessian:Camelback", f"Camelback.hessian({x.tolist()}) = {H.tolist()} but the "
                     f"derivative of the gradient is {refH.tolist()}", {"x": x.tolist()})
    # the same point handed over as an integer-typed array (lattice points are typical hand-written start points): the
    # derivative is a function of the point, not of the array's dtype.  Judged against the derivative of the coded
    # function itself (Richardson on a float copy), and against the float call.
    for _ in range(ctx.scale(12, 60) * deep):
        xi = [rng.randrange(-2, 3), rng.randrange(-1, 2)]
        for dt in (np.int64, np.int32, object):
            x = np.array(xi, dtype=dt)
            ctx.stats.case({"pred": "camel-integer-position", "x": xi, "dtype": np.dtype(dt).name}, True)
            xf = np.array(xi, dtype=float)
            ref = richardson_grad(cam.function, xf)
            try:
                g = np.asarray(cam.gradient(x.copy()), dtype=float)
                fv, fg = cam.function_gradient(x.copy())
                H = np.asarray(cam.hessian(x.copy()), dtype=float)
                f0 = float(cam.function(x.copy()))
            except Exception as e:  # noqa: BLE001
                ctx.fail("coded-gradient:Camelback:integer-position", f"Camelback raised {type(e).__name__} for the position "
                         f"{xi} given as a {np.dtype(dt).name} array: {e}", {"x": xi, "dtype": np.dtype(dt).name})
                continue
            bad = None
            if not np.allclose(g, ref, rtol=1e-6, atol=1e-7):
                bad = f"gradient {g.tolist()} but the derivative of Camelback.function there is {ref.tolist()}"
            elif not np.allclose(np.asarray(fg, dtype=float), g, rtol=1e-12, atol=0) or not close(float(fv), f0, 1e-12):
                bad = f"function_gradient {(float(fv), np.asarray(fg, dtype=float).tolist())} differs from function {f0} / gradient {g.tolist()}"
            elif not np.allclose(H, cam.hessian(xf), rtol=1e-12, atol=1e-12) or not close(f0, float(cam.function(xf)), 1e-12):
                bad = f"function / Hessian differ from the values for the float array ({f0}, {H.tolist()})"
            if bad:
                ctx.fail("coded-gradient:Camelback:integer-position", f"Camelback at {xi} given as a {np.dtype(dt).name} "
                         f"array: {bad}", {"x": xi, "dtype": np.dtype(dt).name})
    # points with coordinates that are exactly zero (the box centre, an axis, -0.0): every built-in surface is
    # differentiable there (the Schwefel term -x sin(sqrt|x|) has derivative 0 at 0), so gradient, combined call and Hessian
    # are finite numbers, and the gradient is the derivative — for Schwefel at a zero coordinate to the accuracy a central
    # difference has at that kink (|f'(0) - cd| <= sin(sqrt(h)) ~ 1e-3)
    for surf, name, dims in ((cam, "Camelback", (2,)), (sch, "Schwefel", (2, 3)), (quad, "Quadratic", (2, 3))):
        for d in dims:
            for _k in range(ctx.scale(4, 12)):
                x = np.array([rng.choice([0.0, -0.0, rng.uniform(-1.5, 1.5)]) for _q in range(d)])
                if not np.any(x == 0.0):
                    x[rng.randrange(d)] = 0.0
                ctx.stats.case({"pred": "zero-coordinate", "surface": name, "x": x.tolist()}, True)
                try:
                    with np.errstate(all="ignore"):
                        g = np.asarray(surf.gradient(x.copy()), dtype=float)
                        fv, fg = surf.function_gradient(x.copy())
                        Hm = np.asarray(surf.hessian(x.copy()), dtype=float)
                except Exception as e:  # noqa: BLE001
                    ctx.fail(f"derivative-at-zero-coordinate:{name}", f"{name} raised {type(e).__name__} at {x.tolist()}: {e}",
                             {"surface": name, "x": x.tolist(), "zero": True})
                    continue
                ref = richardson_grad(surf.function, x, h=1e-3)
                okg = np.all(np.isfinite(g)) and np.all(np.isfinite(np.asarray(fg, dtype=float))) and np.isfinite(float(fv)) \
                    and np.all(np.isfinite(Hm))
                tol = np.where(x == 0.0, 5e-2, 1e-5) if name == "Schwefel" else np.full(d, 1e-5)
                if not okg or np.any(np.abs(g - ref) > tol * np.maximum(1.0, np.abs(ref))):
                    ctx.fail(f"derivative-at-zero-coordinate:{name}",
                             f"{name} at {x.tolist()} (a coordinate exactly zero): gradient {g.tolist()}, combined call "
                             f"{np.asarray(fg, dtype=float).tolist()}, Hessian finite: {bool(np.all(np.isfinite(Hm)))}; the derivative "
                             f"of the coded function there is {ref.tolist()}", {"surface": name, "x": x.tolist(), "zero": True})
    # what was returned for one point stays the derivative at that point after the surface is evaluated elsewhere
    # (a caller keeps the Hessians / gradients of several stationary points side by side)
    for _ in range(ctx.scale(10, 60) * deep):
        x1 = np.array([rng.uniform(-2.5, 2.5), rng.uniform(-1.8, 1.8)])
        x2 = np.array([rng.uniform(-2.5, 2.5), rng.uniform(-1.8, 1.8)])
        H1, g1 = cam.hessian(x1.copy()), cam.gradient(x1.copy())
        H1_then, g1_then = np.array(H1, copy=True), np.array(g1, copy=True)
        cam.hessian(x2.copy()); cam.gradient(x2.copy()); cam.function(x2.copy())
        ctx.stats.case({"pred": "camel-results-independent", "x1": x1.tolist(), "x2": x2.tolist()}, True)
        if not (np.array_equal(H1, H1_then) and np.array_equal(g1, g1_then)):
            ctx.fail("coded-hessian:Camelback:earlier-result-overwritten",
                     f"the Hessian / gradient returned for {x1.tolist()} changed when the surface was evaluated at "
                     f"{x2.tolist()}: it was {H1_then.tolist()} and now reads {np.asarray(H1).tolist()}",
                     {"x1": x1.tolist(), "x2": x2.tolist()})
            break
    for _ in range(ctx.scale(20, 150) * deep):
        n = rng.randrange(2, 9)
        x = np.array(lj_points(rng, n)) * rng.uniform(0.9, 1.3)
        lj = LennardJones(epsilon=rng.uniform(0.5, 2), sigma=rng.uniform(0.8, 1.2))
        ctx.stats.case({"pred": "lj-derivatives", "n": n}, True)
        g = lj.gradient(x.copy())
        ref = richardson_grad(lj.function, x, h=1e-4)
        if not np.allclose(g, ref, rtol=1e-5, atol=1e-6 * max(1.0, np.max(np.abs(g)))):
            ctx.fail("coded-gradient:LennardJones", f"LennardJones.gradient differs from the derivative of "
                     f".function for {n} atoms (max difference {np.max(np.abs(g - ref)):.3e})",
                     {"x": x.tolist(), "epsilon": lj.epsilon, "sigma": lj.sigma})
        fv, fg = lj.function_gradient(x.copy())
        if not (close(fv, lj.function(x.copy()), 1e-12) and np.allclose(fg, g, rtol=1e-12, atol=0)):
            ctx.fail("function_gradient-disagrees:LennardJones", "function_gradient differs from function/gradient",
                     {"x": x.tolist()})
    # 2. default finite differences: approximate to truncation order, symmetric Hessian, caller untouched
    for surf, name, box in ((cam, "Camelback", (2.0, 1.5)), (sch, "Schwefel", (400.0, 400.0)), (quad, "Quadratic", (3.0, 3.0))):
        from topsearch.potentials.potential import Potential
        for _ in range(ctx.scale(25, 150) * deep):
            x = np.array([rng.uniform(-b, b) for b in box])
            if name == "Schwefel" and np.min(np.abs(x)) < 1.0:
                continue               # |x| is not differentiable at 0
            keep = x.copy()
            g = Potential.gradient(surf, x)
            H = Potential.hessian(surf, x)
            ctx.stats.case({"pred": "finite-differences", "surface": name}, True)
            if x.tobytes() != keep.tobytes():
                ctx.fail("fd-writes-caller-array", f"Potential.gradient/hessian changed the caller's position "
                         f"array on {name} at {keep.tolist()} (now {x.tolist()})", {"surface": name, "x": keep.tolist()})
                x = keep.copy()
            if not np.array_equal(H, H.T):
                ctx.fail("fd-hessian-asymmetric", f"finite-difference Hessian not symmetric on {name} at {x.tolist()}",
                         {"surface": name, "x": x.tolist()})
            # the stencil itself: component i is (f(x + h e_i) - f(x - h e_i)) / 2h with every other coordinate
            # at its own value; only rounding of the two function values (|f| * eps / h) may separate them
            hd = 1e-6
            cd = np.zeros(len(x))
            fmax = abs(float(surf.function(x.copy())))
            for i in range(len(x)):
                xp, xm = x.copy(), x.copy()
                xp[i] += hd
                xm[i] -= hd
                cd[i] = (surf.function(xp) - surf.function(xm)) / (2.0 * hd)
            if not np.allclose(g, cd, rtol=0, atol=200 * 2.3e-16 * max(1.0, fmax) / hd):
                ctx.fail("fd-gradient-not-central-difference", f"default finite-difference gradient on {name} at "
                         f"{x.tolist()} is {g.tolist()}; the central difference at that point is {cd.tolist()}",
                         {"surface": name, "x": x.tolist()})
            ref = richardson_grad(surf.function, x, h=1e-3 if name != "Schwefel" else 1e-2)
            scale = max(1.0, float(np.max(np.abs(ref))))
            if not np.allclose(g, ref, rtol=0, atol=1e-5 * scale):
                ctx.fail("fd-gradient-inaccurate", f"default finite-difference gradient on {name} at {x.tolist()} is "
                         f"{g.tolist()}, reference {ref.tolist()}", {"surface": name, "x": x.tolist()})
    # 3. symmetries: rigid motion and exchange of like atoms
    for _ in range(ctx.scale(20, 120) * deep):
        n = rng.randrange(3, 10)
        pts = np.array(lj_points(rng, n)).reshape(-1, 3)
        q, t = random_rotation(rng), np.array([rng.uniform(-2, 2) for _ in range(3)])
        if rng.random() < 0.3:
            q = -q                      # improper: energies depend on distances only
        perm = list(range(n)); rng.shuffle(perm)
        lj = LennardJones()
        e0 = lj.function(pts.flatten())
        e1 = lj.function((pts[perm] @ q.T + t).flatten())
        ctx.stats.case({"pred": "lj-symmetry", "n": n}, True)
        if not close(e0, e1, 1e-9, 1e-9):
            ctx.fail("energy-not-invariant:LennardJones", f"LJ energy {e0} changed to {e1} under a rigid motion + "
                     f"permutation of {n} atoms", {"x": pts.flatten().tolist(), "perm": perm})
        # a cluster far from the origin: grid points (2^-20) translated by +-2^k per axis are exact doubles, the
        # inter-atomic differences are then bit-identical, so energy AND gradient may differ only by the rounding of
        # the pair terms themselves
        grid = np.round(pts * 2.0 ** 20) / 2.0 ** 20
        if min(np.linalg.norm(grid[i] - grid[j]) for i in range(n) for j in range(i + 1, n)) > 0.6:
            big = np.array([rng.choice([-1.0, 1.0]) * 2.0 ** rng.choice([6, 13, 20]) for _ in range(3)])
            far = grid + big
            if np.array_equal(far - big, grid):
                f0, g0 = lj.function_gradient(grid.flatten().copy())
                f1, g1 = lj.function_gradient(far.flatten().copy())
                r6 = [1.0 / float(np.sum((grid[i] - grid[j]) ** 2)) ** 3 for i in range(n) for j in range(i + 1, n)]
                bound = 1000 * 2.3e-16 * sum(4 * (q * q + q) for q in r6)
                gbound = 1000 * 2.3e-16 * sum(24 * (2 * q * q + q) * 2 for q in r6)
                ctx.stats.case({"pred": "lj-far-from-origin", "n": n, "offset": float(np.max(np.abs(big)))}, True)
                if abs(f1 - f0) > bound or float(np.max(np.abs(np.asarray(g1) - np.asarray(g0)))) > gbound or \
                        abs(lj.function(far.flatten().copy()) - f0) > bound:
                    ctx.fail("energy-not-invariant:LennardJones:far-from-origin",
                             f"{n}-atom cluster translated by {big.tolist()} (exactly representable): energy {f0!r} -> {f1!r}, "
                             f"largest gradient change {float(np.max(np.abs(np.asarray(g1) - np.asarray(g0)))):.3e}",
                             {"x": grid.flatten().tolist(), "shift": big.tolist()})
        species = [rng.choice(["Au", "Ag"]) for _ in range(n)]
        gp = BinaryGupta(species)
        like = [i for i in range(n)]
        # permute only within like species
        perm2 = list(range(n))
        for sp in ("Au", "Ag"):
            idx = [i for i in range(n) if species[i] == sp]
            sh = idx[:]; rng.shuffle(sh)
            for a, b in zip(idx, sh):
                perm2[a] = b
        g0 = gp.function((pts * 2.6).flatten())
        g1 = gp.function(((pts * 2.6)[perm2] @ q.T + t).flatten())
        ctx.stats.case({"pred": "gupta-symmetry", "n": n, "species": species}, True)
        if not close(g0, g1, 1e-9, 1e-9):
            ctx.fail("energy-not-invariant:BinaryGupta", f"Gupta energy {g0} changed to {g1} under a rigid motion + "
                     f"exchange of like atoms", {"x": (pts * 2.6).flatten().tolist(), "species": species, "perm": perm2})
    mmff_symmetry(ctx)
    cluster_classifier(ctx)
    # 4. classifiers vs the spectrum (dense random symmetric Hessians)
    for _ in range(ctx.scale(60, 400) * deep):
        n = rng.randrange(2, 6)
        a = np.array([[rng.gauss(0, 1) for _ in range(n)] for _ in range(n)])
        q, _r = np.linalg.qr(a)
        eigs = sorted(rng.choice([-1, 1, 1, 1]) * rng.uniform(1e-3, 2.0) for _ in range(n))
        singular = rng.random() < 0.25
        if singular:
            # a flat direction: one eigenvalue exactly zero, the others positive — not positive definite, hence no minimum
            eigs = sorted([0.0] + [abs(e) for e in eigs[1:]])
        Hm = (q * np.array(eigs)) @ q.T
        Hm = (Hm + Hm.T) / 2
        from topsearch.potentials.potential import Potential

        class Hs(Potential):
            def __init__(s):
                s.atomistic = False

            def hessian(s, position, displacement=1e-4):
                return Hm
        pot, co = Hs(), _Coords(n, False)
        ctx.stats.case({"pred": "classifier-spectrum", "eigs": eigs}, True)
        neg = sum(1 for e in eigs if e < 0)
        if singular:
            if abs(float(np.linalg.eigvalsh(Hm)[0])) < 1e-12 and pot.check_valid_minimum(co):
                ctx.fail("classifier-disagrees:minimum:singular", f"check_valid_minimum = True for the spectrum {eigs}: the Hessian has "
                         f"a zero eigenvalue, it is not positive definite", {"eigs": eigs})
            continue
        if pot.check_valid_minimum(co) != (neg == 0):
            ctx.fail("classifier-disagrees:minimum", f"check_valid_minimum = {pot.check_valid_minimum(co)} for spectrum {eigs}", {"eigs": eigs})
        if pot.check_valid_ts(co) != (neg == 1):
            ctx.fail("classifier-disagrees:ts", f"check_valid_ts = {pot.check_valid_ts(co)} for spectrum {eigs}", {"eigs": eigs})


def cluster_classifier(ctx: Ctx) -> None:
    """real cluster minima (Lennard-Jones and Gupta, relaxed here): when the library's own Hessian has an unambiguous
    spectrum — six modes below 1e-3 in magnitude (translations and rotations; five for a pair of atoms, which is
    linear), all others above 1e-2 — the point is a minimum and not a transition state, and the classifiers of an
    atomistic surface must say so"""
    import warnings
    from topsearch.minimisation import lbfgs
    from topsearch.potentials.atomic import BinaryGupta, LennardJones
    rng = ctx.rng
    for it in range(ctx.scale(6, 20)):
        n = rng.choice([2, 3, 4, 5, 6])
        if it < 2:
            n = 2 + it                       # the pair and the triangle are always among the cases
        if it % 2 == 0:
            pot, scale, name = LennardJones(), 1.12, "LennardJones"
        else:
            pot, scale, name = BinaryGupta([rng.choice(["Au", "Ag"]) for _ in range(n)]), 2.8, "BinaryGupta"
        base = np.array([[0, 0, 0], [1, 0, 0], [0.5, 0.87, 0], [0.5, 0.29, 0.82], [0.5, 0.29, -0.82], [1.3, 0.9, 0.7]],
                        dtype=float)[:n] * scale
        x0 = (base + np.array([[rng.uniform(-0.05, 0.05) for _ in range(3)] for _ in range(n)])).flatten()
        with warnings.catch_warnings(), np.errstate(all="ignore"):
            warnings.simplefilter("ignore")
            x, e, d = lbfgs.minimise(func_grad=pot.function_gradient, initial_position=x0, bounds=[(-50.0, 50.0)] * (3 * n),
                                     conv_crit=1e-7)
            H = pot.hessian(np.array(x, dtype=float).copy())
        w = np.linalg.eigvalsh((H + H.T) / 2)
        small = [v for v in w if abs(v) < 1e-3]
        rigid = 5 if n == 2 else 6
        if d.get("warnflag") != 0 or len(small) != rigid or any(v < 1e-2 for v in w if abs(v) >= 1e-3):
            ctx.stats.near_ties += 1          # not an unambiguous minimum (flat mode, unconverged): no verdict
            continue
        co = _Coords(3 * n, False)
        co.position = np.array(x, dtype=float)
        vm, vt = bool(pot.check_valid_minimum(co)), bool(pot.check_valid_ts(co))
        ctx.stats.case({"pred": "cluster-classifier", "surface": name, "n": n}, True)
        if not vm or vt:
            ctx.fail(f"classifier-disagrees:cluster-minimum:{name}",
                     f"relaxed {n}-atom {name} cluster: Hessian spectrum has {rigid} modes below 1e-3 and all others above 1e-2 "
                     f"(lowest {w[:7].round(6).tolist()}), but check_valid_minimum = {vm}, check_valid_ts = {vt} "
                     f"(atomistic flag of the surface: {getattr(pot, 'atomistic', None)})",
                     {"surface": name, "x": np.asarray(x).tolist(), "species": getattr(pot, "species", None)})
            return


def mmff_symmetry(ctx: Ctx) -> None:
    try:
        from topsearch.potentials.force_fields import MMFF94
        import ase.io
    except Exception as e:           # RDKit/ase missing would be infrastructure, not a verdict
        ctx.stats.notes["mmff94"] = f"skipped ({type(e).__name__})"
        return
    rng = ctx.rng
    for mol in ("ethanol.xyz", "cyclopentane.xyz"):
        path = str(REPO / "tests" / "test_data" / mol)
        try:
            ff = MMFF94(path)
            pos = ase.io.read(path).get_positions()
        except Exception as e:
            ctx.stats.notes[f"mmff94:{mol}"] = f"skipped ({type(e).__name__}: {e})"
            continue
        e0, g0 = ff.function_gradient(pos.flatten())
        for _ in range(ctx.scale(3, 15)):
            q, t = random_rotation(rng), np.array([rng.uniform(-3, 3) for _ in range(3)])
            x1 = (pos @ q.T + t).flatten()
            e1 = ff.function(x1)
            ctx.stats.case({"pred": "mmff94-rigid-motion", "molecule": mol}, True)
            if not close(e0, e1, 1e-7, 1e-7):
                ctx.fail("energy-not-invariant:MMFF94", f"MMFF94 energy of {mol} changed from {e0} to {e1} under a "
                         f"rigid motion", {"molecule": mol})
            ev, gv = ff.function_gradient(x1)
            if not (close(ev, e1, 1e-10, 1e-10) and np.allclose(gv, ff.gradient(x1), rtol=1e-10, atol=1e-10)):
                ctx.fail("function_gradient-disagrees:MMFF94", f"MMFF94.function_gradient differs from separate calls "
                         f"on {mol}", {"molecule": mol})


def replay(ctx: Ctx, data: dict) -> bool:
    predicates(ctx)
    correspond_needed = data.get("kind") == "model-impl-divergence"
    if correspond_needed:
        regenerate(ctx)
        correspond(ctx)
    for f in ctx.failures + ctx.divergences:
        print(f"  {f.key}: {f.what}")
    return not (ctx.failures or ctx.divergences)
